static long dec_(const struct forest *f, node_handle h) { long v; forest__getValueFromHandle_long(f, h, &v); return v; }


int lemma_mt_plus_kernel(struct forest *fa, struct forest *fb, struct forest *fc, node_handle a, node_handle b)
{
    long av = dec_(fa, a), bv = dec_(fb, b);
    node_handle c = 0;
    mt_plus__apply(fa, a, fb, b, fc, &c);
    int exc = verif_exc; verif_exc = 0;
    
    long r = av + bv;
    if (r < TERM_MIN || r > TERM_MAX) return exc == ERR_VALUE_OVERFLOW;     /* result does not fit a terminal: rejected, no value */
    node_handle expect = forest__handleForValue_long(fc, r);
    return exc == 0 && verif_exc == 0 && c == expect;
}
int lemma_mt_plus_shortcuts(struct forest *fa, struct forest *fb, struct forest *fc, node_handle a, node_handle b)
{
    int ok = 0;
    node_handle c;
    /* first-argument shortcut: whenever the predicate fires, the kernel raises nothing and yields the (possibly adjusted) first operand */
    { node_handle a1 = a; c = 0;
      if (mt_plus__simplifiesToFirstArg(0, fa, &a1, fb, b)) { mt_plus__apply(fa, a, fb, b, fc, &c); if (verif_exc == 0 && c == a1) ok |= 1; verif_exc = 0; } else ok |= 1; }
    { node_handle b1 = b; c = 0;
      if (mt_plus__simplifiesToSecondArg(0, fa, a, fb, &b1)) { mt_plus__apply(fa, a, fb, b, fc, &c); if (verif_exc == 0 && c == b1) ok |= 2; verif_exc = 0; } else ok |= 2; }
    /* equal-arguments shortcut: op(x, x) must be defined for every x and equal the constant the operation substitutes */
    { c = 0;
      if (mt_plus__stopOnEqualArgs()) { mt_plus__apply(fa, a, fa, a, fc, &c); long av = dec_(fa, a); if (verif_exc == 0 && c == forest__handleForValue_long(fc, 0) && verif_exc == 0) ok |= 4; verif_exc = 0; } else ok |= 4; }
    { node_handle c1 = 0, c2 = 0; int e1, e2;
      if (mt_plus__commutes()) { mt_plus__apply(fa, a, fb, b, fc, &c1); e1 = verif_exc; verif_exc = 0; mt_plus__apply(fb, b, fa, a, fc, &c2); e2 = verif_exc; verif_exc = 0;
        if (e1 == e2 && (e1 != 0 || c1 == c2)) ok |= 8; } else ok |= 8; }
    return ok;
}
void h_mt_plus_kernel(void) { struct forest *fa, *fb, *fc; node_handle w_a = nondet_int(), w_b = nondet_int(); lemma_mt_plus_kernel(fa, fb, fc, w_a, w_b); CANARY(); }
void h_mt_plus_shortcuts(void) { struct forest *fa, *fb, *fc; node_handle w_a = nondet_int(), w_b = nondet_int(); lemma_mt_plus_shortcuts(fa, fb, fc, w_a, w_b); CANARY(); }


int lemma_mt_minus_kernel(struct forest *fa, struct forest *fb, struct forest *fc, node_handle a, node_handle b)
{
    long av = dec_(fa, a), bv = dec_(fb, b);
    node_handle c = 0;
    mt_minus__apply(fa, a, fb, b, fc, &c);
    int exc = verif_exc; verif_exc = 0;
    
    long r = av - bv;
    if (r < TERM_MIN || r > TERM_MAX) return exc == ERR_VALUE_OVERFLOW;     /* result does not fit a terminal: rejected, no value */
    node_handle expect = forest__handleForValue_long(fc, r);
    return exc == 0 && verif_exc == 0 && c == expect;
}
int lemma_mt_minus_shortcuts(struct forest *fa, struct forest *fb, struct forest *fc, node_handle a, node_handle b)
{
    int ok = 0;
    node_handle c;
    /* first-argument shortcut: whenever the predicate fires, the kernel raises nothing and yields the (possibly adjusted) first operand */
    { node_handle a1 = a; c = 0;
      if (mt_minus__simplifiesToFirstArg(0, fa, &a1, fb, b)) { mt_minus__apply(fa, a, fb, b, fc, &c); if (verif_exc == 0 && c == a1) ok |= 1; verif_exc = 0; } else ok |= 1; }
    { node_handle b1 = b; c = 0;
      if (mt_minus__simplifiesToSecondArg(0, fa, a, fb, &b1)) { mt_minus__apply(fa, a, fb, b, fc, &c); if (verif_exc == 0 && c == b1) ok |= 2; verif_exc = 0; } else ok |= 2; }
    /* equal-arguments shortcut: op(x, x) must be defined for every x and equal the constant the operation substitutes */
    { c = 0;
      if (mt_minus__stopOnEqualArgs()) { mt_minus__apply(fa, a, fa, a, fc, &c); long av = dec_(fa, a); if (verif_exc == 0 && c == forest__handleForValue_long(fc, 0) && verif_exc == 0) ok |= 4; verif_exc = 0; } else ok |= 4; }
    { node_handle c1 = 0, c2 = 0; int e1, e2;
      if (mt_minus__commutes()) { mt_minus__apply(fa, a, fb, b, fc, &c1); e1 = verif_exc; verif_exc = 0; mt_minus__apply(fb, b, fa, a, fc, &c2); e2 = verif_exc; verif_exc = 0;
        if (e1 == e2 && (e1 != 0 || c1 == c2)) ok |= 8; } else ok |= 8; }
    return ok;
}
void h_mt_minus_kernel(void) { struct forest *fa, *fb, *fc; node_handle w_a = nondet_int(), w_b = nondet_int(); lemma_mt_minus_kernel(fa, fb, fc, w_a, w_b); CANARY(); }
void h_mt_minus_shortcuts(void) { struct forest *fa, *fb, *fc; node_handle w_a = nondet_int(), w_b = nondet_int(); lemma_mt_minus_shortcuts(fa, fb, fc, w_a, w_b); CANARY(); }


int lemma_mt_mult_kernel(struct forest *fa, struct forest *fb, struct forest *fc, node_handle a, node_handle b)
{
    long av = dec_(fa, a), bv = dec_(fb, b);
    node_handle c = 0;
    mt_mult__apply(fa, a, fb, b, fc, &c);
    int exc = verif_exc; verif_exc = 0;
    
    long r = av * bv;
    if (r < TERM_MIN || r > TERM_MAX) return exc == ERR_VALUE_OVERFLOW;     /* result does not fit a terminal: rejected, no value */
    node_handle expect = forest__handleForValue_long(fc, r);
    return exc == 0 && verif_exc == 0 && c == expect;
}
int lemma_mt_mult_shortcuts(struct forest *fa, struct forest *fb, struct forest *fc, node_handle a, node_handle b)
{
#ifdef ARITH_SMALL_OPERANDS
    /* BOUNDED variant: 64-bit multiply / divide / remainder equivalences do not finish on any SAT back end; operands below 2^ARITH_SMALL_OPERANDS in magnitude */
    { long sa_ = dec_(fa, a), sb_ = dec_(fb, b); __CPROVER_assume(-(1L << ARITH_SMALL_OPERANDS) < sa_ && sa_ < (1L << ARITH_SMALL_OPERANDS) && -(1L << ARITH_SMALL_OPERANDS) < sb_ && sb_ < (1L << ARITH_SMALL_OPERANDS)); }
#endif
    int ok = 0;
    node_handle c;
    /* first-argument shortcut: whenever the predicate fires, the kernel raises nothing and yields the (possibly adjusted) first operand */
    { node_handle a1 = a; c = 0;
      if (mt_mult__simplifiesToFirstArg(0, fa, &a1, fb, b)) { mt_mult__apply(fa, a, fb, b, fc, &c); if (verif_exc == 0 && c == a1) ok |= 1; verif_exc = 0; } else ok |= 1; }
    { node_handle b1 = b; c = 0;
      if (mt_mult__simplifiesToSecondArg(0, fa, a, fb, &b1)) { mt_mult__apply(fa, a, fb, b, fc, &c); if (verif_exc == 0 && c == b1) ok |= 2; verif_exc = 0; } else ok |= 2; }
    /* equal-arguments shortcut: op(x, x) must be defined for every x and equal the constant the operation substitutes */
    { c = 0;
      if (mt_mult__stopOnEqualArgs()) { mt_mult__apply(fa, a, fa, a, fc, &c); long av = dec_(fa, a); if (verif_exc == 0 && c == forest__handleForValue_long(fc, 0) && verif_exc == 0) ok |= 4; verif_exc = 0; } else ok |= 4; }
    { node_handle c1 = 0, c2 = 0; int e1, e2;
      if (mt_mult__commutes()) { mt_mult__apply(fa, a, fb, b, fc, &c1); e1 = verif_exc; verif_exc = 0; mt_mult__apply(fb, b, fa, a, fc, &c2); e2 = verif_exc; verif_exc = 0;
        if (e1 == e2 && (e1 != 0 || c1 == c2)) ok |= 8; } else ok |= 8; }
    return ok;
}
void h_mt_mult_kernel(void) { struct forest *fa, *fb, *fc; node_handle w_a = nondet_int(), w_b = nondet_int(); lemma_mt_mult_kernel(fa, fb, fc, w_a, w_b); CANARY(); }
void h_mt_mult_shortcuts(void) { struct forest *fa, *fb, *fc; node_handle w_a = nondet_int(), w_b = nondet_int(); lemma_mt_mult_shortcuts(fa, fb, fc, w_a, w_b); CANARY(); }


int lemma_mt_div_kernel(struct forest *fa, struct forest *fb, struct forest *fc, node_handle a, node_handle b)
{
#ifdef ARITH_SMALL_OPERANDS
    /* BOUNDED variant: 64-bit multiply / divide / remainder equivalences do not finish on any SAT back end; operands below 2^ARITH_SMALL_OPERANDS in magnitude */
    { long sa_ = dec_(fa, a), sb_ = dec_(fb, b); __CPROVER_assume(-(1L << ARITH_SMALL_OPERANDS) < sa_ && sa_ < (1L << ARITH_SMALL_OPERANDS) && -(1L << ARITH_SMALL_OPERANDS) < sb_ && sb_ < (1L << ARITH_SMALL_OPERANDS)); }
#endif
    long av = dec_(fa, a), bv = dec_(fb, b);
    node_handle c = 0;
    mt_div__apply(fa, a, fb, b, fc, &c);
    int exc = verif_exc; verif_exc = 0;
    if (bv == 0) return exc == ERR_DIVIDE_BY_ZERO;          /* invalid scalar case: documented error, no value */
    long r = av / bv;
    if (r < TERM_MIN || r > TERM_MAX) return exc == ERR_VALUE_OVERFLOW;     /* result does not fit a terminal: rejected, no value */
    node_handle expect = forest__handleForValue_long(fc, r);
    return exc == 0 && verif_exc == 0 && c == expect;
}
int lemma_mt_div_shortcuts(struct forest *fa, struct forest *fb, struct forest *fc, node_handle a, node_handle b)
{
    int ok = 0;
    node_handle c;
    /* first-argument shortcut: whenever the predicate fires, the kernel raises nothing and yields the (possibly adjusted) first operand */
    { node_handle a1 = a; c = 0;
      if (mt_div__simplifiesToFirstArg(0, fa, &a1, fb, b)) { mt_div__apply(fa, a, fb, b, fc, &c); if (verif_exc == 0 && c == a1) ok |= 1; verif_exc = 0; } else ok |= 1; }
    { node_handle b1 = b; c = 0;
      if (mt_div__simplifiesToSecondArg(0, fa, a, fb, &b1)) { mt_div__apply(fa, a, fb, b, fc, &c); if (verif_exc == 0 && c == b1) ok |= 2; verif_exc = 0; } else ok |= 2; }
    /* equal-arguments shortcut: op(x, x) must be defined for every x and equal the constant the operation substitutes */
    { c = 0;
      if (mt_div__stopOnEqualArgs()) { mt_div__apply(fa, a, fa, a, fc, &c); long av = dec_(fa, a); if (verif_exc == 0 && c == forest__handleForValue_long(fc, 1) && verif_exc == 0) ok |= 4; verif_exc = 0; } else ok |= 4; }
    { node_handle c1 = 0, c2 = 0; int e1, e2;
      if (mt_div__commutes()) { mt_div__apply(fa, a, fb, b, fc, &c1); e1 = verif_exc; verif_exc = 0; mt_div__apply(fb, b, fa, a, fc, &c2); e2 = verif_exc; verif_exc = 0;
        if (e1 == e2 && (e1 != 0 || c1 == c2)) ok |= 8; } else ok |= 8; }
    return ok;
}
void h_mt_div_kernel(void) { struct forest *fa, *fb, *fc; node_handle w_a = nondet_int(), w_b = nondet_int(); lemma_mt_div_kernel(fa, fb, fc, w_a, w_b); CANARY(); }
void h_mt_div_shortcuts(void) { struct forest *fa, *fb, *fc; node_handle w_a = nondet_int(), w_b = nondet_int(); lemma_mt_div_shortcuts(fa, fb, fc, w_a, w_b); CANARY(); }


int lemma_mt_mod_kernel(struct forest *fa, struct forest *fb, struct forest *fc, node_handle a, node_handle b)
{
#ifdef ARITH_SMALL_OPERANDS
    /* BOUNDED variant: 64-bit multiply / divide / remainder equivalences do not finish on any SAT back end; operands below 2^ARITH_SMALL_OPERANDS in magnitude */
    { long sa_ = dec_(fa, a), sb_ = dec_(fb, b); __CPROVER_assume(-(1L << ARITH_SMALL_OPERANDS) < sa_ && sa_ < (1L << ARITH_SMALL_OPERANDS) && -(1L << ARITH_SMALL_OPERANDS) < sb_ && sb_ < (1L << ARITH_SMALL_OPERANDS)); }
#endif
    long av = dec_(fa, a), bv = dec_(fb, b);
    node_handle c = 0;
    mt_mod__apply(fa, a, fb, b, fc, &c);
    int exc = verif_exc; verif_exc = 0;
    if (bv == 0) return exc == ERR_DIVIDE_BY_ZERO;          /* invalid scalar case: documented error, no value */
    long r = av % bv;
    if (r < TERM_MIN || r > TERM_MAX) return exc == ERR_VALUE_OVERFLOW;     /* result does not fit a terminal: rejected, no value */
    node_handle expect = forest__handleForValue_long(fc, r);
    return exc == 0 && verif_exc == 0 && c == expect;
}
int lemma_mt_mod_shortcuts(struct forest *fa, struct forest *fb, struct forest *fc, node_handle a, node_handle b)
{
    int ok = 0;
    node_handle c;
    /* first-argument shortcut: whenever the predicate fires, the kernel raises nothing and yields the (possibly adjusted) first operand */
    { node_handle a1 = a; c = 0;
      if (mt_mod__simplifiesToFirstArg(0, fa, &a1, fb, b)) { mt_mod__apply(fa, a, fb, b, fc, &c); if (verif_exc == 0 && c == a1) ok |= 1; verif_exc = 0; } else ok |= 1; }
    { node_handle b1 = b; c = 0;
      if (mt_mod__simplifiesToSecondArg(0, fa, a, fb, &b1)) { mt_mod__apply(fa, a, fb, b, fc, &c); if (verif_exc == 0 && c == b1) ok |= 2; verif_exc = 0; } else ok |= 2; }
    /* equal-arguments shortcut: op(x, x) must be defined for every x and equal the constant the operation substitutes */
    { c = 0;
      if (mt_mod__stopOnEqualArgs()) { mt_mod__apply(fa, a, fa, a, fc, &c); long av = dec_(fa, a); if (verif_exc == 0 && c == forest__handleForValue_long(fc, 0) && verif_exc == 0) ok |= 4; verif_exc = 0; } else ok |= 4; }
    { node_handle c1 = 0, c2 = 0; int e1, e2;
      if (mt_mod__commutes()) { mt_mod__apply(fa, a, fb, b, fc, &c1); e1 = verif_exc; verif_exc = 0; mt_mod__apply(fb, b, fa, a, fc, &c2); e2 = verif_exc; verif_exc = 0;
        if (e1 == e2 && (e1 != 0 || c1 == c2)) ok |= 8; } else ok |= 8; }
    return ok;
}
void h_mt_mod_kernel(void) { struct forest *fa, *fb, *fc; node_handle w_a = nondet_int(), w_b = nondet_int(); lemma_mt_mod_kernel(fa, fb, fc, w_a, w_b); CANARY(); }
void h_mt_mod_shortcuts(void) { struct forest *fa, *fb, *fc; node_handle w_a = nondet_int(), w_b = nondet_int(); lemma_mt_mod_shortcuts(fa, fb, fc, w_a, w_b); CANARY(); }


int lemma_mt_max_kernel(struct forest *fa, struct forest *fb, struct forest *fc, node_handle a, node_handle b)
{
    long av = dec_(fa, a), bv = dec_(fb, b);
    node_handle c = 0;
    mt_max__apply(fa, a, fb, b, fc, &c);
    int exc = verif_exc; verif_exc = 0;
    
    long r = (av > bv ? av : bv);
    if (r < TERM_MIN || r > TERM_MAX) return exc == ERR_VALUE_OVERFLOW;     /* result does not fit a terminal: rejected, no value */
    node_handle expect = forest__handleForValue_long(fc, r);
    return exc == 0 && verif_exc == 0 && c == expect;
}
int lemma_mt_max_shortcuts(struct forest *fa, struct forest *fb, struct forest *fc, node_handle a, node_handle b)
{
    int ok = 0;
    node_handle c;
    /* first-argument shortcut: whenever the predicate fires, the kernel raises nothing and yields the (possibly adjusted) first operand */
    { node_handle a1 = a; c = 0;
      if (mt_max__simplifiesToFirstArg(0, fa, &a1, fb, b)) { mt_max__apply(fa, a, fb, b, fc, &c); if (verif_exc == 0 && c == a1) ok |= 1; verif_exc = 0; } else ok |= 1; }
    { node_handle b1 = b; c = 0;
      if (mt_max__simplifiesToSecondArg(0, fa, a, fb, &b1)) { mt_max__apply(fa, a, fb, b, fc, &c); if (verif_exc == 0 && c == b1) ok |= 2; verif_exc = 0; } else ok |= 2; }
    /* equal-arguments shortcut: op(x, x) must be defined for every x and equal the constant the operation substitutes */
    { c = 0;
      if (mt_max__stopOnEqualArgs()) { mt_max__apply(fa, a, fa, a, fc, &c); long av = dec_(fa, a); if (verif_exc == 0 && c == forest__handleForValue_long(fc, av) && verif_exc == 0) ok |= 4; verif_exc = 0; } else ok |= 4; }
    { node_handle c1 = 0, c2 = 0; int e1, e2;
      if (mt_max__commutes()) { mt_max__apply(fa, a, fb, b, fc, &c1); e1 = verif_exc; verif_exc = 0; mt_max__apply(fb, b, fa, a, fc, &c2); e2 = verif_exc; verif_exc = 0;
        if (e1 == e2 && (e1 != 0 || c1 == c2)) ok |= 8; } else ok |= 8; }
    return ok;
}
void h_mt_max_kernel(void) { struct forest *fa, *fb, *fc; node_handle w_a = nondet_int(), w_b = nondet_int(); lemma_mt_max_kernel(fa, fb, fc, w_a, w_b); CANARY(); }
void h_mt_max_shortcuts(void) { struct forest *fa, *fb, *fc; node_handle w_a = nondet_int(), w_b = nondet_int(); lemma_mt_max_shortcuts(fa, fb, fc, w_a, w_b); CANARY(); }


int lemma_mt_min_kernel(struct forest *fa, struct forest *fb, struct forest *fc, node_handle a, node_handle b)
{
    long av = dec_(fa, a), bv = dec_(fb, b);
    node_handle c = 0;
    mt_min__apply(fa, a, fb, b, fc, &c);
    int exc = verif_exc; verif_exc = 0;
    
    long r = (av < bv ? av : bv);
    if (r < TERM_MIN || r > TERM_MAX) return exc == ERR_VALUE_OVERFLOW;     /* result does not fit a terminal: rejected, no value */
    node_handle expect = forest__handleForValue_long(fc, r);
    return exc == 0 && verif_exc == 0 && c == expect;
}
int lemma_mt_min_shortcuts(struct forest *fa, struct forest *fb, struct forest *fc, node_handle a, node_handle b)
{
    int ok = 0;
    node_handle c;
    /* first-argument shortcut: whenever the predicate fires, the kernel raises nothing and yields the (possibly adjusted) first operand */
    { node_handle a1 = a; c = 0;
      if (mt_min__simplifiesToFirstArg(0, fa, &a1, fb, b)) { mt_min__apply(fa, a, fb, b, fc, &c); if (verif_exc == 0 && c == a1) ok |= 1; verif_exc = 0; } else ok |= 1; }
    { node_handle b1 = b; c = 0;
      if (mt_min__simplifiesToSecondArg(0, fa, a, fb, &b1)) { mt_min__apply(fa, a, fb, b, fc, &c); if (verif_exc == 0 && c == b1) ok |= 2; verif_exc = 0; } else ok |= 2; }
    /* equal-arguments shortcut: op(x, x) must be defined for every x and equal the constant the operation substitutes */
    { c = 0;
      if (mt_min__stopOnEqualArgs()) { mt_min__apply(fa, a, fa, a, fc, &c); long av = dec_(fa, a); if (verif_exc == 0 && c == forest__handleForValue_long(fc, av) && verif_exc == 0) ok |= 4; verif_exc = 0; } else ok |= 4; }
    { node_handle c1 = 0, c2 = 0; int e1, e2;
      if (mt_min__commutes()) { mt_min__apply(fa, a, fb, b, fc, &c1); e1 = verif_exc; verif_exc = 0; mt_min__apply(fb, b, fa, a, fc, &c2); e2 = verif_exc; verif_exc = 0;
        if (e1 == e2 && (e1 != 0 || c1 == c2)) ok |= 8; } else ok |= 8; }
    return ok;
}
void h_mt_min_kernel(void) { struct forest *fa, *fb, *fc; node_handle w_a = nondet_int(), w_b = nondet_int(); lemma_mt_min_kernel(fa, fb, fc, w_a, w_b); CANARY(); }
void h_mt_min_shortcuts(void) { struct forest *fa, *fb, *fc; node_handle w_a = nondet_int(), w_b = nondet_int(); lemma_mt_min_shortcuts(fa, fb, fc, w_a, w_b); CANARY(); }


int lemma_cmp_eq_mt(struct forest *fa, struct forest *fb, node_handle a, node_handle b)
{
    int ok = 0;
    long av = dec_(fa, a), bv = dec_(fb, b);
    if (eq_mt__compare(fa, a, fb, b) == (av == bv) && verif_exc == 0) ok |= 1;
    if (eq_mt__compare(fa, a, fa, a) == eq_base__isReflexive()) ok |= 2;
    if (!eq_base__isSymmetric() || eq_mt__compare(fa, a, fb, b) == eq_mt__compare(fb, b, fa, a)) ok |= 4;
    return ok;
}
int lemma_cmp_eq_evplus(const struct edge_value *av_, node_handle ap, const struct edge_value *bv_, node_handle bp)
{
    int ok = 0;
    _Bool ai = (ap == OMEGA_INFINITY), bi = (bp == OMEGA_INFINITY); long av = av_->ev_long, bv = bv_->ev_long;
    _Bool want = ((ai && bi) || (!ai && !bi && av == bv));
    if (eq_evplus__compare(av_, ap, bv_, bp) == want && verif_exc == 0) ok |= 1;
    { _Bool answer = 0; if (ai && bi) ok |= 2; /* excluded by the caller (MEDDLY_DCASSERT) */
      else if (eq_evplus__isSpecialCase(av_, ap, bv_, bp, &answer)) { if (answer == want) ok |= 2; } else ok |= 2; }
    if (eq_evplus__compare(av_, ap, av_, ap) == eq_base__isReflexive()) ok |= 4;
    return ok;
}
void h_cmp_eq_mt(void) { struct forest *fa, *fb; node_handle w_a = nondet_int(), w_b = nondet_int(); lemma_cmp_eq_mt(fa, fb, w_a, w_b); CANARY(); }
void h_cmp_eq_evplus(void) { struct edge_value *x, *y; node_handle w_ap = nondet_int(), w_bp = nondet_int(); lemma_cmp_eq_evplus(x, w_ap, y, w_bp); CANARY(); }

int lemma_cmp_ne_mt(struct forest *fa, struct forest *fb, node_handle a, node_handle b)
{
    int ok = 0;
    long av = dec_(fa, a), bv = dec_(fb, b);
    if (ne_mt__compare(fa, a, fb, b) == (av != bv) && verif_exc == 0) ok |= 1;
    if (ne_mt__compare(fa, a, fa, a) == ne_base__isReflexive()) ok |= 2;
    if (!ne_base__isSymmetric() || ne_mt__compare(fa, a, fb, b) == ne_mt__compare(fb, b, fa, a)) ok |= 4;
    return ok;
}
int lemma_cmp_ne_evplus(const struct edge_value *av_, node_handle ap, const struct edge_value *bv_, node_handle bp)
{
    int ok = 0;
    _Bool ai = (ap == OMEGA_INFINITY), bi = (bp == OMEGA_INFINITY); long av = av_->ev_long, bv = bv_->ev_long;
    _Bool want = !((ai && bi) || (!ai && !bi && av == bv));
    if (ne_evplus__compare(av_, ap, bv_, bp) == want && verif_exc == 0) ok |= 1;
    { _Bool answer = 0; if (ai && bi) ok |= 2; /* excluded by the caller (MEDDLY_DCASSERT) */
      else if (ne_evplus__isSpecialCase(av_, ap, bv_, bp, &answer)) { if (answer == want) ok |= 2; } else ok |= 2; }
    if (ne_evplus__compare(av_, ap, av_, ap) == ne_base__isReflexive()) ok |= 4;
    return ok;
}
void h_cmp_ne_mt(void) { struct forest *fa, *fb; node_handle w_a = nondet_int(), w_b = nondet_int(); lemma_cmp_ne_mt(fa, fb, w_a, w_b); CANARY(); }
void h_cmp_ne_evplus(void) { struct edge_value *x, *y; node_handle w_ap = nondet_int(), w_bp = nondet_int(); lemma_cmp_ne_evplus(x, w_ap, y, w_bp); CANARY(); }

int lemma_cmp_gt_mt(struct forest *fa, struct forest *fb, node_handle a, node_handle b)
{
    int ok = 0;
    long av = dec_(fa, a), bv = dec_(fb, b);
    if (gt_mt__compare(fa, a, fb, b) == (av > bv) && verif_exc == 0) ok |= 1;
    if (gt_mt__compare(fa, a, fa, a) == gt_base__isReflexive()) ok |= 2;
    if (!gt_base__isSymmetric() || gt_mt__compare(fa, a, fb, b) == gt_mt__compare(fb, b, fa, a)) ok |= 4;
    return ok;
}
int lemma_cmp_gt_evplus(const struct edge_value *av_, node_handle ap, const struct edge_value *bv_, node_handle bp)
{
    int ok = 0;
    _Bool ai = (ap == OMEGA_INFINITY), bi = (bp == OMEGA_INFINITY); long av = av_->ev_long, bv = bv_->ev_long;
    _Bool want = (!bi && (ai || av > bv));
    if (gt_evplus__compare(av_, ap, bv_, bp) == want && verif_exc == 0) ok |= 1;
    { _Bool answer = 0; if (ai && bi) ok |= 2; /* excluded by the caller (MEDDLY_DCASSERT) */
      else if (gt_evplus__isSpecialCase(av_, ap, bv_, bp, &answer)) { if (answer == want) ok |= 2; } else ok |= 2; }
    if (gt_evplus__compare(av_, ap, av_, ap) == gt_base__isReflexive()) ok |= 4;
    return ok;
}
void h_cmp_gt_mt(void) { struct forest *fa, *fb; node_handle w_a = nondet_int(), w_b = nondet_int(); lemma_cmp_gt_mt(fa, fb, w_a, w_b); CANARY(); }
void h_cmp_gt_evplus(void) { struct edge_value *x, *y; node_handle w_ap = nondet_int(), w_bp = nondet_int(); lemma_cmp_gt_evplus(x, w_ap, y, w_bp); CANARY(); }

int lemma_cmp_ge_mt(struct forest *fa, struct forest *fb, node_handle a, node_handle b)
{
    int ok = 0;
    long av = dec_(fa, a), bv = dec_(fb, b);
    if (ge_mt__compare(fa, a, fb, b) == (av >= bv) && verif_exc == 0) ok |= 1;
    if (ge_mt__compare(fa, a, fa, a) == ge_base__isReflexive()) ok |= 2;
    if (!ge_base__isSymmetric() || ge_mt__compare(fa, a, fb, b) == ge_mt__compare(fb, b, fa, a)) ok |= 4;
    return ok;
}
int lemma_cmp_ge_evplus(const struct edge_value *av_, node_handle ap, const struct edge_value *bv_, node_handle bp)
{
    int ok = 0;
    _Bool ai = (ap == OMEGA_INFINITY), bi = (bp == OMEGA_INFINITY); long av = av_->ev_long, bv = bv_->ev_long;
    _Bool want = (ai || (!bi && av >= bv));
    if (ge_evplus__compare(av_, ap, bv_, bp) == want && verif_exc == 0) ok |= 1;
    { _Bool answer = 0; if (ai && bi) ok |= 2; /* excluded by the caller (MEDDLY_DCASSERT) */
      else if (ge_evplus__isSpecialCase(av_, ap, bv_, bp, &answer)) { if (answer == want) ok |= 2; } else ok |= 2; }
    if (ge_evplus__compare(av_, ap, av_, ap) == ge_base__isReflexive()) ok |= 4;
    return ok;
}
void h_cmp_ge_mt(void) { struct forest *fa, *fb; node_handle w_a = nondet_int(), w_b = nondet_int(); lemma_cmp_ge_mt(fa, fb, w_a, w_b); CANARY(); }
void h_cmp_ge_evplus(void) { struct edge_value *x, *y; node_handle w_ap = nondet_int(), w_bp = nondet_int(); lemma_cmp_ge_evplus(x, w_ap, y, w_bp); CANARY(); }

int lemma_cmp_lt_mt(struct forest *fa, struct forest *fb, node_handle a, node_handle b)
{
    int ok = 0;
    long av = dec_(fa, a), bv = dec_(fb, b);
    if (lt_mt__compare(fa, a, fb, b) == (av < bv) && verif_exc == 0) ok |= 1;
    if (lt_mt__compare(fa, a, fa, a) == lt_base__isReflexive()) ok |= 2;
    if (!lt_base__isSymmetric() || lt_mt__compare(fa, a, fb, b) == lt_mt__compare(fb, b, fa, a)) ok |= 4;
    return ok;
}
int lemma_cmp_lt_evplus(const struct edge_value *av_, node_handle ap, const struct edge_value *bv_, node_handle bp)
{
    int ok = 0;
    _Bool ai = (ap == OMEGA_INFINITY), bi = (bp == OMEGA_INFINITY); long av = av_->ev_long, bv = bv_->ev_long;
    _Bool want = (!ai && (bi || av < bv));
    if (lt_evplus__compare(av_, ap, bv_, bp) == want && verif_exc == 0) ok |= 1;
    { _Bool answer = 0; if (ai && bi) ok |= 2; /* excluded by the caller (MEDDLY_DCASSERT) */
      else if (lt_evplus__isSpecialCase(av_, ap, bv_, bp, &answer)) { if (answer == want) ok |= 2; } else ok |= 2; }
    if (lt_evplus__compare(av_, ap, av_, ap) == lt_base__isReflexive()) ok |= 4;
    return ok;
}
void h_cmp_lt_mt(void) { struct forest *fa, *fb; node_handle w_a = nondet_int(), w_b = nondet_int(); lemma_cmp_lt_mt(fa, fb, w_a, w_b); CANARY(); }
void h_cmp_lt_evplus(void) { struct edge_value *x, *y; node_handle w_ap = nondet_int(), w_bp = nondet_int(); lemma_cmp_lt_evplus(x, w_ap, y, w_bp); CANARY(); }

int lemma_cmp_le_mt(struct forest *fa, struct forest *fb, node_handle a, node_handle b)
{
    int ok = 0;
    long av = dec_(fa, a), bv = dec_(fb, b);
    if (le_mt__compare(fa, a, fb, b) == (av <= bv) && verif_exc == 0) ok |= 1;
    if (le_mt__compare(fa, a, fa, a) == le_base__isReflexive()) ok |= 2;
    if (!le_base__isSymmetric() || le_mt__compare(fa, a, fb, b) == le_mt__compare(fb, b, fa, a)) ok |= 4;
    return ok;
}
int lemma_cmp_le_evplus(const struct edge_value *av_, node_handle ap, const struct edge_value *bv_, node_handle bp)
{
    int ok = 0;
    _Bool ai = (ap == OMEGA_INFINITY), bi = (bp == OMEGA_INFINITY); long av = av_->ev_long, bv = bv_->ev_long;
    _Bool want = (bi || (!ai && av <= bv));
    if (le_evplus__compare(av_, ap, bv_, bp) == want && verif_exc == 0) ok |= 1;
    { _Bool answer = 0; if (ai && bi) ok |= 2; /* excluded by the caller (MEDDLY_DCASSERT) */
      else if (le_evplus__isSpecialCase(av_, ap, bv_, bp, &answer)) { if (answer == want) ok |= 2; } else ok |= 2; }
    if (le_evplus__compare(av_, ap, av_, ap) == le_base__isReflexive()) ok |= 4;
    return ok;
}
void h_cmp_le_mt(void) { struct forest *fa, *fb; node_handle w_a = nondet_int(), w_b = nondet_int(); lemma_cmp_le_mt(fa, fb, w_a, w_b); CANARY(); }
void h_cmp_le_evplus(void) { struct edge_value *x, *y; node_handle w_ap = nondet_int(), w_bp = nondet_int(); lemma_cmp_le_evplus(x, w_ap, y, w_bp); CANARY(); }

int lemma_evplus_mult_kernel(const struct edge_value *av_, node_handle ap, const struct edge_value *bv_, node_handle bp)
{
    _Bool ai = (ap == OMEGA_INFINITY), bi = (bp == OMEGA_INFINITY); long av = av_->ev_long, bv = bv_->ev_long;
    struct edge_value cv; node_handle cn = 12345; cv.mytype = edge_type__VOID;
    evplus_mult__apply(av_, ap, bv_, bp, &cv, &cn);
    int exc = verif_exc; verif_exc = 0;
    if (ai || bi) return exc == 0 && cn == OMEGA_INFINITY;
    return exc == 0 && cn == OMEGA_NORMAL && cv.mytype == edge_type__LONG && cv.ev_long == av * bv;
}
void h_evplus_mult_kernel(void) { struct edge_value *x, *y; node_handle w_ap = nondet_int(), w_bp = nondet_int(); lemma_evplus_mult_kernel(x, w_ap, y, w_bp); CANARY(); }

int lemma_evplus_div_kernel(const struct edge_value *av_, node_handle ap, const struct edge_value *bv_, node_handle bp)
{
#ifdef ARITH_SMALL_OPERANDS
    /* BOUNDED variant: operands below 2^ARITH_SMALL_OPERANDS in magnitude (the 64-bit divide / remainder equivalence does not finish) */
    __CPROVER_assume(-(1L << ARITH_SMALL_OPERANDS) < av_->ev_long && av_->ev_long < (1L << ARITH_SMALL_OPERANDS) && -(1L << ARITH_SMALL_OPERANDS) < bv_->ev_long && bv_->ev_long < (1L << ARITH_SMALL_OPERANDS));
#endif
    _Bool ai = (ap == OMEGA_INFINITY), bi = (bp == OMEGA_INFINITY); long av = av_->ev_long, bv = bv_->ev_long;
    struct edge_value cv; node_handle cn = 12345; cv.mytype = edge_type__VOID;
    evplus_div__apply(av_, ap, bv_, bp, &cv, &cn);
    int exc = verif_exc; verif_exc = 0;
    if (bi && ai) return exc == ERR_INFINITY_DIV_INFINITY;                 /* infinity over infinity: documented error */
    if (bi) return exc == 0 && cn == OMEGA_NORMAL && cv.mytype == edge_type__LONG && cv.ev_long == 0;   /* x over infinity */
    if (bv == 0) return exc == ERR_DIVIDE_BY_ZERO;                          /* zero divisor: documented error, also for an infinite dividend */
    if (ai) return exc == 0 && cn == OMEGA_INFINITY;
    return exc == 0 && cn == OMEGA_NORMAL && cv.mytype == edge_type__LONG && cv.ev_long == av / bv;
}
void h_evplus_div_kernel(void) { struct edge_value *x, *y; node_handle w_ap = nondet_int(), w_bp = nondet_int(); lemma_evplus_div_kernel(x, w_ap, y, w_bp); CANARY(); }

int lemma_evplus_mod_kernel(const struct edge_value *av_, node_handle ap, const struct edge_value *bv_, node_handle bp)
{
#ifdef ARITH_SMALL_OPERANDS
    /* BOUNDED variant: operands below 2^ARITH_SMALL_OPERANDS in magnitude (the 64-bit divide / remainder equivalence does not finish) */
    __CPROVER_assume(-(1L << ARITH_SMALL_OPERANDS) < av_->ev_long && av_->ev_long < (1L << ARITH_SMALL_OPERANDS) && -(1L << ARITH_SMALL_OPERANDS) < bv_->ev_long && bv_->ev_long < (1L << ARITH_SMALL_OPERANDS));
#endif
    _Bool ai = (ap == OMEGA_INFINITY), bi = (bp == OMEGA_INFINITY); long av = av_->ev_long, bv = bv_->ev_long;
    struct edge_value cv; node_handle cn = 12345; cv.mytype = edge_type__VOID;
    evplus_mod__apply(av_, ap, bv_, bp, &cv, &cn);
    int exc = verif_exc; verif_exc = 0;
    if (bi && ai) return exc == ERR_INFINITY_DIV_INFINITY;                 /* infinity over infinity: documented error */
    if (bi) return exc == 0 && cn == OMEGA_NORMAL && cv.mytype == edge_type__LONG && cv.ev_long == av;   /* x over infinity */
    if (bv == 0) return exc == ERR_DIVIDE_BY_ZERO;                          /* zero divisor: documented error, also for an infinite dividend */
    if (ai) return exc == 0 && cn == OMEGA_INFINITY;
    return exc == 0 && cn == OMEGA_NORMAL && cv.mytype == edge_type__LONG && cv.ev_long == av % bv;
}
void h_evplus_mod_kernel(void) { struct edge_value *x, *y; node_handle w_ap = nondet_int(), w_bp = nondet_int(); lemma_evplus_mod_kernel(x, w_ap, y, w_bp); CANARY(); }

int lemma_evplus_div_shortcuts(struct forest *f1, struct forest *f2, const struct edge_value *av_, node_handle ap, const struct edge_value *bv_, node_handle bp)
{
    int ok = 0;
    struct edge_value cv; node_handle cn;
    { struct edge_value a1 = *av_; node_handle an1 = ap;
      if (evplus_div__simplifiesToFirstArg(0, f1, &a1, &an1, f2, bv_, bp)) {
          evplus_div__apply(av_, ap, bv_, bp, &cv, &cn);
          if (verif_exc == 0 && cn == an1 && (cn == OMEGA_INFINITY || (cv.mytype == edge_type__LONG && cv.ev_long == a1.ev_long))) ok |= 1;
          verif_exc = 0;
      } else ok |= 1; }
    { struct edge_value a1 = *av_; node_handle an1 = ap;
      if (evplus_div__simplifiesToSecondArg(0, f1, &a1, &an1, f2, bv_, bp)) {
          evplus_div__apply(av_, ap, bv_, bp, &cv, &cn);
          if (verif_exc == 0 && cn == bp && (cn == OMEGA_INFINITY || (cv.mytype == edge_type__LONG && cv.ev_long == bv_->ev_long))) ok |= 2;
          verif_exc = 0;
      } else ok |= 2; }
    { if (evplus_div__stopOnEqualArgs()) {
          evplus_div__apply(av_, ap, av_, ap, &cv, &cn);
          if (verif_exc == 0 && cn == OMEGA_NORMAL && cv.mytype == edge_type__LONG && cv.ev_long == 1) ok |= 4;
          verif_exc = 0;
      } else ok |= 4; }
    return ok;
}
void h_evplus_div_shortcuts(void) { struct forest *f1, *f2; struct edge_value *x, *y; node_handle w_ap = nondet_int(), w_bp = nondet_int(); lemma_evplus_div_shortcuts(f1, f2, x, w_ap, y, w_bp); CANARY(); }

int lemma_evplus_mod_shortcuts(struct forest *f1, struct forest *f2, const struct edge_value *av_, node_handle ap, const struct edge_value *bv_, node_handle bp)
{
    int ok = 0;
    struct edge_value cv; node_handle cn;
    { struct edge_value a1 = *av_; node_handle an1 = ap;
      if (evplus_mod__simplifiesToFirstArg(0, f1, &a1, &an1, f2, bv_, bp)) {
          evplus_mod__apply(av_, ap, bv_, bp, &cv, &cn);
          if (verif_exc == 0 && cn == an1 && (cn == OMEGA_INFINITY || (cv.mytype == edge_type__LONG && cv.ev_long == a1.ev_long))) ok |= 1;
          verif_exc = 0;
      } else ok |= 1; }
    { struct edge_value a1 = *av_; node_handle an1 = ap;
      if (evplus_mod__simplifiesToSecondArg(0, f1, &a1, &an1, f2, bv_, bp)) {
          evplus_mod__apply(av_, ap, bv_, bp, &cv, &cn);
          if (verif_exc == 0 && cn == bp && (cn == OMEGA_INFINITY || (cv.mytype == edge_type__LONG && cv.ev_long == bv_->ev_long))) ok |= 2;
          verif_exc = 0;
      } else ok |= 2; }
    { if (evplus_mod__stopOnEqualArgs()) {
          evplus_mod__apply(av_, ap, av_, ap, &cv, &cn);
          if (verif_exc == 0 && cn == OMEGA_NORMAL && cv.mytype == edge_type__LONG && cv.ev_long == 0) ok |= 4;
          verif_exc = 0;
      } else ok |= 4; }
    return ok;
}
void h_evplus_mod_shortcuts(void) { struct forest *f1, *f2; struct edge_value *x, *y; node_handle w_ap = nondet_int(), w_bp = nondet_int(); lemma_evplus_mod_shortcuts(f1, f2, x, w_ap, y, w_bp); CANARY(); }

/* value of <v, n> at the assignment the ghosts (d, di) stand for, as a terminal pair */
static void evp_point(long v, node_handle n, long d, _Bool di, struct edge_value *pv, node_handle *pn)
{
    pv->mytype = edge_type__LONG;
    if (n == OMEGA_INFINITY) { *pn = OMEGA_INFINITY; pv->ev_long = 0; }
    else if (n == OMEGA_NORMAL) { *pn = OMEGA_NORMAL; pv->ev_long = v; }
    else if (di) { *pn = OMEGA_INFINITY; pv->ev_long = 0; }
    else { *pn = OMEGA_NORMAL; pv->ev_long = v + d; }
}
/* a terminal of an identity-reduced forest reached across skipped levels is the identity pattern: off the diagonal it is the transparent value
 * (EV+: infinity).  The ghost 'di', otherwise unused for a terminal operand, selects 'off the diagonal'. */
static void evp_point_f(const struct forest *f, long v, node_handle n, long d, _Bool di, struct edge_value *pv, node_handle *pn)
{
    if (n == OMEGA_NORMAL && forest__isIdentityReduced(f) && di) { pv->mytype = edge_type__LONG; *pn = OMEGA_INFINITY; pv->ev_long = 0; }
    else evp_point(v, n, d, di, pv, pn);
}
int lemma_evplus_mult_shortcuts_pw(struct forest *f1, struct forest *f2, const struct edge_value *av_, node_handle ap, const struct edge_value *bv_, node_handle bp, long da, _Bool dai, long db, _Bool dbi)
{
    int ok = 0;
    struct edge_value pa, pb, cv, want; node_handle pan, pbn, cn, wn;
    evp_point_f(f1, av_->ev_long, ap, da, dai, &pa, &pan); evp_point_f(f2, bv_->ev_long, bp, db, dbi, &pb, &pbn);
    { struct edge_value a1 = *av_; node_handle an1 = ap;
      if (evplus_mult__simplifiesToFirstArg(0, f1, &a1, &an1, f2, bv_, bp)) {
          if (an1 == ap || an1 <= 0) {                      /* the answer <a1, an1>: the same node carries the same ghost offset */
              evp_point_f(f1, a1.ev_long, an1, da, dai, &want, &wn);
              evplus_mult__apply(&pa, pan, &pb, pbn, &cv, &cn);
              if (verif_exc == 0 && cn == wn && (cn == OMEGA_INFINITY || (cv.mytype == edge_type__LONG && cv.ev_long == want.ev_long))) ok |= 1;
              verif_exc = 0;
          }
      } else ok |= 1; }
    { struct edge_value a1 = *av_; node_handle an1 = ap;
      if (evplus_mult__simplifiesToSecondArg(0, f1, &a1, &an1, f2, bv_, bp)) {
          evp_point_f(f2, bv_->ev_long, bp, db, dbi, &want, &wn);
          evplus_mult__apply(&pa, pan, &pb, pbn, &cv, &cn);
          if (verif_exc == 0 && cn == wn && (cn == OMEGA_INFINITY || (cv.mytype == edge_type__LONG && cv.ev_long == want.ev_long))) ok |= 2;
          verif_exc = 0;
      } else ok |= 2; }
    return ok;
}
void h_evplus_mult_shortcuts_pw(void) { struct forest *f1, *f2; struct edge_value *x, *y; node_handle w_ap = nondet_int(), w_bp = nondet_int(); long w_da = nondet_long(), w_db = nondet_long(); w_av = nondet_long(); w_bv = nondet_long(); _Bool w_dai = nondet_bool(), w_dbi = nondet_bool();
    lemma_evplus_mult_shortcuts_pw(f1, f2, x, w_ap, y, w_bp, w_da, w_dai, w_db, w_dbi); CANARY(); }
int lemma_evplus_div_shortcuts_pw(struct forest *f1, struct forest *f2, const struct edge_value *av_, node_handle ap, const struct edge_value *bv_, node_handle bp, long da, _Bool dai, long db, _Bool dbi)
{
    int ok = 0;
    struct edge_value pa, pb, cv, want; node_handle pan, pbn, cn, wn;
    evp_point_f(f1, av_->ev_long, ap, da, dai, &pa, &pan); evp_point_f(f2, bv_->ev_long, bp, db, dbi, &pb, &pbn);
    { struct edge_value a1 = *av_; node_handle an1 = ap;
      if (evplus_div__simplifiesToFirstArg(0, f1, &a1, &an1, f2, bv_, bp)) {
          if (an1 == ap || an1 <= 0) {                      /* the answer <a1, an1>: the same node carries the same ghost offset */
              evp_point_f(f1, a1.ev_long, an1, da, dai, &want, &wn);
              evplus_div__apply(&pa, pan, &pb, pbn, &cv, &cn);
              if (verif_exc == 0 && cn == wn && (cn == OMEGA_INFINITY || (cv.mytype == edge_type__LONG && cv.ev_long == want.ev_long))) ok |= 1;
              verif_exc = 0;
          }
      } else ok |= 1; }
    { struct edge_value a1 = *av_; node_handle an1 = ap;
      if (evplus_div__simplifiesToSecondArg(0, f1, &a1, &an1, f2, bv_, bp)) {
          evp_point_f(f2, bv_->ev_long, bp, db, dbi, &want, &wn);
          evplus_div__apply(&pa, pan, &pb, pbn, &cv, &cn);
          if (verif_exc == 0 && cn == wn && (cn == OMEGA_INFINITY || (cv.mytype == edge_type__LONG && cv.ev_long == want.ev_long))) ok |= 2;
          verif_exc = 0;
      } else ok |= 2; }
    return ok;
}
void h_evplus_div_shortcuts_pw(void) { struct forest *f1, *f2; struct edge_value *x, *y; node_handle w_ap = nondet_int(), w_bp = nondet_int(); long w_da = nondet_long(), w_db = nondet_long(); w_av = nondet_long(); w_bv = nondet_long(); _Bool w_dai = nondet_bool(), w_dbi = nondet_bool();
    lemma_evplus_div_shortcuts_pw(f1, f2, x, w_ap, y, w_bp, w_da, w_dai, w_db, w_dbi); CANARY(); }
int lemma_evplus_mod_shortcuts_pw(struct forest *f1, struct forest *f2, const struct edge_value *av_, node_handle ap, const struct edge_value *bv_, node_handle bp, long da, _Bool dai, long db, _Bool dbi)
{
    int ok = 0;
    struct edge_value pa, pb, cv, want; node_handle pan, pbn, cn, wn;
    evp_point_f(f1, av_->ev_long, ap, da, dai, &pa, &pan); evp_point_f(f2, bv_->ev_long, bp, db, dbi, &pb, &pbn);
    { struct edge_value a1 = *av_; node_handle an1 = ap;
      if (evplus_mod__simplifiesToFirstArg(0, f1, &a1, &an1, f2, bv_, bp)) {
          if (an1 == ap || an1 <= 0) {                      /* the answer <a1, an1>: the same node carries the same ghost offset */
              evp_point_f(f1, a1.ev_long, an1, da, dai, &want, &wn);
              evplus_mod__apply(&pa, pan, &pb, pbn, &cv, &cn);
              if (verif_exc == 0 && cn == wn && (cn == OMEGA_INFINITY || (cv.mytype == edge_type__LONG && cv.ev_long == want.ev_long))) ok |= 1;
              verif_exc = 0;
          }
      } else ok |= 1; }
    { struct edge_value a1 = *av_; node_handle an1 = ap;
      if (evplus_mod__simplifiesToSecondArg(0, f1, &a1, &an1, f2, bv_, bp)) {
          evp_point_f(f2, bv_->ev_long, bp, db, dbi, &want, &wn);
          evplus_mod__apply(&pa, pan, &pb, pbn, &cv, &cn);
          if (verif_exc == 0 && cn == wn && (cn == OMEGA_INFINITY || (cv.mytype == edge_type__LONG && cv.ev_long == want.ev_long))) ok |= 2;
          verif_exc = 0;
      } else ok |= 2; }
    return ok;
}
void h_evplus_mod_shortcuts_pw(void) { struct forest *f1, *f2; struct edge_value *x, *y; node_handle w_ap = nondet_int(), w_bp = nondet_int(); long w_da = nondet_long(), w_db = nondet_long(); w_av = nondet_long(); w_bv = nondet_long(); _Bool w_dai = nondet_bool(), w_dbi = nondet_bool();
    lemma_evplus_mod_shortcuts_pw(f1, f2, x, w_ap, y, w_bp, w_da, w_dai, w_db, w_dbi); CANARY(); }
int lemma_mt_plus_shortcuts_pw(struct forest *fa, struct forest *fb, struct forest *fc, node_handle a, node_handle b, node_handle pa, node_handle pb)
{
    int ok = 0;
    /* the operands' values at the assignment, as terminal handles.  A terminal of an identity-reduced forest reached across skipped levels is the
     * identity pattern: its value off the diagonal is 0 (the otherwise unused ghost of a terminal operand selects 'off the diagonal') */
    node_handle va = a > 0 ? pa : ((forest__isIdentityReduced(fa) && pa == 0) ? 0 : a), vb = b > 0 ? pb : ((forest__isIdentityReduced(fb) && pb == 0) ? 0 : b), c;
    { node_handle a1 = a; c = 0;
      if (mt_plus__simplifiesToFirstArg(0, fa, &a1, fb, b)) {
          if (a1 == a || a1 <= 0) { node_handle want = a1 == a ? va : a1; mt_plus__apply(fa, va, fb, vb, fc, &c); if (verif_exc == 0 && c == want) ok |= 1; verif_exc = 0; }
      } else ok |= 1; }
    { node_handle b1 = b; c = 0;
      if (mt_plus__simplifiesToSecondArg(0, fa, a, fb, &b1)) {
          if (b1 == b || b1 <= 0) { node_handle want = b1 == b ? vb : b1; mt_plus__apply(fa, va, fb, vb, fc, &c); if (verif_exc == 0 && c == want) ok |= 2; verif_exc = 0; }
      } else ok |= 2; }
    return ok;
}
void h_mt_plus_shortcuts_pw(void) { struct forest *fa, *fb, *fc; node_handle w_a = nondet_int(), w_b = nondet_int(), w_pa = nondet_int(), w_pb = nondet_int(); lemma_mt_plus_shortcuts_pw(fa, fb, fc, w_a, w_b, w_pa, w_pb); CANARY(); }
int lemma_mt_minus_shortcuts_pw(struct forest *fa, struct forest *fb, struct forest *fc, node_handle a, node_handle b, node_handle pa, node_handle pb)
{
    int ok = 0;
    /* the operands' values at the assignment, as terminal handles.  A terminal of an identity-reduced forest reached across skipped levels is the
     * identity pattern: its value off the diagonal is 0 (the otherwise unused ghost of a terminal operand selects 'off the diagonal') */
    node_handle va = a > 0 ? pa : ((forest__isIdentityReduced(fa) && pa == 0) ? 0 : a), vb = b > 0 ? pb : ((forest__isIdentityReduced(fb) && pb == 0) ? 0 : b), c;
    { node_handle a1 = a; c = 0;
      if (mt_minus__simplifiesToFirstArg(0, fa, &a1, fb, b)) {
          if (a1 == a || a1 <= 0) { node_handle want = a1 == a ? va : a1; mt_minus__apply(fa, va, fb, vb, fc, &c); if (verif_exc == 0 && c == want) ok |= 1; verif_exc = 0; }
      } else ok |= 1; }
    { node_handle b1 = b; c = 0;
      if (mt_minus__simplifiesToSecondArg(0, fa, a, fb, &b1)) {
          if (b1 == b || b1 <= 0) { node_handle want = b1 == b ? vb : b1; mt_minus__apply(fa, va, fb, vb, fc, &c); if (verif_exc == 0 && c == want) ok |= 2; verif_exc = 0; }
      } else ok |= 2; }
    return ok;
}
void h_mt_minus_shortcuts_pw(void) { struct forest *fa, *fb, *fc; node_handle w_a = nondet_int(), w_b = nondet_int(), w_pa = nondet_int(), w_pb = nondet_int(); lemma_mt_minus_shortcuts_pw(fa, fb, fc, w_a, w_b, w_pa, w_pb); CANARY(); }
int lemma_mt_mult_shortcuts_pw(struct forest *fa, struct forest *fb, struct forest *fc, node_handle a, node_handle b, node_handle pa, node_handle pb)
{
    int ok = 0;
    /* the operands' values at the assignment, as terminal handles.  A terminal of an identity-reduced forest reached across skipped levels is the
     * identity pattern: its value off the diagonal is 0 (the otherwise unused ghost of a terminal operand selects 'off the diagonal') */
    node_handle va = a > 0 ? pa : ((forest__isIdentityReduced(fa) && pa == 0) ? 0 : a), vb = b > 0 ? pb : ((forest__isIdentityReduced(fb) && pb == 0) ? 0 : b), c;
    { node_handle a1 = a; c = 0;
      if (mt_mult__simplifiesToFirstArg(0, fa, &a1, fb, b)) {
          if (a1 == a || a1 <= 0) { node_handle want = a1 == a ? va : a1; mt_mult__apply(fa, va, fb, vb, fc, &c); if (verif_exc == 0 && c == want) ok |= 1; verif_exc = 0; }
      } else ok |= 1; }
    { node_handle b1 = b; c = 0;
      if (mt_mult__simplifiesToSecondArg(0, fa, a, fb, &b1)) {
          if (b1 == b || b1 <= 0) { node_handle want = b1 == b ? vb : b1; mt_mult__apply(fa, va, fb, vb, fc, &c); if (verif_exc == 0 && c == want) ok |= 2; verif_exc = 0; }
      } else ok |= 2; }
    return ok;
}
void h_mt_mult_shortcuts_pw(void) { struct forest *fa, *fb, *fc; node_handle w_a = nondet_int(), w_b = nondet_int(), w_pa = nondet_int(), w_pb = nondet_int(); lemma_mt_mult_shortcuts_pw(fa, fb, fc, w_a, w_b, w_pa, w_pb); CANARY(); }
int lemma_mt_div_shortcuts_pw(struct forest *fa, struct forest *fb, struct forest *fc, node_handle a, node_handle b, node_handle pa, node_handle pb)
{
    int ok = 0;
    /* the operands' values at the assignment, as terminal handles.  A terminal of an identity-reduced forest reached across skipped levels is the
     * identity pattern: its value off the diagonal is 0 (the otherwise unused ghost of a terminal operand selects 'off the diagonal') */
    node_handle va = a > 0 ? pa : ((forest__isIdentityReduced(fa) && pa == 0) ? 0 : a), vb = b > 0 ? pb : ((forest__isIdentityReduced(fb) && pb == 0) ? 0 : b), c;
    { node_handle a1 = a; c = 0;
      if (mt_div__simplifiesToFirstArg(0, fa, &a1, fb, b)) {
          if (a1 == a || a1 <= 0) { node_handle want = a1 == a ? va : a1; mt_div__apply(fa, va, fb, vb, fc, &c); if (verif_exc == 0 && c == want) ok |= 1; verif_exc = 0; }
      } else ok |= 1; }
    { node_handle b1 = b; c = 0;
      if (mt_div__simplifiesToSecondArg(0, fa, a, fb, &b1)) {
          if (b1 == b || b1 <= 0) { node_handle want = b1 == b ? vb : b1; mt_div__apply(fa, va, fb, vb, fc, &c); if (verif_exc == 0 && c == want) ok |= 2; verif_exc = 0; }
      } else ok |= 2; }
    return ok;
}
void h_mt_div_shortcuts_pw(void) { struct forest *fa, *fb, *fc; node_handle w_a = nondet_int(), w_b = nondet_int(), w_pa = nondet_int(), w_pb = nondet_int(); lemma_mt_div_shortcuts_pw(fa, fb, fc, w_a, w_b, w_pa, w_pb); CANARY(); }
int lemma_mt_mod_shortcuts_pw(struct forest *fa, struct forest *fb, struct forest *fc, node_handle a, node_handle b, node_handle pa, node_handle pb)
{
    int ok = 0;
    /* the operands' values at the assignment, as terminal handles.  A terminal of an identity-reduced forest reached across skipped levels is the
     * identity pattern: its value off the diagonal is 0 (the otherwise unused ghost of a terminal operand selects 'off the diagonal') */
    node_handle va = a > 0 ? pa : ((forest__isIdentityReduced(fa) && pa == 0) ? 0 : a), vb = b > 0 ? pb : ((forest__isIdentityReduced(fb) && pb == 0) ? 0 : b), c;
    { node_handle a1 = a; c = 0;
      if (mt_mod__simplifiesToFirstArg(0, fa, &a1, fb, b)) {
          if (a1 == a || a1 <= 0) { node_handle want = a1 == a ? va : a1; mt_mod__apply(fa, va, fb, vb, fc, &c); if (verif_exc == 0 && c == want) ok |= 1; verif_exc = 0; }
      } else ok |= 1; }
    { node_handle b1 = b; c = 0;
      if (mt_mod__simplifiesToSecondArg(0, fa, a, fb, &b1)) {
          if (b1 == b || b1 <= 0) { node_handle want = b1 == b ? vb : b1; mt_mod__apply(fa, va, fb, vb, fc, &c); if (verif_exc == 0 && c == want) ok |= 2; verif_exc = 0; }
      } else ok |= 2; }
    return ok;
}
void h_mt_mod_shortcuts_pw(void) { struct forest *fa, *fb, *fc; node_handle w_a = nondet_int(), w_b = nondet_int(), w_pa = nondet_int(), w_pb = nondet_int(); lemma_mt_mod_shortcuts_pw(fa, fb, fc, w_a, w_b, w_pa, w_pb); CANARY(); }
int lemma_mt_max_shortcuts_pw(struct forest *fa, struct forest *fb, struct forest *fc, node_handle a, node_handle b, node_handle pa, node_handle pb)
{
    int ok = 0;
    /* the operands' values at the assignment, as terminal handles.  A terminal of an identity-reduced forest reached across skipped levels is the
     * identity pattern: its value off the diagonal is 0 (the otherwise unused ghost of a terminal operand selects 'off the diagonal') */
    node_handle va = a > 0 ? pa : ((forest__isIdentityReduced(fa) && pa == 0) ? 0 : a), vb = b > 0 ? pb : ((forest__isIdentityReduced(fb) && pb == 0) ? 0 : b), c;
    { node_handle a1 = a; c = 0;
      if (mt_max__simplifiesToFirstArg(0, fa, &a1, fb, b)) {
          if (a1 == a || a1 <= 0) { node_handle want = a1 == a ? va : a1; mt_max__apply(fa, va, fb, vb, fc, &c); if (verif_exc == 0 && c == want) ok |= 1; verif_exc = 0; }
      } else ok |= 1; }
    { node_handle b1 = b; c = 0;
      if (mt_max__simplifiesToSecondArg(0, fa, a, fb, &b1)) {
          if (b1 == b || b1 <= 0) { node_handle want = b1 == b ? vb : b1; mt_max__apply(fa, va, fb, vb, fc, &c); if (verif_exc == 0 && c == want) ok |= 2; verif_exc = 0; }
      } else ok |= 2; }
    return ok;
}
void h_mt_max_shortcuts_pw(void) { struct forest *fa, *fb, *fc; node_handle w_a = nondet_int(), w_b = nondet_int(), w_pa = nondet_int(), w_pb = nondet_int(); lemma_mt_max_shortcuts_pw(fa, fb, fc, w_a, w_b, w_pa, w_pb); CANARY(); }
int lemma_mt_min_shortcuts_pw(struct forest *fa, struct forest *fb, struct forest *fc, node_handle a, node_handle b, node_handle pa, node_handle pb)
{
    int ok = 0;
    /* the operands' values at the assignment, as terminal handles.  A terminal of an identity-reduced forest reached across skipped levels is the
     * identity pattern: its value off the diagonal is 0 (the otherwise unused ghost of a terminal operand selects 'off the diagonal') */
    node_handle va = a > 0 ? pa : ((forest__isIdentityReduced(fa) && pa == 0) ? 0 : a), vb = b > 0 ? pb : ((forest__isIdentityReduced(fb) && pb == 0) ? 0 : b), c;
    { node_handle a1 = a; c = 0;
      if (mt_min__simplifiesToFirstArg(0, fa, &a1, fb, b)) {
          if (a1 == a || a1 <= 0) { node_handle want = a1 == a ? va : a1; mt_min__apply(fa, va, fb, vb, fc, &c); if (verif_exc == 0 && c == want) ok |= 1; verif_exc = 0; }
      } else ok |= 1; }
    { node_handle b1 = b; c = 0;
      if (mt_min__simplifiesToSecondArg(0, fa, a, fb, &b1)) {
          if (b1 == b || b1 <= 0) { node_handle want = b1 == b ? vb : b1; mt_min__apply(fa, va, fb, vb, fc, &c); if (verif_exc == 0 && c == want) ok |= 2; verif_exc = 0; }
      } else ok |= 2; }
    return ok;
}
void h_mt_min_shortcuts_pw(void) { struct forest *fa, *fb, *fc; node_handle w_a = nondet_int(), w_b = nondet_int(), w_pa = nondet_int(), w_pb = nondet_int(); lemma_mt_min_shortcuts_pw(fa, fb, fc, w_a, w_b, w_pa, w_pb); CANARY(); }

int lemma_evplus_max_kernel(const struct edge_value *av_, node_handle ap, const struct edge_value *bv_, node_handle bp)
{
    _Bool ai = (ap == OMEGA_INFINITY), bi = (bp == OMEGA_INFINITY); long av = av_->ev_long, bv = bv_->ev_long;
    struct edge_value cv; node_handle cn = 12345; cv.mytype = edge_type__VOID;
    evplus_max__apply(av_, ap, bv_, bp, &cv, &cn);
    int exc = verif_exc; verif_exc = 0;
    if (ai || bi) return exc == 0 && cn == OMEGA_INFINITY;
    return exc == 0 && cn == OMEGA_NORMAL && cv.mytype == edge_type__LONG && cv.ev_long == (av > bv ? av : bv);
}
void h_evplus_max_kernel(void) { struct edge_value *x, *y; node_handle w_ap = nondet_int(), w_bp = nondet_int(); lemma_evplus_max_kernel(x, w_ap, y, w_bp); CANARY(); }
int lemma_evplus_max_shortcuts_pw(struct forest *f1, struct forest *f2, const struct edge_value *av_, node_handle ap, const struct edge_value *bv_, node_handle bp, long da, _Bool dai, long db, _Bool dbi)
{
    int ok = 0;
    struct edge_value pa, pb, cv, want; node_handle pan, pbn, cn, wn;
    evp_point_f(f1, av_->ev_long, ap, da, dai, &pa, &pan); evp_point_f(f2, bv_->ev_long, bp, db, dbi, &pb, &pbn);
    { node_handle an1 = ap;
      if (evplus_max__simplifiesToFirstArg(0, f1, av_, &an1, f2, bv_, bp)) {
          if (an1 == ap || an1 <= 0) {
              evp_point_f(f1, av_->ev_long, an1, da, dai, &want, &wn);
              evplus_max__apply(&pa, pan, &pb, pbn, &cv, &cn);
              if (verif_exc == 0 && cn == wn && (cn == OMEGA_INFINITY || (cv.mytype == edge_type__LONG && cv.ev_long == want.ev_long))) ok |= 1;
              verif_exc = 0;
          }
      } else ok |= 1; }
    { node_handle bn1 = bp;
      if (evplus_max__simplifiesToSecondArg(0, f1, av_, ap, f2, bv_, &bn1)) {
          if (bn1 == bp || bn1 <= 0) {
              evp_point_f(f2, bv_->ev_long, bn1, db, dbi, &want, &wn);
              evplus_max__apply(&pa, pan, &pb, pbn, &cv, &cn);
              if (verif_exc == 0 && cn == wn && (cn == OMEGA_INFINITY || (cv.mytype == edge_type__LONG && cv.ev_long == want.ev_long))) ok |= 2;
              verif_exc = 0;
          }
      } else ok |= 2; }
    { if (evplus_max__stopOnEqualArgs()) {           /* makeEqualResult copies the argument: op(x, x) must be x at every assignment */
          evplus_max__apply(&pa, pan, &pa, pan, &cv, &cn);
          if (verif_exc == 0 && cn == pan && (cn == OMEGA_INFINITY || (cv.mytype == edge_type__LONG && cv.ev_long == pa.ev_long))) ok |= 4;
          verif_exc = 0;
      } else ok |= 4; }
    return ok;
}
void h_evplus_max_shortcuts_pw(void) { struct forest *f1, *f2; struct edge_value *x, *y; node_handle w_ap = nondet_int(), w_bp = nondet_int(); long w_da = nondet_long(), w_db = nondet_long(); w_av = nondet_long(); w_bv = nondet_long(); _Bool w_dai = nondet_bool(), w_dbi = nondet_bool();
    lemma_evplus_max_shortcuts_pw(f1, f2, x, w_ap, y, w_bp, w_da, w_dai, w_db, w_dbi); CANARY(); }

int lemma_evplus_min_kernel(const struct edge_value *av_, node_handle ap, const struct edge_value *bv_, node_handle bp)
{
    _Bool ai = (ap == OMEGA_INFINITY), bi = (bp == OMEGA_INFINITY); long av = av_->ev_long, bv = bv_->ev_long;
    struct edge_value cv; node_handle cn = 12345; cv.mytype = edge_type__VOID;
    evplus_min__apply(av_, ap, bv_, bp, &cv, &cn);
    int exc = verif_exc; verif_exc = 0;
    if (ai && bi) return exc == 0 && cn == OMEGA_INFINITY;
    if (ai) return exc == 0 && cn == OMEGA_NORMAL && cv.mytype == edge_type__LONG && cv.ev_long == bv;     /* infinity is the top element */
    if (bi) return exc == 0 && cn == OMEGA_NORMAL && cv.mytype == edge_type__LONG && cv.ev_long == av;
    return exc == 0 && cn == OMEGA_NORMAL && cv.mytype == edge_type__LONG && cv.ev_long == (av < bv ? av : bv);
}
void h_evplus_min_kernel(void) { struct edge_value *x, *y; node_handle w_ap = nondet_int(), w_bp = nondet_int(); lemma_evplus_min_kernel(x, w_ap, y, w_bp); CANARY(); }
int lemma_evplus_min_shortcuts_pw(struct forest *f1, struct forest *f2, const struct edge_value *av_, node_handle ap, const struct edge_value *bv_, node_handle bp, long da, _Bool dai, long db, _Bool dbi)
{
    int ok = 0;
    struct edge_value pa, pb, cv, want; node_handle pan, pbn, cn, wn;
    evp_point_f(f1, av_->ev_long, ap, da, dai, &pa, &pan); evp_point_f(f2, bv_->ev_long, bp, db, dbi, &pb, &pbn);
    { node_handle an1 = ap;
      if (evplus_min__simplifiesToFirstArg(0, f1, av_, &an1, f2, bv_, bp)) {
          if (an1 == ap || an1 <= 0) {
              evp_point_f(f1, av_->ev_long, an1, da, dai, &want, &wn);
              evplus_min__apply(&pa, pan, &pb, pbn, &cv, &cn);
              if (verif_exc == 0 && cn == wn && (cn == OMEGA_INFINITY || (cv.mytype == edge_type__LONG && cv.ev_long == want.ev_long))) ok |= 1;
              verif_exc = 0;
          }
      } else ok |= 1; }
    { node_handle bn1 = bp;
      if (evplus_min__simplifiesToSecondArg(0, f1, av_, ap, f2, bv_, &bn1)) {
          if (bn1 == bp || bn1 <= 0) {
              evp_point_f(f2, bv_->ev_long, bn1, db, dbi, &want, &wn);
              evplus_min__apply(&pa, pan, &pb, pbn, &cv, &cn);
              if (verif_exc == 0 && cn == wn && (cn == OMEGA_INFINITY || (cv.mytype == edge_type__LONG && cv.ev_long == want.ev_long))) ok |= 2;
              verif_exc = 0;
          }
      } else ok |= 2; }
    { if (evplus_min__stopOnEqualArgs()) {           /* makeEqualResult copies the argument: op(x, x) must be x at every assignment */
          evplus_min__apply(&pa, pan, &pa, pan, &cv, &cn);
          if (verif_exc == 0 && cn == pan && (cn == OMEGA_INFINITY || (cv.mytype == edge_type__LONG && cv.ev_long == pa.ev_long))) ok |= 4;
          verif_exc = 0;
      } else ok |= 4; }
    return ok;
}
void h_evplus_min_shortcuts_pw(void) { struct forest *f1, *f2; struct edge_value *x, *y; node_handle w_ap = nondet_int(), w_bp = nondet_int(); long w_da = nondet_long(), w_db = nondet_long(); w_av = nondet_long(); w_bv = nondet_long(); _Bool w_dai = nondet_bool(), w_dbi = nondet_bool();
    lemma_evplus_min_shortcuts_pw(f1, f2, x, w_ap, y, w_bp, w_da, w_dai, w_db, w_dbi); CANARY(); }

/* factored interface: value of the node function at the assignment the ghost stands for */
static void evf_point(node_handle n, long d, _Bool di, long *pv, node_handle *pn)
{
    if (n == OMEGA_INFINITY) { *pn = OMEGA_INFINITY; *pv = 0; }
    else if (n == OMEGA_NORMAL) { *pn = OMEGA_NORMAL; *pv = 0; }
    else if (di) { *pn = OMEGA_INFINITY; *pv = 0; }
    else { *pn = OMEGA_NORMAL; *pv = d; }
}

static void evf_point_f(const struct forest *f, node_handle n, long d, _Bool di, long *pv, node_handle *pn)
{
    if (n == OMEGA_NORMAL && forest__isIdentityReduced(f) && di) { *pn = OMEGA_INFINITY; *pv = 0; }      /* identity pattern, off the diagonal */
    else evf_point(n, d, di, pv, pn);
}
int lemma_evplus_plus_kernel(struct forest *fa, struct forest *fb, struct forest *fc, node_handle a, node_handle b, const struct edge_value *av_, const struct edge_value *bv_)
{
    _Bool ai = (a == OMEGA_INFINITY), bi = (b == OMEGA_INFINITY);
    struct edge_value cv; node_handle cn = 12345; cv.mytype = edge_type__VOID;
    evplus_plus__apply_node(fa, a, fb, b, fc, &cn);
    int exc = verif_exc; verif_exc = 0;
    if (exc == 0) evplus_plus__apply_edge(av_, bv_, &cv);
    if (ai || bi) return exc == 0 && cn == OMEGA_INFINITY;
    return exc == 0 && cn == OMEGA_NORMAL && cv.mytype == edge_type__LONG && cv.ev_long == av_->ev_long + bv_->ev_long;
}
void h_evplus_plus_kernel(void) { struct forest *fa, *fb, *fc; struct edge_value *x, *y; node_handle w_a = nondet_int(), w_b = nondet_int(); lemma_evplus_plus_kernel(fa, fb, fc, w_a, w_b, x, y); CANARY(); }
/* whenever a predicate answers "the result is the first (second) node", the node-level kernel on the operands' values at an arbitrary assignment
 * raises nothing and, with the edge-level kernel, gives that node's value there */
static int evf_plus_agrees(struct forest *fa, struct forest *fb, struct forest *fc, long pav, node_handle pan, long pbv, node_handle pbn, long wv, node_handle wn)
{
    node_handle cn = 12345; struct edge_value x, y, c; x.mytype = edge_type__LONG; x.ev_long = pav; y.mytype = edge_type__LONG; y.ev_long = pbv; c.mytype = edge_type__VOID;
    evplus_plus__apply_node(fa, pan, fb, pbn, fc, &cn);
    if (verif_exc) { verif_exc = 0; return 0; }
    if (cn == OMEGA_INFINITY) return wn == OMEGA_INFINITY;
    evplus_plus__apply_edge(&x, &y, &c);
    return wn == OMEGA_NORMAL && c.mytype == edge_type__LONG && c.ev_long == wv;
}
int lemma_evplus_plus_shortcuts_pw(struct forest *fa, struct forest *fb, struct forest *fc, node_handle a, node_handle b, long da, _Bool dai, long db, _Bool dbi)
{
    int ok = 0;
    long pav, pbv, wv; node_handle pan, pbn, wn;
    evf_point_f(fa, a, da, dai, &pav, &pan); evf_point_f(fb, b, db, dbi, &pbv, &pbn);
    { node_handle a1 = a;
      if (evplus_plus__simplifiesToFirstArg(0, fa, &a1, fb, b)) {
          if (a1 == a || a1 <= 0) { evf_point_f(fa, a1, da, dai, &wv, &wn); if (evf_plus_agrees(fa, fb, fc, pav, pan, pbv, pbn, wv, wn)) ok |= 1; }
      } else ok |= 1; }
    { node_handle b1 = b;
      if (evplus_plus__simplifiesToSecondArg(0, fa, a, fb, &b1)) {
          if (b1 == b || b1 <= 0) { evf_point_f(fb, b1, db, dbi, &wv, &wn); if (evf_plus_agrees(fa, fb, fc, pav, pan, pbv, pbn, wv, wn)) ok |= 2; }
      } else ok |= 2; }
    { if (a > 0 && evplus_plus__stopOnEqualArgs()) {     /* two equal terminals go to the kernel first */            /* makeEqualResult yields the constant 0: op(x, x) must be defined and 0 at every assignment */
          if (evf_plus_agrees(fa, fa, fc, pav, pan, pav, pan, 0, OMEGA_NORMAL)) ok |= 4;
      } else ok |= 4; }
    return ok;
}
void h_evplus_plus_shortcuts_pw(void) { struct forest *fa, *fb, *fc; node_handle w_a = nondet_int(), w_b = nondet_int(); long w_da = nondet_long(), w_db = nondet_long(); _Bool w_dai = nondet_bool(), w_dbi = nondet_bool();
    lemma_evplus_plus_shortcuts_pw(fa, fb, fc, w_a, w_b, w_da, w_dai, w_db, w_dbi); CANARY(); }

int lemma_evplus_minus_kernel(struct forest *fa, struct forest *fb, struct forest *fc, node_handle a, node_handle b, const struct edge_value *av_, const struct edge_value *bv_)
{
    _Bool ai = (a == OMEGA_INFINITY), bi = (b == OMEGA_INFINITY);
    struct edge_value cv; node_handle cn = 12345; cv.mytype = edge_type__VOID;
    evplus_minus__apply_node(fa, a, fb, b, fc, &cn);
    int exc = verif_exc; verif_exc = 0;
    if (exc == 0) evplus_minus__apply_edge(av_, bv_, &cv);
    if (bi) return exc == ERR_SUBTRACT_INFINITY;                          /* subtracting infinity: documented error, no value */
    if (ai) return exc == 0 && cn == OMEGA_INFINITY;
    return exc == 0 && cn == OMEGA_NORMAL && cv.mytype == edge_type__LONG && cv.ev_long == av_->ev_long - bv_->ev_long;
}
void h_evplus_minus_kernel(void) { struct forest *fa, *fb, *fc; struct edge_value *x, *y; node_handle w_a = nondet_int(), w_b = nondet_int(); lemma_evplus_minus_kernel(fa, fb, fc, w_a, w_b, x, y); CANARY(); }
/* whenever a predicate answers "the result is the first (second) node", the node-level kernel on the operands' values at an arbitrary assignment
 * raises nothing and, with the edge-level kernel, gives that node's value there */
static int evf_minus_agrees(struct forest *fa, struct forest *fb, struct forest *fc, long pav, node_handle pan, long pbv, node_handle pbn, long wv, node_handle wn)
{
    node_handle cn = 12345; struct edge_value x, y, c; x.mytype = edge_type__LONG; x.ev_long = pav; y.mytype = edge_type__LONG; y.ev_long = pbv; c.mytype = edge_type__VOID;
    evplus_minus__apply_node(fa, pan, fb, pbn, fc, &cn);
    if (verif_exc) { verif_exc = 0; return 0; }
    if (cn == OMEGA_INFINITY) return wn == OMEGA_INFINITY;
    evplus_minus__apply_edge(&x, &y, &c);
    return wn == OMEGA_NORMAL && c.mytype == edge_type__LONG && c.ev_long == wv;
}
int lemma_evplus_minus_shortcuts_pw(struct forest *fa, struct forest *fb, struct forest *fc, node_handle a, node_handle b, long da, _Bool dai, long db, _Bool dbi)
{
    int ok = 0;
    long pav, pbv, wv; node_handle pan, pbn, wn;
    evf_point_f(fa, a, da, dai, &pav, &pan); evf_point_f(fb, b, db, dbi, &pbv, &pbn);
    { node_handle a1 = a;
      if (evplus_minus__simplifiesToFirstArg(0, fa, &a1, fb, b)) {
          if (a1 == a || a1 <= 0) { evf_point_f(fa, a1, da, dai, &wv, &wn); if (evf_minus_agrees(fa, fb, fc, pav, pan, pbv, pbn, wv, wn)) ok |= 1; }
      } else ok |= 1; }
    { node_handle b1 = b;
      if (evplus_minus__simplifiesToSecondArg(0, fa, a, fb, &b1)) {
          if (b1 == b || b1 <= 0) { evf_point_f(fb, b1, db, dbi, &wv, &wn); if (evf_minus_agrees(fa, fb, fc, pav, pan, pbv, pbn, wv, wn)) ok |= 2; }
      } else ok |= 2; }
    { if (a > 0 && evplus_minus__stopOnEqualArgs()) {     /* two equal terminals go to the kernel first */            /* makeEqualResult yields the constant 0: op(x, x) must be defined and 0 at every assignment */
          if (evf_minus_agrees(fa, fa, fc, pav, pan, pav, pan, 0, OMEGA_NORMAL)) ok |= 4;
      } else ok |= 4; }
    return ok;
}
void h_evplus_minus_shortcuts_pw(void) { struct forest *fa, *fb, *fc; node_handle w_a = nondet_int(), w_b = nondet_int(); long w_da = nondet_long(), w_db = nondet_long(); _Bool w_dai = nondet_bool(), w_dbi = nondet_bool();
    lemma_evplus_minus_shortcuts_pw(fa, fb, fc, w_a, w_b, w_da, w_dai, w_db, w_dbi); CANARY(); }

int lemma_evstar_div_kernel(struct forest *fa, struct forest *fb, struct forest *fc, node_handle a, node_handle b, const struct edge_value *av_, const struct edge_value *bv_)
{
    struct edge_value cv; node_handle cn = 12345; cv.mytype = edge_type__VOID;
    evstar_div__apply_node(fa, a, fb, b, fc, &cn);
    int exc = verif_exc; verif_exc = 0;
    if (b == OMEGA_ZERO) return exc == ERR_DIVIDE_BY_ZERO;                 /* the zero function as divisor */
    if (exc != 0) return 0;
    evstar_div__apply_edge(av_, bv_, &cv);
    exc = verif_exc; verif_exc = 0;
    if (bv_->ev_float == 0.0f) return exc == ERR_DIVIDE_BY_ZERO;           /* a zero factor on the divisor's edge */
    /* the quotient itself is one float division in the source; 'cv == av / bv' is an equivalence of two float dividers that no back end finished - not checked */
    return exc == 0 && cn == (a == OMEGA_ZERO ? OMEGA_ZERO : OMEGA_NORMAL) && cv.mytype == edge_type__FLOAT;
}
void h_evstar_div_kernel(void) { struct forest *fa, *fb, *fc; struct edge_value *x, *y; node_handle w_a = nondet_int(), w_b = nondet_int(); lemma_evstar_div_kernel(fa, fb, fc, w_a, w_b, x, y); CANARY(); }
/* value of a node function at the assignment the ghost stands for: (factor, terminal) */
static void evs_point(node_handle n, float d, float *pv, node_handle *pn)
{
    if (n == OMEGA_ZERO) { *pn = OMEGA_ZERO; *pv = 0.0f; }
    else if (n == OMEGA_NORMAL) { *pn = OMEGA_NORMAL; *pv = 1.0f; }
    else if (d == 0.0f) { *pn = OMEGA_ZERO; *pv = 0.0f; }
    else { *pn = OMEGA_NORMAL; *pv = d; }
}
static void evs_point_f(const struct forest *f, node_handle n, float d, float *pv, node_handle *pn)
{
    if (n == OMEGA_NORMAL && forest__isIdentityReduced(f) && d == 0.0f) { *pn = OMEGA_ZERO; *pv = 0.0f; }   /* identity pattern, off the diagonal (EV*: zero) */
    else evs_point(n, d, pv, pn);
}
/* kernel (node level, then edge level) on two point values; 1 iff it raises nothing and yields the value (wv, wn) */
static int evs_div_agrees(struct forest *fa, struct forest *fb, struct forest *fc, float pav, node_handle pan, float pbv, node_handle pbn, float wv, node_handle wn)
{
    node_handle cn = 12345; struct edge_value x, y, c; x.mytype = edge_type__FLOAT; x.ev_float = pav; y.mytype = edge_type__FLOAT; y.ev_float = pbv; c.mytype = edge_type__VOID;
    evstar_div__apply_node(fa, pan, fb, pbn, fc, &cn);
    if (verif_exc) { verif_exc = 0; return 0; }
    if (cn == OMEGA_ZERO) return wn == OMEGA_ZERO;
    evstar_div__apply_edge(&x, &y, &c);
    if (verif_exc) { verif_exc = 0; return 0; }
    return wn == OMEGA_NORMAL && c.mytype == edge_type__FLOAT && c.ev_float == wv;
}
int lemma_evstar_div_shortcuts_pw(struct forest *fa, struct forest *fb, struct forest *fc, node_handle a, node_handle b, float da, float db)
{
    int ok = 0;
    float pav, pbv, wv; node_handle pan, pbn, wn;
    evs_point_f(fa, a, da, &pav, &pan); evs_point_f(fb, b, db, &pbv, &pbn);
    { node_handle a1 = a;
      if (evstar_div__simplifiesToFirstArg(0, fa, &a1, fb, b)) {
          if (a1 == a || a1 <= 0) { evs_point_f(fa, a1, da, &wv, &wn); if (evs_div_agrees(fa, fb, fc, pav, pan, pbv, pbn, wv, wn)) ok |= 1; }
      } else ok |= 1; }
    { node_handle b1 = b;
      if (evstar_div__simplifiesToSecondArg(0, fa, a, fb, &b1)) {
          if (b1 == b || b1 <= 0) { evs_point_f(fb, b1, db, &wv, &wn); if (evs_div_agrees(fa, fb, fc, pav, pan, pbv, pbn, wv, wn)) ok |= 2; }
      } else ok |= 2; }
    { if (a > 0 && evstar_div__stopOnEqualArgs()) {      /* makeEqualResult yields the constant 1: x/x must be defined and 1 at every assignment */
          if (evs_div_agrees(fa, fa, fc, pav, pan, pav, pan, 1.0f, OMEGA_NORMAL)) ok |= 4;
      } else ok |= 4; }
    return ok;
}
void h_evstar_div_shortcuts_pw(void) { struct forest *fa, *fb, *fc; node_handle w_a = nondet_int(), w_b = nondet_int(); float w_da = nondet_float(), w_db = nondet_float();
    lemma_evstar_div_shortcuts_pw(fa, fb, fc, w_a, w_b, w_da, w_db); CANARY(); }
