OPS = ['plus', 'minus', 'mult', 'div', 'mod', 'max', 'min']
T = 'src/terminal.h'
FH = 'src/forest.h'
PH = 'src/policies.h'
def opfile(op):
    return 'src/operations/arith_%s.cc' % op
def job(name, enforce, replace=(), props=('C05',), **kw):
    d = dict(name=name, entry='h_' + name, enforce=enforce, replace=list(replace), props=list(props))
    d.update(kw)
    return d
def tf(name, **kw):
    d = dict(cls='terminal', name=name, file=T)
    d.update(kw)
    return d

funcs = [
    tf('isOmega'), tf('isBoolean'), tf('isInteger'), tf('isReal'), tf('intMin'), tf('intMax'), tf('msb'),
    tf('getIntegerHandle'), tf('getRealHandle'), tf('getHandle'), tf('setInteger'), tf('setFromHandle'),
    tf('setFromValue', subst={'T': 'long'}, cname='terminal__setFromValue_long', argc_key=2),
    tf('getValue', subst={'T': 'long'}, cname='terminal__getValue_long', argc_key=1),
    tf('terminal', sel=r'^long v$', ctor=True, cname='terminal__ctor_long', argc_key='ctor1'),
    tf('terminal', sel=r'^long v, terminal_type t$', ctor=True, cname='terminal__ctor_long_tt', argc_key='ctor2'),
    tf('terminal', sel=r'^terminal_type t, node_handle h$', ctor=True, cname='terminal__ctor_th', argc_key='ctor3'),
    dict(cls='forest', name='handleForValue', file=FH, subst={'T': 'long'}, cname='forest__handleForValue_long',
         foreign={'getHandle': {'*': 'terminal__getHandle'}}, fires={'R9subst': 1}),
    dict(cls='forest', name='getValueFromHandle', file=FH, subst={'T': 'long'}, cname='forest__getValueFromHandle_long',
         foreign={'getValue': {'*': 'terminal__getValue_long'}}, fires={'R9subst': 1}),
    dict(cls='forest', name='isIdentityReduced', file=FH),
    dict(cls='policies', name='isIdentityReduced', file=PH),
]
jobs = []
for op in OPS:
    f = opfile(op)
    c = 'mt_' + op
    common = dict(cls=c, file=f, static=True)
    funcs += [
        dict(name='commutes', **common), dict(name='stopOnEqualArgs', **common),
        dict(name='simplifiesToFirstArg', **common), dict(name='simplifiesToSecondArg', **common),
        dict(name='apply', sel=r'^const forest\* fa, node_handle a', cname=c + '__apply', argc_key=6, **common),
    ]
    # 64-bit multiply / divide equivalences are slow on SAT (guidance: "multiply/divide facts timed out on every back end"):
    # the three jobs that did not finish in 400 s are thorough-tier only
    heavy = {'mt_div_kernel', 'mt_mod_kernel', 'mt_mult_shortcuts'}
    for (jn, en) in (('mt_%s_kernel' % op, 'lemma_mt_%s_kernel' % op), ('mt_%s_shortcuts' % op, 'lemma_mt_%s_shortcuts' % op)):
        pr = ['C05', 'C16'] if op in ('div', 'mod') else ['C05']
        if jn in heavy:
            # full 64-bit range: never finished (> 55 min on cadical, minisat2, z3, cvc5): NOT run.  Bounded stand-in: operands below 2^12 in magnitude
            bits = 6 if jn == 'mt_mult_shortcuts' else 12      # a*b == b*a (the commutes flag) is the hard part of mt_mult_shortcuts; its first/second-argument part is mt_mult_shortcuts_pw
            jobs.append(job(jn + '_small', en, props=pr, tier='thorough', timeout=3600, defines=['ARITH_SMALL_OPERANDS=%d' % bits], entry='h_' + jn, kind='bounded',
                            unwind='operands below 2^%d in magnitude (loop-free; bounded in the operand range only)' % bits))
        else:
            jobs.append(job(jn, en, props=pr))

for op in OPS:
    # shortcuts with non-terminal operands, point-wise (the operand's value at an arbitrary assignment is a ghost terminal)
    jobs.append(job('mt_%s_shortcuts_pw' % op, 'lemma_mt_%s_shortcuts_pw' % op, props=['C05', 'C16'] if op in ('div', 'mod') else ['C05']))
CMP = ['eq', 'ne', 'gt', 'ge', 'lt', 'le']
CF = 'src/operations/compare.cc'
EVH = 'src/edge_value.h'
funcs += [
    dict(cls='edge_value', name='operator long', file=EVH, cname='edge_value__to_long'),
    dict(cls='edge_value', name='set', file=EVH, sel=r'^$', cname='edge_value__set_void', argc_key=0),
    dict(cls='edge_value', name='set', file=EVH, sel=r'^long v$', cname='edge_value__set_long', argc_key=1),
    dict(cls='edge_value', name='edge_value', file='src/edge_value.cc', sel=r'^long v$', ctor=True, where='out', cname='edge_value__ctor_long', argc_key='ctor_long'),
]
for c in CMP:
    funcs += [
        dict(cls=c + '_base', name='isSymmetric', file=CF, static=True), dict(cls=c + '_base', name='isReflexive', file=CF, static=True),
        dict(cls=c + '_mt', name='compare', file=CF, static=True),
        dict(cls=c + '_evplus', name='compare', file=CF, static=True), dict(cls=c + '_evplus', name='isSpecialCase', file=CF, static=True),
    ]
    jobs += [job('cmp_%s_mt' % c, 'lemma_cmp_%s_mt' % c), job('cmp_%s_evplus' % c, 'lemma_cmp_%s_evplus' % c)]
for op in ('div', 'mod'):
    funcs += [dict(cls='evplus_' + op, name='stopOnEqualArgs', file=opfile(op), static=True), dict(cls='evplus_' + op, name='simplifiesToFirstArg', file=opfile(op), static=True),
              dict(cls='evplus_' + op, name='simplifiesToSecondArg', file=opfile(op), static=True)]
    jobs.append(job('evplus_%s_shortcuts' % op, 'lemma_evplus_%s_shortcuts' % op, props=['C05', 'C16']))
funcs += [dict(cls='evplus_mult', name='simplifiesToFirstArg', file=opfile('mult'), static=True), dict(cls='evplus_mult', name='simplifiesToSecondArg', file=opfile('mult'), static=True)]
for op in ('mult', 'div', 'mod'):
    # shortcuts with non-terminal operands, point-wise (the operand's value at an arbitrary assignment is a ghost)
    jobs.append(job('evplus_%s_shortcuts_pw' % op, 'lemma_evplus_%s_shortcuts_pw' % op, props=['C05']))
for op in ('mult', 'div', 'mod'):
    funcs.append(dict(cls='evplus_' + op, name='apply', file=opfile(op), static=True, sel=r'^const edge_value &av, node_handle an', cname='evplus_%s__apply' % op, argc_key=6))
    # 64-bit multiply / divide / remainder equivalence: thorough tier only (did not finish in 600 s on SAT)
    if op == 'mult':
        jobs.append(job('evplus_mult_kernel', 'lemma_evplus_mult_kernel', props=['C05'], tier='thorough', timeout=3600))       # ~10 min on cadical
    else:
        jobs.append(job('evplus_%s_kernel_small' % op, 'lemma_evplus_%s_kernel' % op, props=['C05', 'C16'], tier='thorough', timeout=3600, defines=['ARITH_SMALL_OPERANDS=12'],
                        entry='h_evplus_%s_kernel' % op, kind='bounded', unwind='operands below 2^12 in magnitude (loop-free; bounded in the operand range only)'))

for op in ('max', 'min'):
    funcs += [dict(cls='evplus_' + op, name='stopOnEqualArgs', file=opfile(op), static=True), dict(cls='evplus_' + op, name='simplifiesToFirstArg', file=opfile(op), static=True),
              dict(cls='evplus_' + op, name='simplifiesToSecondArg', file=opfile(op), static=True),
              dict(cls='evplus_' + op, name='apply', file=opfile(op), static=True, sel=r'^const edge_value &c, node_handle d', cname='evplus_%s__apply' % op, argc_key=6)]
    jobs += [job('evplus_%s_kernel' % op, 'lemma_evplus_%s_kernel' % op), job('evplus_%s_shortcuts_pw' % op, 'lemma_evplus_%s_shortcuts_pw' % op)]
for op in ('plus', 'minus'):
    # arith_factor interface: edge values are factored out, predicates and the node-level kernel see node handles only
    funcs += [dict(cls='evplus_' + op, name='stopOnEqualArgs', file=opfile(op), static=True), dict(cls='evplus_' + op, name='simplifiesToFirstArg', file=opfile(op), static=True),
              dict(cls='evplus_' + op, name='simplifiesToSecondArg', file=opfile(op), static=True),
              dict(cls='evplus_' + op, name='apply', file=opfile(op), static=True, sel=r'^const forest\* fa, node_handle a', cname='evplus_%s__apply_node' % op, argc_key=6),
              dict(cls='evplus_' + op, name='apply', file=opfile(op), static=True, sel=r'^const edge_value &a, const edge_value &b', cname='evplus_%s__apply_edge' % op, argc_key=3)]
    jobs += [job('evplus_%s_kernel' % op, 'lemma_evplus_%s_kernel' % op, props=['C05', 'C16'] if op == 'minus' else ['C05']),
             job('evplus_%s_shortcuts_pw' % op, 'lemma_evplus_%s_shortcuts_pw' % op, props=['C05', 'C16'] if op == 'minus' else ['C05'])]

# EV* DIVIDE (factored interface, float edge values)
EVS = dict(file=opfile('div'), static=True, subst={'RANGE': 'long', 'EDGETYPE': 'float'}, foreign={'set': {'*': 'edge_value__set_float'}})
funcs += [
    dict(cls='edge_value', name='operator float', file=EVH, cname='edge_value__to_float'),
    dict(cls='edge_value', name='set', file=EVH, sel=r'^float v$', cname='edge_value__set_float', argc_key='k_float'),
    dict(cls='evstar_div', name='stopOnEqualArgs', **EVS), dict(cls='evstar_div', name='simplifiesToFirstArg', **EVS), dict(cls='evstar_div', name='simplifiesToSecondArg', **EVS),
    dict(cls='evstar_div', name='apply', sel=r'^const forest\* fa, node_handle a', cname='evstar_div__apply_node', argc_key=6, **EVS),
    dict(cls='evstar_div', name='apply', sel=r'^const edge_value &a, const edge_value &b', cname='evstar_div__apply_edge', argc_key=3, **EVS),
]
jobs += [job('evstar_div_kernel', 'lemma_evstar_div_kernel', props=['C05', 'C16']), job('evstar_div_shortcuts_pw', 'lemma_evstar_div_shortcuts_pw', props=['C05', 'C16'])]

UNIT = {
    'name': 'arith',
    'conversion_classes': ['edge_value'],
    'assign_ctor': {'edge_value': 'edge_value__ctor_long'},
    'typedefs': [('src/defines.h', 'node_handle')],
    'enums': [('src/terminal.h', 'terminal_type'), ('src/policies.h', 'reduction_rule'), ('src/edge_value.h', 'edge_type')],
    'consts': [('src/terminal.h', ['OMEGA_NORMAL', 'OMEGA_ZERO', 'OMEGA_INFINITY'])],
    'subst': {'RANGE': 'long', 'EDGETYPE': 'long'},
    'classes': dict([
        ('terminal', {'file': T}),
        ('edge_value', {'file': EVH}),
        ('policies', {'file': PH, 'fields': ['reduction']}),
        ('forest', {'file': FH, 'fields': ['deflt', 'the_terminal_type'], 'override': {'deflt': 'struct policies deflt'}}),
    ] + [('mt_' + op, {'opaque': True}) for op in OPS] + [('evplus_' + op, {'opaque': True}) for op in ('mult', 'div', 'mod', 'max', 'min', 'plus', 'minus')] + [('evstar_div', {'opaque': True})]
      + [(c + sfx, {'opaque': True}) for c in CMP for sfx in ('_base', '_mt', '_evplus')]),
    'foreign': {
        'getValueFromHandle': {'*': 'forest__getValueFromHandle_long'},
        'handleForValue': {'*': 'forest__handleForValue_long'},
        'isIdentityReduced': {'deflt': 'policies', '*': 'forest'},
        'getHandle': {'*': 'terminal__getHandle'},
        'set': {'*': {0: 'edge_value__set_void', 1: 'edge_value__set_long'}},
    },
    'text_subst': [
        (r'terminal t\(v, the_terminal_type\);', 'struct terminal t; terminal__ctor_long_tt(&t, v, the_terminal_type);', FH),
        (r'terminal t\(the_terminal_type, n\);', 'struct terminal t; terminal__ctor_th(&t, the_terminal_type, n);', FH),
    ] + [(r'terminal one\( RANGE\(1\) \);', 'struct terminal one; terminal__ctor_long(&one, RANGE(1));', opfile(op)) for op in ('mult', 'div')],
    'functions': funcs,
    'replay_full_library': True, 'replay_link': ['-lgmp'],
    'stubs': ['local terminal objects "terminal t(args);" are mapped (text_subst, must fire) to a struct plus a call of the extracted constructor body'],
    'assumptions': ['RANGE = long (integer multi-terminal forests); real-valued kernels (float division/rounding) are not covered',
                    'only the scalar kernels and shortcut predicates; the recursion of arith_compat/arith_factor/arith_pushdn that applies them is not covered',
                    'makeEqualResult is not extracted (it builds a chain through forest::makeRedundantsTo / a copy operation); the value it yields is read from the source: DIVIDE -> 1, MODULO -> 0, MINUS -> 0, MAX/MIN -> the argument'],
    'unverified_surroundings': {'C05': ['operations/arith_templ.h arith_compat / arith_factor / arith_pushdn recursion', 'compare.cc', 'maxmin_range.cc, user_unary.cc, dist_inc.cc',
                                        'EV+ / EV* kernels', 'real-valued kernels'],
                                'C16': ['operand compatibility checks in operation constructors', 'state after an error deep in a recursion']},
    'jobs': jobs,
}
