/* U-arith: scalar kernels and shortcut predicates of the element-wise operations, integer multi-terminal forests (C05, C16) */
#define TERM_MIN (-1073741824L)
#define TERM_MAX ( 1073741823L)
#define F3_REQ() \
    __CPROVER_requires(__CPROVER_is_fresh(fa, sizeof(*fa)) && __CPROVER_is_fresh(fb, sizeof(*fb)) && __CPROVER_is_fresh(fc, sizeof(*fc))) \
    __CPROVER_requires(fa->the_terminal_type == terminal_type__INTEGER && fb->the_terminal_type == terminal_type__INTEGER && fc->the_terminal_type == terminal_type__INTEGER) \
    /* operands are terminal handles in canonical form (0, or negative with a non-zero payload) */ \
    __CPROVER_requires(a <= 0 && b <= 0 && a != INT_MIN && b != INT_MIN && verif_exc == 0)


int lemma_mt_plus_kernel(struct forest *fa, struct forest *fb, struct forest *fc, node_handle a, node_handle b)
F3_REQ()
__CPROVER_assigns(verif_exc)
ENSURES(kernel_is_the_scalar_operation, __CPROVER_return_value == 1)
;
int lemma_mt_plus_shortcuts(struct forest *fa, struct forest *fb, struct forest *fc, node_handle a, node_handle b)
F3_REQ()
__CPROVER_requires(fa->deflt.reduction == fb->deflt.reduction)
__CPROVER_assigns(verif_exc)
ENSURES(first_argument_shortcut_is_sound, (__CPROVER_return_value & 1) != 0)
ENSURES(second_argument_shortcut_is_sound, (__CPROVER_return_value & 2) != 0)
ENSURES(equal_arguments_shortcut_is_sound, (__CPROVER_return_value & 4) != 0)
ENSURES(commutes_flag_is_sound, (__CPROVER_return_value & 8) != 0)
;

int lemma_mt_minus_kernel(struct forest *fa, struct forest *fb, struct forest *fc, node_handle a, node_handle b)
F3_REQ()
__CPROVER_assigns(verif_exc)
ENSURES(kernel_is_the_scalar_operation, __CPROVER_return_value == 1)
;
int lemma_mt_minus_shortcuts(struct forest *fa, struct forest *fb, struct forest *fc, node_handle a, node_handle b)
F3_REQ()
__CPROVER_requires(fa->deflt.reduction == fb->deflt.reduction)
__CPROVER_assigns(verif_exc)
ENSURES(first_argument_shortcut_is_sound, (__CPROVER_return_value & 1) != 0)
ENSURES(second_argument_shortcut_is_sound, (__CPROVER_return_value & 2) != 0)
ENSURES(equal_arguments_shortcut_is_sound, (__CPROVER_return_value & 4) != 0)
ENSURES(commutes_flag_is_sound, (__CPROVER_return_value & 8) != 0)
;

int lemma_mt_mult_kernel(struct forest *fa, struct forest *fb, struct forest *fc, node_handle a, node_handle b)
F3_REQ()
__CPROVER_assigns(verif_exc)
ENSURES(kernel_is_the_scalar_operation, __CPROVER_return_value == 1)
;
int lemma_mt_mult_shortcuts(struct forest *fa, struct forest *fb, struct forest *fc, node_handle a, node_handle b)
F3_REQ()
__CPROVER_requires(fa->deflt.reduction == fb->deflt.reduction)
__CPROVER_assigns(verif_exc)
ENSURES(first_argument_shortcut_is_sound, (__CPROVER_return_value & 1) != 0)
ENSURES(second_argument_shortcut_is_sound, (__CPROVER_return_value & 2) != 0)
ENSURES(equal_arguments_shortcut_is_sound, (__CPROVER_return_value & 4) != 0)
ENSURES(commutes_flag_is_sound, (__CPROVER_return_value & 8) != 0)
;

int lemma_mt_div_kernel(struct forest *fa, struct forest *fb, struct forest *fc, node_handle a, node_handle b)
F3_REQ()
__CPROVER_assigns(verif_exc)
ENSURES(kernel_is_the_scalar_operation, __CPROVER_return_value == 1)
;
int lemma_mt_div_shortcuts(struct forest *fa, struct forest *fb, struct forest *fc, node_handle a, node_handle b)
F3_REQ()
__CPROVER_requires(fa->deflt.reduction == fb->deflt.reduction)
__CPROVER_assigns(verif_exc)
ENSURES(first_argument_shortcut_is_sound, (__CPROVER_return_value & 1) != 0)
ENSURES(second_argument_shortcut_is_sound, (__CPROVER_return_value & 2) != 0)
ENSURES(equal_arguments_shortcut_is_sound, (__CPROVER_return_value & 4) != 0)
ENSURES(commutes_flag_is_sound, (__CPROVER_return_value & 8) != 0)
;

int lemma_mt_mod_kernel(struct forest *fa, struct forest *fb, struct forest *fc, node_handle a, node_handle b)
F3_REQ()
__CPROVER_assigns(verif_exc)
ENSURES(kernel_is_the_scalar_operation, __CPROVER_return_value == 1)
;
int lemma_mt_mod_shortcuts(struct forest *fa, struct forest *fb, struct forest *fc, node_handle a, node_handle b)
F3_REQ()
__CPROVER_requires(fa->deflt.reduction == fb->deflt.reduction)
__CPROVER_assigns(verif_exc)
ENSURES(first_argument_shortcut_is_sound, (__CPROVER_return_value & 1) != 0)
ENSURES(second_argument_shortcut_is_sound, (__CPROVER_return_value & 2) != 0)
ENSURES(equal_arguments_shortcut_is_sound, (__CPROVER_return_value & 4) != 0)
ENSURES(commutes_flag_is_sound, (__CPROVER_return_value & 8) != 0)
;

int lemma_mt_max_kernel(struct forest *fa, struct forest *fb, struct forest *fc, node_handle a, node_handle b)
F3_REQ()
__CPROVER_assigns(verif_exc)
ENSURES(kernel_is_the_scalar_operation, __CPROVER_return_value == 1)
;
int lemma_mt_max_shortcuts(struct forest *fa, struct forest *fb, struct forest *fc, node_handle a, node_handle b)
F3_REQ()
__CPROVER_requires(fa->deflt.reduction == fb->deflt.reduction)
__CPROVER_assigns(verif_exc)
ENSURES(first_argument_shortcut_is_sound, (__CPROVER_return_value & 1) != 0)
ENSURES(second_argument_shortcut_is_sound, (__CPROVER_return_value & 2) != 0)
ENSURES(equal_arguments_shortcut_is_sound, (__CPROVER_return_value & 4) != 0)
ENSURES(commutes_flag_is_sound, (__CPROVER_return_value & 8) != 0)
;

int lemma_mt_min_kernel(struct forest *fa, struct forest *fb, struct forest *fc, node_handle a, node_handle b)
F3_REQ()
__CPROVER_assigns(verif_exc)
ENSURES(kernel_is_the_scalar_operation, __CPROVER_return_value == 1)
;
int lemma_mt_min_shortcuts(struct forest *fa, struct forest *fb, struct forest *fc, node_handle a, node_handle b)
F3_REQ()
__CPROVER_requires(fa->deflt.reduction == fb->deflt.reduction)
__CPROVER_assigns(verif_exc)
ENSURES(first_argument_shortcut_is_sound, (__CPROVER_return_value & 1) != 0)
ENSURES(second_argument_shortcut_is_sound, (__CPROVER_return_value & 2) != 0)
ENSURES(equal_arguments_shortcut_is_sound, (__CPROVER_return_value & 4) != 0)
ENSURES(commutes_flag_is_sound, (__CPROVER_return_value & 8) != 0)
;

/* ---- comparisons ------------------------------------------------------------------------------ */
#define CMP_REQ() \
    __CPROVER_requires(__CPROVER_is_fresh(fa, sizeof(*fa)) && __CPROVER_is_fresh(fb, sizeof(*fb))) \
    __CPROVER_requires(fa->the_terminal_type == terminal_type__INTEGER && fb->the_terminal_type == terminal_type__INTEGER) \
    __CPROVER_requires(a <= 0 && b <= 0 && a != INT_MIN && b != INT_MIN && verif_exc == 0)
/* EV+ operand: (value, node) with node OMEGA_NORMAL (finite value) or OMEGA_INFINITY */
#define EVP_REQ() \
    __CPROVER_requires(__CPROVER_is_fresh(av, sizeof(*av)) && __CPROVER_is_fresh(bv, sizeof(*bv)) && av->mytype == edge_type__LONG && bv->mytype == edge_type__LONG) \
    __CPROVER_requires((ap == OMEGA_NORMAL || ap == OMEGA_INFINITY) && (bp == OMEGA_NORMAL || bp == OMEGA_INFINITY) && verif_exc == 0)

int lemma_cmp_eq_mt(struct forest *fa, struct forest *fb, node_handle a, node_handle b)
CMP_REQ()
__CPROVER_assigns(verif_exc)
ENSURES(kernel_is_the_scalar_comparison, (__CPROVER_return_value & 1) != 0)
ENSURES(equal_operands_give_the_reflexive_constant, (__CPROVER_return_value & 2) != 0)
ENSURES(symmetric_flag_is_sound, (__CPROVER_return_value & 4) != 0)
;
int lemma_cmp_eq_evplus(const struct edge_value *av, node_handle ap, const struct edge_value *bv, node_handle bp)
EVP_REQ()
__CPROVER_assigns(verif_exc)
ENSURES(kernel_orders_infinity_above_every_integer, (__CPROVER_return_value & 1) != 0)
ENSURES(special_case_shortcut_is_sound, (__CPROVER_return_value & 2) != 0)
ENSURES(equal_operands_give_the_reflexive_constant, (__CPROVER_return_value & 4) != 0)
;
int lemma_cmp_ne_mt(struct forest *fa, struct forest *fb, node_handle a, node_handle b)
CMP_REQ()
__CPROVER_assigns(verif_exc)
ENSURES(kernel_is_the_scalar_comparison, (__CPROVER_return_value & 1) != 0)
ENSURES(equal_operands_give_the_reflexive_constant, (__CPROVER_return_value & 2) != 0)
ENSURES(symmetric_flag_is_sound, (__CPROVER_return_value & 4) != 0)
;
int lemma_cmp_ne_evplus(const struct edge_value *av, node_handle ap, const struct edge_value *bv, node_handle bp)
EVP_REQ()
__CPROVER_assigns(verif_exc)
ENSURES(kernel_orders_infinity_above_every_integer, (__CPROVER_return_value & 1) != 0)
ENSURES(special_case_shortcut_is_sound, (__CPROVER_return_value & 2) != 0)
ENSURES(equal_operands_give_the_reflexive_constant, (__CPROVER_return_value & 4) != 0)
;
int lemma_cmp_gt_mt(struct forest *fa, struct forest *fb, node_handle a, node_handle b)
CMP_REQ()
__CPROVER_assigns(verif_exc)
ENSURES(kernel_is_the_scalar_comparison, (__CPROVER_return_value & 1) != 0)
ENSURES(equal_operands_give_the_reflexive_constant, (__CPROVER_return_value & 2) != 0)
ENSURES(symmetric_flag_is_sound, (__CPROVER_return_value & 4) != 0)
;
int lemma_cmp_gt_evplus(const struct edge_value *av, node_handle ap, const struct edge_value *bv, node_handle bp)
EVP_REQ()
__CPROVER_assigns(verif_exc)
ENSURES(kernel_orders_infinity_above_every_integer, (__CPROVER_return_value & 1) != 0)
ENSURES(special_case_shortcut_is_sound, (__CPROVER_return_value & 2) != 0)
ENSURES(equal_operands_give_the_reflexive_constant, (__CPROVER_return_value & 4) != 0)
;
int lemma_cmp_ge_mt(struct forest *fa, struct forest *fb, node_handle a, node_handle b)
CMP_REQ()
__CPROVER_assigns(verif_exc)
ENSURES(kernel_is_the_scalar_comparison, (__CPROVER_return_value & 1) != 0)
ENSURES(equal_operands_give_the_reflexive_constant, (__CPROVER_return_value & 2) != 0)
ENSURES(symmetric_flag_is_sound, (__CPROVER_return_value & 4) != 0)
;
int lemma_cmp_ge_evplus(const struct edge_value *av, node_handle ap, const struct edge_value *bv, node_handle bp)
EVP_REQ()
__CPROVER_assigns(verif_exc)
ENSURES(kernel_orders_infinity_above_every_integer, (__CPROVER_return_value & 1) != 0)
ENSURES(special_case_shortcut_is_sound, (__CPROVER_return_value & 2) != 0)
ENSURES(equal_operands_give_the_reflexive_constant, (__CPROVER_return_value & 4) != 0)
;
int lemma_cmp_lt_mt(struct forest *fa, struct forest *fb, node_handle a, node_handle b)
CMP_REQ()
__CPROVER_assigns(verif_exc)
ENSURES(kernel_is_the_scalar_comparison, (__CPROVER_return_value & 1) != 0)
ENSURES(equal_operands_give_the_reflexive_constant, (__CPROVER_return_value & 2) != 0)
ENSURES(symmetric_flag_is_sound, (__CPROVER_return_value & 4) != 0)
;
int lemma_cmp_lt_evplus(const struct edge_value *av, node_handle ap, const struct edge_value *bv, node_handle bp)
EVP_REQ()
__CPROVER_assigns(verif_exc)
ENSURES(kernel_orders_infinity_above_every_integer, (__CPROVER_return_value & 1) != 0)
ENSURES(special_case_shortcut_is_sound, (__CPROVER_return_value & 2) != 0)
ENSURES(equal_operands_give_the_reflexive_constant, (__CPROVER_return_value & 4) != 0)
;
int lemma_cmp_le_mt(struct forest *fa, struct forest *fb, node_handle a, node_handle b)
CMP_REQ()
__CPROVER_assigns(verif_exc)
ENSURES(kernel_is_the_scalar_comparison, (__CPROVER_return_value & 1) != 0)
ENSURES(equal_operands_give_the_reflexive_constant, (__CPROVER_return_value & 2) != 0)
ENSURES(symmetric_flag_is_sound, (__CPROVER_return_value & 4) != 0)
;
int lemma_cmp_le_evplus(const struct edge_value *av, node_handle ap, const struct edge_value *bv, node_handle bp)
EVP_REQ()
__CPROVER_assigns(verif_exc)
ENSURES(kernel_orders_infinity_above_every_integer, (__CPROVER_return_value & 1) != 0)
ENSURES(special_case_shortcut_is_sound, (__CPROVER_return_value & 2) != 0)
ENSURES(equal_operands_give_the_reflexive_constant, (__CPROVER_return_value & 4) != 0)
;
int lemma_evplus_mult_kernel(const struct edge_value *av, node_handle ap, const struct edge_value *bv, node_handle bp)
EVP_REQ()
__CPROVER_assigns(verif_exc)
ENSURES(kernel_is_the_scalar_operation_with_infinity, __CPROVER_return_value == 1)
;
int lemma_evplus_div_kernel(const struct edge_value *av, node_handle ap, const struct edge_value *bv, node_handle bp)
EVP_REQ()
__CPROVER_assigns(verif_exc)
ENSURES(kernel_is_the_scalar_operation_with_infinity, __CPROVER_return_value == 1)
;
int lemma_evplus_mod_kernel(const struct edge_value *av, node_handle ap, const struct edge_value *bv, node_handle bp)
EVP_REQ()
__CPROVER_assigns(verif_exc)
ENSURES(kernel_is_the_scalar_operation_with_infinity, __CPROVER_return_value == 1)
;
int lemma_evplus_div_shortcuts(struct forest *f1, struct forest *f2, const struct edge_value *av, node_handle ap, const struct edge_value *bv, node_handle bp)
EVP_REQ()
__CPROVER_requires(__CPROVER_is_fresh(f1, sizeof(*f1)) && __CPROVER_is_fresh(f2, sizeof(*f2)))
__CPROVER_assigns(verif_exc)
ENSURES(first_argument_shortcut_is_sound, (__CPROVER_return_value & 1) != 0)
ENSURES(second_argument_shortcut_is_sound, (__CPROVER_return_value & 2) != 0)
ENSURES(equal_arguments_shortcut_is_sound, (__CPROVER_return_value & 4) != 0)
;
int lemma_evplus_mod_shortcuts(struct forest *f1, struct forest *f2, const struct edge_value *av, node_handle ap, const struct edge_value *bv, node_handle bp)
EVP_REQ()
__CPROVER_requires(__CPROVER_is_fresh(f1, sizeof(*f1)) && __CPROVER_is_fresh(f2, sizeof(*f2)))
__CPROVER_assigns(verif_exc)
ENSURES(first_argument_shortcut_is_sound, (__CPROVER_return_value & 1) != 0)
ENSURES(second_argument_shortcut_is_sound, (__CPROVER_return_value & 2) != 0)
ENSURES(equal_arguments_shortcut_is_sound, (__CPROVER_return_value & 4) != 0)
;
/* ---- EV+ shortcuts, point-wise with NON-TERMINAL operands -------------------------------------------------
 * An EV+ operand <v, n> denotes: n == OMEGA_INFINITY: infinity everywhere; n == OMEGA_NORMAL: the constant v; n > 0 (a stored node):
 * v + g(x) for the node's function g >= 0 (possibly infinite).  At an arbitrary assignment x the ghosts (d, di) stand for g(x).
 * A shortcut that answers "the result is the first (second) operand" is sound iff, at every assignment, the scalar kernel applied to the
 * operands' values gives the value of that operand (and raises nothing). */
long w_av, w_bv;   /* witnesses: the operands' edge values (for the native replay) */
#define EVPW_REQ() \
    __CPROVER_requires(__CPROVER_is_fresh(av, sizeof(*av)) && __CPROVER_is_fresh(bv, sizeof(*bv)) && av->mytype == edge_type__LONG && bv->mytype == edge_type__LONG) \
    __CPROVER_requires(__CPROVER_is_fresh(f1, sizeof(*f1)) && __CPROVER_is_fresh(f2, sizeof(*f2))) \
    __CPROVER_requires((ap == OMEGA_NORMAL || ap == OMEGA_INFINITY || ap > 0) && (bp == OMEGA_NORMAL || bp == OMEGA_INFINITY || bp > 0) && verif_exc == 0) \
    /* the caller (arith_templ.h compute) consults the shortcuts only after the terminal-terminal case went to the kernel (unless forced by levels in identity-reduced relations: not covered) */ \
    __CPROVER_requires(ap > 0 || bp > 0) \
    __CPROVER_requires(-(1l << 40) < av->ev_long && av->ev_long < (1l << 40) && -(1l << 40) < bv->ev_long && bv->ev_long < (1l << 40) && 0 <= da && da < (1l << 40) && 0 <= db && db < (1l << 40))
int lemma_evplus_mult_shortcuts_pw(struct forest *f1, struct forest *f2, const struct edge_value *av, node_handle ap, const struct edge_value *bv, node_handle bp, long da, _Bool dai, long db, _Bool dbi)
EVPW_REQ()
WITNESS(lemma_evplus_mult_shortcuts_pw, av->ev_long == w_av && bv->ev_long == w_bv)
__CPROVER_assigns(verif_exc)
ENSURES(first_argument_shortcut_is_pointwise_sound, (__CPROVER_return_value & 1) != 0)
ENSURES(second_argument_shortcut_is_pointwise_sound, (__CPROVER_return_value & 2) != 0)
;
int lemma_evplus_div_shortcuts_pw(struct forest *f1, struct forest *f2, const struct edge_value *av, node_handle ap, const struct edge_value *bv, node_handle bp, long da, _Bool dai, long db, _Bool dbi)
EVPW_REQ()
WITNESS(lemma_evplus_div_shortcuts_pw, av->ev_long == w_av && bv->ev_long == w_bv)
__CPROVER_assigns(verif_exc)
ENSURES(first_argument_shortcut_is_pointwise_sound, (__CPROVER_return_value & 1) != 0)
ENSURES(second_argument_shortcut_is_pointwise_sound, (__CPROVER_return_value & 2) != 0)
;
int lemma_evplus_mod_shortcuts_pw(struct forest *f1, struct forest *f2, const struct edge_value *av, node_handle ap, const struct edge_value *bv, node_handle bp, long da, _Bool dai, long db, _Bool dbi)
EVPW_REQ()
WITNESS(lemma_evplus_mod_shortcuts_pw, av->ev_long == w_av && bv->ev_long == w_bv)
__CPROVER_assigns(verif_exc)
ENSURES(first_argument_shortcut_is_pointwise_sound, (__CPROVER_return_value & 1) != 0)
ENSURES(second_argument_shortcut_is_pointwise_sound, (__CPROVER_return_value & 2) != 0)
;

/* ---- MT shortcuts, point-wise with NON-TERMINAL operands ------------------------------------------------------
 * a node handle > 0 is a stored node; at an arbitrary assignment its function takes the value of the ghost terminal handle (pa, pb).
 * A shortcut that answers "the result is the first (second) operand" is sound iff the kernel applied to the operands' values at that
 * assignment gives the value of that operand there, and raises nothing. */
#define MTPW_REQ() \
    __CPROVER_requires(__CPROVER_is_fresh(fa, sizeof(*fa)) && __CPROVER_is_fresh(fb, sizeof(*fb)) && __CPROVER_is_fresh(fc, sizeof(*fc))) \
    __CPROVER_requires(fa->the_terminal_type == terminal_type__INTEGER && fb->the_terminal_type == terminal_type__INTEGER && fc->the_terminal_type == terminal_type__INTEGER) \
    __CPROVER_requires(a != INT_MIN && b != INT_MIN && pa <= 0 && pb <= 0 && pa != INT_MIN && pb != INT_MIN && verif_exc == 0) \
    /* the caller consults the shortcuts only after the terminal-terminal case went to the kernel */ \
    __CPROVER_requires(a > 0 || b > 0)
int lemma_mt_plus_shortcuts_pw(struct forest *fa, struct forest *fb, struct forest *fc, node_handle a, node_handle b, node_handle pa, node_handle pb)
MTPW_REQ()
__CPROVER_assigns(verif_exc)
ENSURES(first_argument_shortcut_is_pointwise_sound, (__CPROVER_return_value & 1) != 0)
ENSURES(second_argument_shortcut_is_pointwise_sound, (__CPROVER_return_value & 2) != 0)
;
int lemma_mt_minus_shortcuts_pw(struct forest *fa, struct forest *fb, struct forest *fc, node_handle a, node_handle b, node_handle pa, node_handle pb)
MTPW_REQ()
__CPROVER_assigns(verif_exc)
ENSURES(first_argument_shortcut_is_pointwise_sound, (__CPROVER_return_value & 1) != 0)
ENSURES(second_argument_shortcut_is_pointwise_sound, (__CPROVER_return_value & 2) != 0)
;
int lemma_mt_mult_shortcuts_pw(struct forest *fa, struct forest *fb, struct forest *fc, node_handle a, node_handle b, node_handle pa, node_handle pb)
MTPW_REQ()
__CPROVER_assigns(verif_exc)
ENSURES(first_argument_shortcut_is_pointwise_sound, (__CPROVER_return_value & 1) != 0)
ENSURES(second_argument_shortcut_is_pointwise_sound, (__CPROVER_return_value & 2) != 0)
;
int lemma_mt_div_shortcuts_pw(struct forest *fa, struct forest *fb, struct forest *fc, node_handle a, node_handle b, node_handle pa, node_handle pb)
MTPW_REQ()
__CPROVER_assigns(verif_exc)
ENSURES(first_argument_shortcut_is_pointwise_sound, (__CPROVER_return_value & 1) != 0)
ENSURES(second_argument_shortcut_is_pointwise_sound, (__CPROVER_return_value & 2) != 0)
;
int lemma_mt_mod_shortcuts_pw(struct forest *fa, struct forest *fb, struct forest *fc, node_handle a, node_handle b, node_handle pa, node_handle pb)
MTPW_REQ()
__CPROVER_assigns(verif_exc)
ENSURES(first_argument_shortcut_is_pointwise_sound, (__CPROVER_return_value & 1) != 0)
ENSURES(second_argument_shortcut_is_pointwise_sound, (__CPROVER_return_value & 2) != 0)
;
int lemma_mt_max_shortcuts_pw(struct forest *fa, struct forest *fb, struct forest *fc, node_handle a, node_handle b, node_handle pa, node_handle pb)
MTPW_REQ()
__CPROVER_assigns(verif_exc)
ENSURES(first_argument_shortcut_is_pointwise_sound, (__CPROVER_return_value & 1) != 0)
ENSURES(second_argument_shortcut_is_pointwise_sound, (__CPROVER_return_value & 2) != 0)
;
int lemma_mt_min_shortcuts_pw(struct forest *fa, struct forest *fb, struct forest *fc, node_handle a, node_handle b, node_handle pa, node_handle pb)
MTPW_REQ()
__CPROVER_assigns(verif_exc)
ENSURES(first_argument_shortcut_is_pointwise_sound, (__CPROVER_return_value & 1) != 0)
ENSURES(second_argument_shortcut_is_pointwise_sound, (__CPROVER_return_value & 2) != 0)
;

/* ---- EV+ max / min (arith_pushdn interface) and plus / minus (arith_factor interface) ------------------------------------ */
int lemma_evplus_max_kernel(const struct edge_value *av, node_handle ap, const struct edge_value *bv, node_handle bp)
EVP_REQ()
__CPROVER_assigns(verif_exc)
ENSURES(kernel_is_the_scalar_operation_with_infinity, __CPROVER_return_value == 1)
;
int lemma_evplus_max_shortcuts_pw(struct forest *f1, struct forest *f2, const struct edge_value *av, node_handle ap, const struct edge_value *bv, node_handle bp, long da, _Bool dai, long db, _Bool dbi)
EVPW_REQ()
__CPROVER_assigns(verif_exc)
ENSURES(first_argument_shortcut_is_pointwise_sound, (__CPROVER_return_value & 1) != 0)
ENSURES(second_argument_shortcut_is_pointwise_sound, (__CPROVER_return_value & 2) != 0)
ENSURES(equal_arguments_shortcut_is_pointwise_sound, (__CPROVER_return_value & 4) != 0)
;
int lemma_evplus_min_kernel(const struct edge_value *av, node_handle ap, const struct edge_value *bv, node_handle bp)
EVP_REQ()
__CPROVER_assigns(verif_exc)
ENSURES(kernel_is_the_scalar_operation_with_infinity, __CPROVER_return_value == 1)
;
int lemma_evplus_min_shortcuts_pw(struct forest *f1, struct forest *f2, const struct edge_value *av, node_handle ap, const struct edge_value *bv, node_handle bp, long da, _Bool dai, long db, _Bool dbi)
EVPW_REQ()
__CPROVER_assigns(verif_exc)
ENSURES(first_argument_shortcut_is_pointwise_sound, (__CPROVER_return_value & 1) != 0)
ENSURES(second_argument_shortcut_is_pointwise_sound, (__CPROVER_return_value & 2) != 0)
ENSURES(equal_arguments_shortcut_is_pointwise_sound, (__CPROVER_return_value & 4) != 0)
;
/* node-level operands of the factored interface: OMEGA_INFINITY, OMEGA_NORMAL (the constant 0 after factoring) or a stored node whose function at an
 * arbitrary assignment is the ghost (d, di), d >= 0 */
#define EVF_REQ() \
    __CPROVER_requires(__CPROVER_is_fresh(fa, sizeof(*fa)) && __CPROVER_is_fresh(fb, sizeof(*fb)) && __CPROVER_is_fresh(fc, sizeof(*fc))) \
    __CPROVER_requires((a == OMEGA_NORMAL || a == OMEGA_INFINITY || a > 0) && (b == OMEGA_NORMAL || b == OMEGA_INFINITY || b > 0) && verif_exc == 0) \
    __CPROVER_requires(0 <= da && da < (1l << 40) && 0 <= db && db < (1l << 40))
int lemma_evplus_plus_kernel(struct forest *fa, struct forest *fb, struct forest *fc, node_handle a, node_handle b, const struct edge_value *av, const struct edge_value *bv)
__CPROVER_requires(__CPROVER_is_fresh(fa, sizeof(*fa)) && __CPROVER_is_fresh(fb, sizeof(*fb)) && __CPROVER_is_fresh(fc, sizeof(*fc)))
__CPROVER_requires(__CPROVER_is_fresh(av, sizeof(*av)) && __CPROVER_is_fresh(bv, sizeof(*bv)) && av->mytype == edge_type__LONG && bv->mytype == edge_type__LONG)
__CPROVER_requires((a == OMEGA_NORMAL || a == OMEGA_INFINITY) && (b == OMEGA_NORMAL || b == OMEGA_INFINITY) && verif_exc == 0)
__CPROVER_assigns(verif_exc)
ENSURES(kernel_is_the_scalar_operation_with_infinity, __CPROVER_return_value == 1)
;
int lemma_evplus_plus_shortcuts_pw(struct forest *fa, struct forest *fb, struct forest *fc, node_handle a, node_handle b, long da, _Bool dai, long db, _Bool dbi)
EVF_REQ()
__CPROVER_requires(a > 0 || b > 0)        /* two terminals go to the kernel first */
__CPROVER_assigns(verif_exc)
ENSURES(first_argument_shortcut_is_pointwise_sound, (__CPROVER_return_value & 1) != 0)
ENSURES(second_argument_shortcut_is_pointwise_sound, (__CPROVER_return_value & 2) != 0)
ENSURES(equal_arguments_shortcut_is_pointwise_sound, (__CPROVER_return_value & 4) != 0)
;
int lemma_evplus_minus_kernel(struct forest *fa, struct forest *fb, struct forest *fc, node_handle a, node_handle b, const struct edge_value *av, const struct edge_value *bv)
__CPROVER_requires(__CPROVER_is_fresh(fa, sizeof(*fa)) && __CPROVER_is_fresh(fb, sizeof(*fb)) && __CPROVER_is_fresh(fc, sizeof(*fc)))
__CPROVER_requires(__CPROVER_is_fresh(av, sizeof(*av)) && __CPROVER_is_fresh(bv, sizeof(*bv)) && av->mytype == edge_type__LONG && bv->mytype == edge_type__LONG)
__CPROVER_requires((a == OMEGA_NORMAL || a == OMEGA_INFINITY) && (b == OMEGA_NORMAL || b == OMEGA_INFINITY) && verif_exc == 0)
__CPROVER_assigns(verif_exc)
ENSURES(kernel_is_the_scalar_operation_with_infinity, __CPROVER_return_value == 1)
;
int lemma_evplus_minus_shortcuts_pw(struct forest *fa, struct forest *fb, struct forest *fc, node_handle a, node_handle b, long da, _Bool dai, long db, _Bool dbi)
EVF_REQ()
__CPROVER_requires(a > 0 || b > 0)        /* two terminals go to the kernel first */
__CPROVER_assigns(verif_exc)
ENSURES(first_argument_shortcut_is_pointwise_sound, (__CPROVER_return_value & 1) != 0)
ENSURES(second_argument_shortcut_is_pointwise_sound, (__CPROVER_return_value & 2) != 0)
ENSURES(equal_arguments_shortcut_is_pointwise_sound, (__CPROVER_return_value & 4) != 0)
;

/* ---- EV* DIVIDE (factored interface): node-level operands are OMEGA_ZERO (the zero function), OMEGA_NORMAL (the constant 1 after factoring) or a stored
 * node whose function at an arbitrary assignment is the ghost float d (finite, possibly 0) ----------------------------------------------- */
int lemma_evstar_div_kernel(struct forest *fa, struct forest *fb, struct forest *fc, node_handle a, node_handle b, const struct edge_value *av, const struct edge_value *bv)
__CPROVER_requires(__CPROVER_is_fresh(fa, sizeof(*fa)) && __CPROVER_is_fresh(fb, sizeof(*fb)) && __CPROVER_is_fresh(fc, sizeof(*fc)))
__CPROVER_requires(__CPROVER_is_fresh(av, sizeof(*av)) && __CPROVER_is_fresh(bv, sizeof(*bv)) && av->mytype == edge_type__FLOAT && bv->mytype == edge_type__FLOAT)
__CPROVER_requires(-1e30f < av->ev_float && av->ev_float < 1e30f && -1e30f < bv->ev_float && bv->ev_float < 1e30f)     /* finite, no NaNs */
__CPROVER_requires((a == OMEGA_NORMAL || a == OMEGA_ZERO) && (b == OMEGA_NORMAL || b == OMEGA_ZERO) && verif_exc == 0)
__CPROVER_assigns(verif_exc)
ENSURES(kernel_rejects_zero_divisors_and_only_those, __CPROVER_return_value == 1)
;
int lemma_evstar_div_shortcuts_pw(struct forest *fa, struct forest *fb, struct forest *fc, node_handle a, node_handle b, float da, float db)
__CPROVER_requires(__CPROVER_is_fresh(fa, sizeof(*fa)) && __CPROVER_is_fresh(fb, sizeof(*fb)) && __CPROVER_is_fresh(fc, sizeof(*fc)))
__CPROVER_requires((a == OMEGA_NORMAL || a == OMEGA_ZERO || a > 0) && (b == OMEGA_NORMAL || b == OMEGA_ZERO || b > 0) && verif_exc == 0)
__CPROVER_requires(a > 0 || b > 0)        /* two terminals go to the kernel first */
__CPROVER_requires(da == da && db == db && -1e30f < da && da < 1e30f && -1e30f < db && db < 1e30f)
__CPROVER_assigns(verif_exc)
ENSURES(first_argument_shortcut_is_pointwise_sound, (__CPROVER_return_value & 1) != 0)
ENSURES(second_argument_shortcut_is_pointwise_sound, (__CPROVER_return_value & 2) != 0)
ENSURES(equal_arguments_shortcut_is_pointwise_sound, (__CPROVER_return_value & 4) != 0)
;
