// Native replay for U-arith: apply the operation to the two constant functions through the public API.
#include "src/meddly.h"
#include "replay_util.h"
using namespace MEDDLY;
static long dec(int h) { terminal t(terminal_type::INTEGER, h); return t.getInteger(); }
int main(int argc, char** argv)
{
    replay_args a(argc, argv);
    int ha = (int)a.i("w_a"), hb = (int)a.i("w_b");
    long av = dec(ha), bv = dec(hb);
    std::string op = a.job.substr(3, a.job.find('_', 3) - 3);     // mt_<op>_kernel / mt_<op>_shortcuts
    bool eqargs = (a.obligation == "equal_arguments_shortcut_is_sound");
    if (eqargs) bv = av;
    initialize();
    int bounds[] = {2, 2};
    domain* d = domain::createBottomUp(bounds, 2);
    forest* f = forest::create(d, SET, range_type::INTEGER, edge_labeling::MULTI_TERMINAL);
    dd_edge ea(f), eb(f), ec(f);
    f->createConstant(av, ea); f->createConstant(bv, eb);
    binary_builtin0 which = nullptr;
    if (op == "plus") which = PLUS; else if (op == "minus") which = MINUS; else if (op == "mult") which = MULTIPLY;
    else if (op == "div") which = DIVIDE; else if (op == "mod") which = MODULO; else if (op == "max") which = MAXIMUM; else if (op == "min") which = MINIMUM;
    if (!which) { printf("unknown operation %s\n", op.c_str()); return 2; }
    bool threw = false; std::string code;
    try { if (eqargs) apply(which, ea, ea, ec); else apply(which, ea, eb, ec); } catch (error e) { threw = true; code = e.getName(); }
    long got = 0;
    if (!threw) { minterm m(d, SET); m.setVar(1, 0); m.setVar(2, 0); rangeval v; ec.evaluate(m, v); got = long(v); }
    printf("%s(%ld, %ld): %s %s%ld\n", op.c_str(), av, bv, threw ? "raised" : "returned", threw ? code.c_str() : "", threw ? 0L : got);
    bool divlike = (op == "div" || op == "mod");
    if (divlike && bv == 0) { REPRO(!threw, "no DIVIDE_BY_ZERO for a zero divisor: a value was returned"); NOREPRO(); }
    long want = op == "plus" ? av + bv : op == "minus" ? av - bv : op == "mult" ? av * bv : op == "div" ? av / bv : op == "mod" ? av % bv : op == "max" ? (av > bv ? av : bv) : (av < bv ? av : bv);
    bool fits = want >= -1073741824L && want <= 1073741823L;
    REPRO(fits && threw, "raised %s although the result %ld is representable", code.c_str(), want);
    REPRO(fits && got != want, "returned %ld, the scalar operation gives %ld", got, want);
    REPRO(!fits && !threw, "result %ld does not fit a terminal but no error was raised", want);
    NOREPRO();
}
