// Native replay for U-arith: apply the operation to the two constant functions through the public API.
#include "src/meddly.h"
#include "replay_util.h"
using namespace MEDDLY;
static long dec(int h) { terminal t(terminal_type::INTEGER, h); return t.getInteger(); }
// ---- EV+ shortcuts with non-terminal operands: op(A, B) at a point must equal op(const A(point), const B(point)) ----
struct pval { bool inf; long v; };
static void evp_build(forest* f, int node, long v, long d, bool di, int var, dd_edge &e, pval &at1)
{   // node -1: constant v; 0: infinity; > 0: v + g(x_var) with g(0) = 0, g(1) = d (or infinity)
    minterm_coll mtl(4, f);
    for (int x1 = 0; x1 < 2; x1++) for (int x2 = 0; x2 < 2; x2++) {
        minterm &m = mtl.unused(); m.setVar(1, x1); m.setVar(2, x2);
        int x = (var == 1) ? x1 : x2;
        pval p; if (node == 0) { p.inf = true; p.v = 0; } else if (node < 0) { p.inf = false; p.v = v; } else if (x == 0) { p.inf = false; p.v = v; } else { p.inf = di; p.v = v + d; }
        if (x1 == 1 && x2 == 1) at1 = p;
        if (p.inf) m.setValue(rangeval(range_special::PLUS_INFINITY, range_type::INTEGER)); else m.setValue(rangeval(p.v));
        mtl.pushUnused();
    }
    mtl.buildFunctionMin(rangeval(range_special::PLUS_INFINITY, range_type::INTEGER), e);
}
static std::string evp_at(dd_edge &e, forest* f, int x1, int x2)
{
    minterm m(f); m.setVar(1, x1); m.setVar(2, x2); rangeval v; e.evaluate(m, v);
    return v.isPlusInfinity() ? std::string("infinity") : std::to_string(long(v));
}
static int replay_evplus_pw(replay_args &a)
{
    std::string op = a.job.substr(7, a.job.find('_', 7) - 7);     // evplus_<op>_shortcuts_pw
    binary_builtin0 which = op == "mult" ? MULTIPLY : op == "div" ? DIVIDE : op == "mod" ? MODULO : op == "plus" ? PLUS : op == "minus" ? MINUS : op == "max" ? MAXIMUM : op == "min" ? MINIMUM : nullptr;
    const bool factored = (op == "plus" || op == "minus");      // node-level lemma: the edge values are factored out (0 here)
    const bool eqargs = (a.obligation == "equal_arguments_shortcut_is_pointwise_sound");
    if (!which) { printf("unknown operation %s\n", op.c_str()); return 2; }
    initialize();
    int bounds[] = {2, 2};
    domain* d = domain::createBottomUp(bounds, 2);
    policies p; p.useDefaults(SET); p.setFullyReduced();
    forest* f = forest::create(d, SET, range_type::INTEGER, edge_labeling::EVPLUS, p);
    dd_edge A(f), B(f), C(f), PA(f), PB(f), PC(f); pval pa, pb, dummy;
    if (factored) {
        evp_build(f, (int)a.i("w_a"), 0, a.i("w_da"), a.i("w_dai") != 0, 1, A, pa);
        evp_build(f, (int)a.i("w_b"), 0, a.i("w_db"), a.i("w_dbi") != 0, 2, B, pb);
    } else {
        evp_build(f, (int)a.i("w_ap"), a.i("w_av"), a.i("w_da"), a.i("w_dai") != 0, 1, A, pa);
        evp_build(f, (int)a.i("w_bp"), a.i("w_bv"), a.i("w_db"), a.i("w_dbi") != 0, 2, B, pb);
    }
    if (eqargs) { B = A; pb = pa; }                              // op(x, x)
    evp_build(f, pa.inf ? 0 : -1, pa.v, 0, false, 1, PA, dummy);          // the constants A(1,1) and B(1,1)
    evp_build(f, pb.inf ? 0 : -1, pb.v, 0, false, 2, PB, dummy);
    std::string got, want;
    try { apply(which, A, B, C); got = evp_at(C, f, 1, 1); } catch (error e) { got = std::string("error ") + e.getName(); }
    try { apply(which, PA, PB, PC); want = evp_at(PC, f, 1, 1); } catch (error e) { want = std::string("error ") + e.getName(); }
    printf("%s at (1,1): A=%s B=%s: functions give %s, the constants A(1,1) and B(1,1) give %s\n", op.c_str(), evp_at(A, f, 1, 1).c_str(), evp_at(B, f, 1, 1).c_str(), got.c_str(), want.c_str());
    REPRO(got != want, "the result at an assignment depends on how the operands are represented: %s vs %s", got.c_str(), want.c_str());
    NOREPRO();
}
// ---- MT shortcuts with non-terminal operands: op(A, B) at a point must equal op(const A(point), const B(point)) ----
static void mt_build(forest* f, int h, int ph, int var, dd_edge &e, long &at1)
{   // h <= 0: the constant dec(h); h > 0: a function of x_var with value dec(ph) at x_var = 1 and a different value at 0
    long v1 = h > 0 ? dec(ph) : dec(h), v0 = h > 0 ? (v1 == 7 ? 8 : 7) : v1;
    at1 = v1;
    minterm_coll mtl(4, f);
    for (int x1 = 0; x1 < 2; x1++) for (int x2 = 0; x2 < 2; x2++) {
        minterm &m = mtl.unused(); m.setVar(1, x1); m.setVar(2, x2);
        m.setValue(rangeval(((var == 1 ? x1 : x2) == 1) ? v1 : v0));
        mtl.pushUnused();
    }
    mtl.buildFunctionMax(rangeval(-1073741824L), e);
}
static std::string mt_at(dd_edge &e, forest* f, int x1, int x2) { minterm m(f); m.setVar(1, x1); m.setVar(2, x2); rangeval v; e.evaluate(m, v); return std::to_string(long(v)); }
static int replay_mt_pw(replay_args &a)
{
    std::string op = a.job.substr(3, a.job.find('_', 3) - 3);
    binary_builtin0 which = op == "plus" ? PLUS : op == "minus" ? MINUS : op == "mult" ? MULTIPLY : op == "div" ? DIVIDE : op == "mod" ? MODULO : op == "max" ? MAXIMUM : op == "min" ? MINIMUM : nullptr;
    if (!which) { printf("unknown operation %s\n", op.c_str()); return 2; }
    initialize();
    int bounds[] = {2, 2};
    domain* d = domain::createBottomUp(bounds, 2);
    forest* f = forest::create(d, SET, range_type::INTEGER, edge_labeling::MULTI_TERMINAL);
    dd_edge A(f), B(f), C(f), PA(f), PB(f), PC(f); long pa, pb, dummy;
    mt_build(f, (int)a.i("w_a"), (int)a.i("w_pa"), 1, A, pa); mt_build(f, (int)a.i("w_b"), (int)a.i("w_pb"), 2, B, pb);
    f->createConstant(pa, PA); f->createConstant(pb, PB);
    std::string got, want;
    try { apply(which, A, B, C); got = mt_at(C, f, 1, 1); } catch (error e) { got = std::string("error ") + e.getName(); }
    try { apply(which, PA, PB, PC); want = mt_at(PC, f, 1, 1); } catch (error e) { want = std::string("error ") + e.getName(); }
    printf("%s at (1,1): A=%ld B=%ld: functions give %s, the constants give %s\n", op.c_str(), pa, pb, got.c_str(), want.c_str());
    REPRO(got != want, "the result at an assignment depends on how the operands are represented: %s vs %s", got.c_str(), want.c_str());
    NOREPRO();
}
int main(int argc, char** argv)
{
    replay_args a(argc, argv);
    if (a.job.compare(0, 7, "evplus_") == 0) return replay_evplus_pw(a);
    if (a.job.size() > 3 && a.job.compare(a.job.size() - 3, 3, "_pw") == 0) return replay_mt_pw(a);
    int ha = (int)a.i("w_a"), hb = (int)a.i("w_b");
    long av = dec(ha), bv = dec(hb);
    std::string op = a.job.substr(3, a.job.find('_', 3) - 3);     // mt_<op>_kernel / mt_<op>_shortcuts
    bool eqargs = (a.obligation == "equal_arguments_shortcut_is_sound");
    if (eqargs) bv = av;
    initialize();
    int bounds[] = {2, 2};
    domain* d = domain::createBottomUp(bounds, 2);
    forest* f = forest::create(d, SET, range_type::INTEGER, edge_labeling::MULTI_TERMINAL);
    dd_edge ea(f), eb(f), ec(f);
    f->createConstant(av, ea); f->createConstant(bv, eb);
    binary_builtin0 which = nullptr;
    if (op == "plus") which = PLUS; else if (op == "minus") which = MINUS; else if (op == "mult") which = MULTIPLY;
    else if (op == "div") which = DIVIDE; else if (op == "mod") which = MODULO; else if (op == "max") which = MAXIMUM; else if (op == "min") which = MINIMUM;
    if (!which) { printf("unknown operation %s\n", op.c_str()); return 2; }
    bool threw = false; std::string code;
    try { if (eqargs) apply(which, ea, ea, ec); else apply(which, ea, eb, ec); } catch (error e) { threw = true; code = e.getName(); }
    long got = 0;
    if (!threw) { minterm m(d, SET); m.setVar(1, 0); m.setVar(2, 0); rangeval v; ec.evaluate(m, v); got = long(v); }
    printf("%s(%ld, %ld): %s %s%ld\n", op.c_str(), av, bv, threw ? "raised" : "returned", threw ? code.c_str() : "", threw ? 0L : got);
    bool divlike = (op == "div" || op == "mod");
    if (divlike && bv == 0) { REPRO(!threw, "no DIVIDE_BY_ZERO for a zero divisor: a value was returned"); NOREPRO(); }
    long want = op == "plus" ? av + bv : op == "minus" ? av - bv : op == "mult" ? av * bv : op == "div" ? av / bv : op == "mod" ? av % bv : op == "max" ? (av > bv ? av : bv) : (av < bv ? av : bv);
    bool fits = want >= -1073741824L && want <= 1073741823L;
    REPRO(fits && threw, "raised %s although the result %ld is representable", code.c_str(), want);
    REPRO(fits && got != want, "returned %ld, the scalar operation gives %ld", got, want);
    REPRO(!fits && !threw, "result %ld does not fit a terminal but no error was raised", want);
    NOREPRO();
}
