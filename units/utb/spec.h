/* Bounded unique-table harness: executable stubs (no contracts). */
#define UT_NODES 3                       /* stored nodes 1..UT_NODES (+1 scratch handle for the node that is added) */
#define UT_CAP   (UT_NODES + 2)
node_handle ut_next[UT_CAP];             /* chain links (forest::getNext / setNext) */
unsigned    ut_hash[UT_CAP];             /* hash of each stored node (forest::hashNode) */
int         ut_content[UT_CAP];          /* content id: two nodes are duplicates iff their ids are equal */
unsigned    ut_key_hash; int ut_key_content;   /* the lookup key (an unpacked node) */
node_handle forest__getNext(const struct forest *f, node_handle p) { __CPROVER_assert(1 <= p && p < UT_CAP, "bounded: link read of a stored node"); return ut_next[p]; }
void forest__setNext(struct forest *f, node_handle p, node_handle n) { __CPROVER_assert(1 <= p && p < UT_CAP, "bounded: link written of a stored node"); ut_next[p] = n; }
_Bool forest__isImplicit(const struct forest *f, node_handle p) { return 0; }
unsigned forest__hashNode(const struct forest *f, node_handle p) { __CPROVER_assert(1 <= p && p < UT_CAP, "bounded: hash of a stored node"); return ut_hash[p]; }
_Bool forest__areDuplicates(const struct forest *f, node_handle p, const struct unpacked_node *key) { __CPROVER_assert(1 <= p && p < UT_CAP, "bounded: comparison with a stored node"); return ut_content[p] == ut_key_content; }
unsigned unpacked_node__hash(const struct unpacked_node *u) { return ut_key_hash; }
