# Bounded stand-in for the unique table (C01: "node creation looks up the unique table before inserting" rests on find / add / remove and on the
# rehash in expand / shrink): the REAL unique_table::subtable methods run on a table of 8 or 16 buckets holding at most UT_NODES nodes whose hash values,
# chain links and contents are symbolic; every loop is UNWOUND.  Labelled bounded, never counted as proved.
UH = 'src/unique_table.h'
UC = 'src/unique_table.cc'
def job(name, props, **kw):
    d = dict(name=name, entry='h_' + name, props=list(props), plain=True, kind='bounded', unwind=18,
             flags=['--no-standard-checks', '--bounds-check', '--pointer-check', '--div-by-zero-check', '--unwinding-assertions'],
             loop_contracts=False, timeout=1800)
    d.update(kw)
    return d
def sf(name, **kw):
    d = dict(cls='subtable', name=name, file=UC, where='out')
    d.update(kw)
    return d
UNIT = {
    'name': 'utb',
    'typedefs': [('src/defines.h', 'node_handle')],
    'consts': [(UH, ['MAX_SIZE', 'MIN_SIZE'])],
    'classes': {
        'forest': {'opaque': True}, 'unpacked_node': {'opaque': True},
        'subtable': {'file': UH, 'fields': ['parent', 'size', 'num_entries', 'next_expand', 'next_shrink', 'table']},
    },
    'subst': {'T': 'unpacked_node'},
    'foreign': {'getNext': {'*': 'forest'}, 'setNext': {'*': 'forest'}, 'isImplicit': {'*': 'forest'}, 'hashNode': {'*': 'forest'}, 'areDuplicates': {'*': 'forest'},
                'hash': {'*': 'unpacked_node'}},
    'text_subst': [
        (r'std::numeric_limits<unsigned int>::max\(\)', 'UINT_MAX', UC),
        (r'static_cast<node_handle\*>\(calloc\(size, sizeof\(node_handle\)\)\)', '(node_handle*)calloc(size, sizeof(node_handle))', UC),
    ],
    'extra_methods': [
        dict(cls='forest', name='getNext', argc=1, cname='forest__getNext'),
        dict(cls='forest', name='setNext', argc=2, cname='forest__setNext'),
        dict(cls='forest', name='isImplicit', argc=1, cname='forest__isImplicit'),
        dict(cls='forest', name='hashNode', argc=1, cname='forest__hashNode'),
        dict(cls='forest', name='areDuplicates', argc=2, cname='forest__areDuplicates'),
        dict(cls='unpacked_node', name='hash', argc=0, cname='unpacked_node__hash'),
    ],
    'ref_params': {'forest__areDuplicates': [2]},
    'functions': [
        dict(cls='subtable', name='find', file=UH),
        sf('add'), sf('remove'), sf('getItems'), sf('convertToList'), sf('buildFromList'), sf('expand'), sf('shrink'),
    ],
    'stubs': ['executable stubs (units/utb/spec.h): the chain links (forest::getNext / setNext) live in a ghost array, forest::hashNode reads a ghost hash per node, '
              'forest::areDuplicates(p, key) compares the ghost content id of node p with the key\'s, realloc is the C library\'s'],
    'assumptions': ['BOUNDED: at most UT_NODES = 3 nodes in a table of 8 or 16 buckets; not counted as proved',
                    'at entry the table is well formed: every node sits in the chain of bucket hash % size, chains are acyclic and end in 0, num_entries counts them'],
    'unverified_surroundings': {'C01': ['unique_table (per-variable dispatch), forest::createReducedNode uses find before add (U-reduce)']},
    'jobs': [
        job('ut_find', ['C01'], defines=['UT_JOB_FIND']),
        job('ut_add', ['C01'], defines=['UT_JOB_ADD']),
        job('ut_remove', ['C01'], defines=['UT_JOB_REMOVE']),
        job('ut_expand', ['C01']),
        job('ut_shrink', ['C01']),
    ],
}
