/* is node p in the chain of bucket b?  (chains have at most UT_CAP elements) */
static _Bool ut_in_chain(const struct subtable *t, unsigned b, node_handle p)
{
    node_handle c = t->table[b];
    for (int k = 0; k < UT_CAP; k++) { if (c == 0) return 0; if (c == p) return 1; c = ut_next[c]; }
    return 0;
}
static unsigned ut_count(const struct subtable *t)
{
    unsigned n = 0;
    for (unsigned b = 0; b < 16; b++) if (b < t->size) { node_handle c = t->table[b]; for (int k = 0; k < UT_CAP; k++) { if (c == 0) break; n++; c = ut_next[c]; } }
    return n;
}
/* a well-formed table of `size` buckets holding the nodes 1..n (n <= UT_NODES), distinct contents */
static void ut_setup(struct subtable *t, unsigned size, unsigned n)
{
    t->parent = (struct forest *)malloc(1); __CPROVER_assume(t->parent != NULL);
    t->size = size; t->table = (node_handle *)calloc(size, sizeof(node_handle)); __CPROVER_assume(t->table != NULL);
    t->num_entries = 0;
    for (node_handle p = 1; p < UT_CAP; p++) { ut_hash[p] = nondet_unsigned(); ut_content[p] = nondet_int(); ut_next[p] = 0; }
    for (node_handle p = 1; p < UT_CAP; p++) for (node_handle q = 1; q < UT_CAP; q++) if (p < q) __CPROVER_assume(ut_content[p] != ut_content[q]);     /* canonical: no duplicates stored */
    for (node_handle p = 1; p <= UT_NODES; p++) if ((unsigned)p <= n) {      /* nodes enter their buckets in a symbolic order: front or back of the chain */
        unsigned b = ut_hash[p] % size;
        if (t->table[b] == 0 || nondet_bool()) { ut_next[p] = t->table[b]; t->table[b] = p; }
        else { node_handle c = t->table[b]; for (int k = 0; k < UT_CAP; k++) { if (ut_next[c] == 0) break; c = ut_next[c]; } ut_next[c] = p; }
        t->num_entries++;
    }
}
#if defined(UT_JOB_FIND) || defined(UT_JOB_ADD) || defined(UT_JOB_REMOVE)
static void ut_afr(void)
{
    struct subtable t; struct unpacked_node *key = (struct unpacked_node *)malloc(1); __CPROVER_assume(key != NULL);
    unsigned n = nondet_unsigned(); __CPROVER_assume(n <= UT_NODES);
    ut_setup(&t, 8, n); t.next_expand = 16; t.next_shrink = 0; verif_exc = 0;
#ifdef UT_JOB_FIND
    /* every stored node is found by a key with its hash and content, and only then */
    ut_key_hash = nondet_unsigned(); ut_key_content = nondet_int();
    node_handle who = 0; for (node_handle p = 1; p <= UT_NODES; p++) if ((unsigned)p <= n && ut_content[p] == ut_key_content && ut_hash[p] == ut_key_hash) who = p;
    _Bool same_bucket_dup = 0; for (node_handle p = 1; p <= UT_NODES; p++) if ((unsigned)p <= n && ut_content[p] == ut_key_content && ut_hash[p] % 8 == ut_key_hash % 8) same_bucket_dup = 1;
    node_handle f = subtable__find(&t, key);
    __CPROVER_assert(who == 0 || f == who, "bounded: a stored node is found by its own hash and content");
    __CPROVER_assert(f == 0 || (ut_content[f] == ut_key_content && (unsigned)f <= n), "bounded: what is found has the content asked for");
    __CPROVER_assert(f != 0 || !same_bucket_dup, "bounded: nothing found means no duplicate in the bucket");
    __CPROVER_assert(ut_count(&t) == n && t.num_entries == n, "bounded: a lookup neither adds nor loses nodes");
    for (node_handle p = 1; p <= UT_NODES; p++) if ((unsigned)p <= n) __CPROVER_assert(ut_in_chain(&t, ut_hash[p] % t.size, p), "bounded: every stored node stays in the chain of its bucket after a lookup");
#endif
#ifdef UT_JOB_ADD
    /* a new node (handle n+1) is added under its hash and is in its chain afterwards; the others stay */
    node_handle nw = (node_handle)n + 1;
    subtable__add(&t, ut_hash[nw], nw);
    __CPROVER_assert(verif_exc == 0 && t.num_entries == n + 1 && ut_count(&t) == n + 1, "bounded: add counts one more node");
    for (node_handle p = 1; p < UT_CAP; p++) if ((unsigned)p <= n + 1) __CPROVER_assert(ut_in_chain(&t, ut_hash[p] % t.size, p), "bounded: after add every node is in the chain of its bucket");
#endif
#ifdef UT_JOB_REMOVE
    /* removing a stored node removes exactly that node */
    __CPROVER_assume(n >= 1);
    node_handle victim = nondet_int(); __CPROVER_assume(1 <= victim && (unsigned)victim <= n);
    node_handle r = subtable__remove(&t, ut_hash[victim], victim);
    __CPROVER_assert(r == victim && t.num_entries == n - 1 && ut_count(&t) == n - 1, "bounded: remove returns the node and counts one less");
    for (node_handle p = 1; p <= UT_NODES; p++) if ((unsigned)p <= n)
        __CPROVER_assert(ut_in_chain(&t, ut_hash[p] % t.size, p) == (p != victim), "bounded: after remove exactly the other nodes are in their chains");
#endif
    CANARY();
}
void h_ut_find(void) { ut_afr(); }
void h_ut_add(void) { ut_afr(); }
void h_ut_remove(void) { ut_afr(); }
#else
static void ut_rehash(_Bool grow)
{
    struct subtable t; unsigned n = nondet_unsigned(); __CPROVER_assume(n <= UT_NODES);
    ut_setup(&t, grow ? 8 : 16, n); t.next_expand = 2 * t.size; t.next_shrink = grow ? 0 : 8; verif_exc = 0;
    if (grow) subtable__expand(&t); else subtable__shrink(&t);
    if (verif_exc) { __CPROVER_assert(verif_exc == ERR_INSUFFICIENT_MEMORY, "bounded: only out-of-memory is raised"); }
    else {
        __CPROVER_assert(t.size == (grow ? 16u : 8u), "bounded: the table doubles / halves");
        __CPROVER_assert(t.num_entries == n && ut_count(&t) == n, "bounded: a rehash neither adds nor loses nodes");
        for (node_handle p = 1; p <= UT_NODES; p++) if ((unsigned)p <= n) __CPROVER_assert(ut_in_chain(&t, ut_hash[p] % t.size, p), "bounded: after a rehash every node is in the chain of its NEW bucket");
        __CPROVER_assert(t.next_shrink < t.size && t.size <= t.next_expand, "bounded: resize thresholds bracket the new size");
    }
    CANARY();
}
void h_ut_expand(void) { ut_rehash(1); }
void h_ut_shrink(void) { ut_rehash(0); }
#endif
