node_address lemma_fl_reuse(struct freelist_manager *m, node_address h, size_t *n)
{
    freelist_manager__recycleChunk(m, h, *n);
    return freelist_manager__requestChunk(m, n);
}
int lemma_fl_address(struct freelist_manager *m, node_address h)
{
    freelist_manager__setChunkBase(m, m->entries);
    return freelist_manager__getChunkAddress(m, h) == (void *)&m->entries[h];
}
void h_fl_requestChunk(void) { struct freelist_manager *m; size_t *n; ghost_g = nondet_size_t(); freelist_manager__requestChunk(m, n); CANARY(); }
void h_fl_recycleChunk(void) { struct freelist_manager *m; node_address w_h = nondet_ulong(); size_t w_n = nondet_size_t(); ghost_g = nondet_size_t(); freelist_manager__recycleChunk(m, w_h, w_n); CANARY(); }
void h_fl_recycle_then_request_reuses(void) { struct freelist_manager *m; node_address w_h = nondet_ulong(); size_t *n; ghost_g = nondet_size_t(); lemma_fl_reuse(m, w_h, n); CANARY(); }
void h_fl_getChunkAddress(void) { struct freelist_manager *m; node_address w_h = nondet_ulong(); lemma_fl_address(m, w_h); CANARY(); }
