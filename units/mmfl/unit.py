F = 'src/memory_managers/freelists.cc'
M = 'src/memory.h'
def job(name, enforce, replace=(), props=('C18',), **kw):
    d = dict(name=name, entry='h_' + name, enforce=enforce, replace=list(replace), props=list(props))
    d.update(kw)
    return d
ST = ['freelist_manager__incMemUsed', 'freelist_manager__decMemUsed', 'freelist_manager__incMemAlloc']
def ff(name, **kw):
    d = dict(cls='freelist_manager', name=name, file=F, where='out')
    d.update(kw)
    return d
UNIT = {
    'name': 'mmfl',
    'typedefs': [('src/defines.h', 'node_address')],
    'subst': {'INT': 'int'},
    'consts': [(F, ['maxEntrySize'])],
    'classes': {
        'freelist_manager': {'file': F, 'bases': ['memory_manager'], 'base_files': {'memory_manager': M},
                             'fields': ['entries', 'entriesSize', 'entriesAlloc', 'freeList', 'chunk_base', 'chunk_multiplier']},
    },
    'text_subst': [
        (r'fprintf\(stderr,[^;]*;', ';', F),
    ],
    'extra_methods': [
        dict(cls='freelist_manager', name='incMemUsed', argc=1, cname='freelist_manager__incMemUsed'),
        dict(cls='freelist_manager', name='decMemUsed', argc=1, cname='freelist_manager__decMemUsed'),
        dict(cls='freelist_manager', name='incMemAlloc', argc=1, cname='freelist_manager__incMemAlloc'),
    ],
    'functions': [
        ff('requestChunk', fires={'R1': 2, 'R9subst': 4}),
        ff('recycleChunk'),
        ff('isValidHandle'),
        dict(cls='freelist_manager', name='setChunkBase', file=M, src_cls='memory_manager'),
        dict(cls='freelist_manager', name='getChunkAddress', file=M, src_cls='memory_manager'),
    ],
    'stubs': ['memory_manager::incMemUsed/decMemUsed/incMemAlloc: statistics only',
              'fprintf(stderr, ...) diagnostics are dropped (text_subst, must fire twice)'],
    'assumptions': ['free-list shape (local footprint): the head of the list for the requested size is 0 or a recycled chunk of that size inside the arena',
                    'INT = int instantiation in the quick tier; long in the thorough tier'],
    'unverified_surroundings': {'C18': ['orig_grid.cc, heap_manager.cc (tree/heap of holes)', 'malloc_style.cc (delegates to malloc)',
                                        'whole-history disjointness of live chunks: follows from the per-call contracts only by an induction over the history that is not machine-checked']},
    'jobs': [
        job('fl_requestChunk', 'freelist_manager__requestChunk', ST),
        job('fl_recycleChunk', 'freelist_manager__recycleChunk', ST),
        job('fl_recycle_then_request_reuses', 'lemma_fl_reuse', ST + ['freelist_manager__requestChunk', 'freelist_manager__recycleChunk']),
        job('fl_getChunkAddress', 'lemma_fl_address', []),
    ],
}
