/* U-mm (free lists): freelist_manager<int> (C18) */
#define FL_MAXALLOC (1 << 28)
size_t ghost_g;
void freelist_manager__incMemUsed(struct freelist_manager *m, size_t b) __CPROVER_requires(1) __CPROVER_assigns() __CPROVER_ensures(1);
void freelist_manager__decMemUsed(struct freelist_manager *m, size_t b) __CPROVER_requires(1) __CPROVER_assigns() __CPROVER_ensures(1);
void freelist_manager__incMemAlloc(struct freelist_manager *m, size_t b) __CPROVER_requires(1) __CPROVER_assigns() __CPROVER_ensures(1);

#define FL_REQ(m) \
    __CPROVER_requires(__CPROVER_is_fresh(m, sizeof(*(m)))) \
    __CPROVER_requires(1024 <= (m)->entriesAlloc && (m)->entriesAlloc <= FL_MAXALLOC && 1 <= (m)->entriesSize && (m)->entriesSize <= (m)->entriesAlloc) \
    __CPROVER_requires(__CPROVER_is_fresh((m)->entries, (size_t)(m)->entriesAlloc * sizeof(int))) \
    __CPROVER_requires(__CPROVER_is_fresh((m)->freeList, (1 + maxEntrySize) * sizeof(int))) \
    __CPROVER_requires(verif_exc == 0)

node_address freelist_manager__requestChunk(struct freelist_manager *self, size_t *numSlots)
FL_REQ(self)
__CPROVER_requires(__CPROVER_is_fresh(numSlots, sizeof(size_t)) && ghost_g < (size_t)self->entriesSize)
/* free-list shape at the head that may be popped */
__CPROVER_requires(*numSlots > maxEntrySize || (0 <= self->freeList[*numSlots] && self->freeList[*numSlots] < self->entriesSize))
__CPROVER_assigns(verif_exc, self->entries, self->entriesAlloc, self->entriesSize, self->chunk_base, __CPROVER_object_whole(self->freeList))
__CPROVER_frees(self->entries)
ENSURES(oversized_request_rejected, (verif_exc == ERR_MISCELLANEOUS) == (*numSlots > maxEntrySize))
ENSURES(only_documented_errors, verif_exc == 0 || verif_exc == ERR_MISCELLANEOUS || verif_exc == ERR_INSUFFICIENT_MEMORY)
ENSURES(chunk_is_as_large_as_requested, *numSlots == __CPROVER_old(*numSlots))
ENSURES(empty_request_gives_nothing, verif_exc != 0 || __CPROVER_old(*numSlots) >= 1 || (__CPROVER_return_value == 0 && self->entriesSize == __CPROVER_old(self->entriesSize)))
ENSURES(recycled_chunk_reused_first, verif_exc != 0 || *numSlots < 1 || __CPROVER_old(self->freeList[*numSlots]) == 0 ||
        (__CPROVER_return_value == (node_address)__CPROVER_old(self->freeList[*numSlots]) && self->entriesSize == __CPROVER_old(self->entriesSize)))
ENSURES(reuse_cannot_fail, *numSlots < 1 || *numSlots > maxEntrySize || __CPROVER_old(self->freeList[*numSlots]) == 0 || verif_exc == 0)
ENSURES(reuse_pops_the_list_head, verif_exc != 0 || *numSlots < 1 || __CPROVER_old(self->freeList[*numSlots]) == 0 || self->freeList[*numSlots] == __CPROVER_old(self->entries[self->freeList[*numSlots]]))
ENSURES(fresh_chunk_lies_above_everything_handed_out, verif_exc != 0 || *numSlots < 1 || __CPROVER_old(self->freeList[*numSlots]) != 0 ||
        (__CPROVER_return_value == (node_address)__CPROVER_old(self->entriesSize) && self->entriesSize == __CPROVER_old(self->entriesSize) + (int)*numSlots && self->entriesSize <= self->entriesAlloc))
ENSURES(arena_only_grows, verif_exc != 0 || self->entriesAlloc >= __CPROVER_old(self->entriesAlloc))
;

void freelist_manager__recycleChunk(struct freelist_manager *self, node_address h, size_t numSlots)
FL_REQ(self)
__CPROVER_requires(1 <= numSlots && numSlots <= maxEntrySize && 1 <= h && h < (size_t)self->entriesSize && h + numSlots <= (size_t)self->entriesSize && ghost_g < (size_t)self->entriesSize)
__CPROVER_assigns(self->entries[h], self->freeList[numSlots])
ENSURES(pushed_on_the_list_of_its_size, self->freeList[numSlots] == (int)h && self->entries[h] == __CPROVER_old(self->freeList[numSlots]))
ENSURES(other_slots_untouched, ghost_g == h || self->entries[ghost_g] == __CPROVER_old(self->entries[ghost_g]))
;

/* a recycled chunk is what the next request of that size gets: memory is handed out again only after it was recycled */
node_address lemma_fl_reuse(struct freelist_manager *m, node_address h, size_t *n)
FL_REQ(m)
__CPROVER_requires(__CPROVER_is_fresh(n, sizeof(size_t)) && 1 <= *n && *n <= maxEntrySize && 1 <= h && h < (size_t)m->entriesSize && h + *n <= (size_t)m->entriesSize && ghost_g < (size_t)m->entriesSize)
__CPROVER_assigns(verif_exc, m->entries, m->entriesAlloc, m->entriesSize, m->chunk_base, __CPROVER_object_whole(m->freeList), __CPROVER_object_whole(m->entries))
__CPROVER_frees(m->entries)
ENSURES(reuse_returns_the_recycled_chunk, verif_exc == 0 && __CPROVER_return_value == h)
ENSURES(list_is_back_to_its_old_head, m->freeList[*n] == __CPROVER_old(m->freeList[*n]))
;

int lemma_fl_address(struct freelist_manager *m, node_address h)
__CPROVER_requires(__CPROVER_is_fresh(m, sizeof(*m)) && m->chunk_multiplier == sizeof(int) && 1024 <= m->entriesAlloc && m->entriesAlloc <= FL_MAXALLOC && h < (size_t)m->entriesAlloc)
__CPROVER_requires(__CPROVER_is_fresh(m->entries, (size_t)m->entriesAlloc * sizeof(int)))
__CPROVER_assigns(m->chunk_base)
ENSURES(handle_addresses_its_first_slot, __CPROVER_return_value == 1)
;
