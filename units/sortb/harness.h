static void sb_sort(void)
{
    struct unpacked_node u; node_handle dn[SB_N], dn0[SB_N]; unsigned ix[SB_N], ix0[SB_N]; struct edge_value ev[SB_N], ev0[SB_N];
    u._down = dn; u._index = ix; u.is_full = 0;
    u.size = nondet_unsigned(); __CPROVER_assume(u.size <= SB_N);
#ifdef SB_EV
    u._edge = ev;
#else
    u._edge = NULL;                       /* multi-terminal forests have no edge values (unpacked_node.cc: _edge stays null) */
#endif
    for (unsigned z = 0; z < SB_N; z++) { dn[z] = nondet_int(); ix[z] = nondet_unsigned(); ev[z].mytype = edge_type__LONG; ev[z].ev_long = nondet_long();
        __CPROVER_assume(ix[z] < SB_MAXIDX); dn0[z] = dn[z]; ix0[z] = ix[z]; ev0[z] = ev[z]; }
    _Bool distinct = 1;
    for (unsigned a = 0; a < SB_N; a++) for (unsigned b = 0; b < SB_N; b++) if (a < b && b < u.size && ix[a] == ix[b]) distinct = 0;
    verif_exc = 0;
    unpacked_node__sort(&u);
    if (!distinct) { __CPROVER_assert(verif_exc == ERR_MISCELLANEOUS || u.size < 2, "bounded: a repeated index is reported"); }
    else {
        __CPROVER_assert(verif_exc == 0, "bounded: distinct indexes sort without an error");
        for (unsigned z = 1; z < SB_N; z++) if (z < u.size) __CPROVER_assert(ix[z - 1] < ix[z], "bounded: the node is sorted by index afterwards");
        /* the node still denotes the same function: every (index, child, value) entry is kept */
        for (unsigned a = 0; a < SB_N; a++) if (a < u.size) {
            _Bool kept = 0;
            for (unsigned z = 0; z < SB_N; z++) if (z < u.size && ix[z] == ix0[a] && dn[z] == dn0[a]
#ifdef SB_EV
                && ev[z].ev_long == ev0[a].ev_long
#endif
                ) kept = 1;
            __CPROVER_assert(kept, "bounded: sorting keeps every entry with its child (and value)");
        }
    }
    CANARY();
}
void h_sort_mt(void) { sb_sort(); }
void h_sort_ev(void) { sb_sort(); }
void h_sort_mt_4(void) { sb_sort(); }
void h_sort_ev_4(void) { sb_sort(); }
