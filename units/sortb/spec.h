/* bounded harness for unpacked_node::sort */
/* operator new[] throws std::bad_alloc on failure: the path ends (not a MEDDLY error).  The block has EXACTLY n elements (so an access at n is out of bounds);
   the size is case-split into constants because CBMC turns a heap object of symbolic size into a byte array that does not solve */
#undef VERIF_NEW_ARRAY
#define VERIF_ALLOC_K(T, k) (T *)malloc(sizeof(T) * (k))
#define VERIF_NEW_ARRAY(T, n) ({ size_t verif_n_ = (size_t)(n); T *verif_p_ = \
    verif_n_ == 0 ? VERIF_ALLOC_K(T, 0) : verif_n_ == 1 ? VERIF_ALLOC_K(T, 1) : verif_n_ == 2 ? VERIF_ALLOC_K(T, 2) : verif_n_ == 3 ? VERIF_ALLOC_K(T, 3) : \
    verif_n_ == 4 ? VERIF_ALLOC_K(T, 4) : verif_n_ == 5 ? VERIF_ALLOC_K(T, 5) : verif_n_ == 6 ? VERIF_ALLOC_K(T, 6) : verif_n_ == 7 ? VERIF_ALLOC_K(T, 7) : (T *)0; \
    __CPROVER_assume(verif_n_ <= 7 && verif_p_ != NULL); verif_p_; })
#ifdef SB_BIG
#define SB_N 4
#define SB_MAXIDX 6
#else
#define SB_N 3
#define SB_MAXIDX 4
#endif
