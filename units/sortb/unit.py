# Bounded stand-in for unpacked_node::sort (C01 / C02: createReducedNode sorts every sparse scratch node before it is hashed, looked up and stored):
# the REAL body on sparse nodes of at most SB_N entries, multi-terminal (no edge array) and edge-valued; every loop is UNWOUND.  Labelled bounded.
UH = 'src/unpacked_node.h'
UC = 'src/unpacked_node.cc'
EV = 'src/edge_value.h'
def job(name, props, **kw):
    d = dict(name=name, entry='h_' + name, props=list(props), plain=True, kind='bounded', unwind=6,
             flags=['--no-standard-checks', '--bounds-check', '--pointer-check', '--div-by-zero-check', '--unwinding-assertions'],
             loop_contracts=False, timeout=1800)
    d.update(kw)
    return d
def uf(name, **kw):
    d = dict(cls='unpacked_node', name=name, file=UH)
    d.update(kw)
    return d
UNIT = {
    'name': 'sortb',
    'typedefs': [('src/defines.h', 'node_handle')],
    'enums': [('src/edge_value.h', 'edge_type')],
    'classes': {
        'edge_value': {'file': EV},
        'unpacked_node': {'file': UH, 'fields': ['_down', '_index', '_edge', 'size', 'is_full']},
    },
    'functions': [
        uf('isSparse'), uf('getSize'), uf('index', sel=r'^unsigned n$', nth=0),
        uf('sort', file=UC, where='out', loops=4),
    ],
    'stubs': ['none: the real sort with the real accessors; `new unsigned[maxind]` is malloc (failure ends the path, as std::bad_alloc does)'],
    'assumptions': ['BOUNDED: sparse nodes of at most SB_N = 3 entries with indexes below 4 (thorough tier: 4 entries, indexes below 6); not counted as proved'],
    'unverified_surroundings': {'C01': ['callers of sort (forest::createReducedNode: U-reduce uses it through a stub)'], 'C02': []},
    'jobs': [
        job('sort_mt', ['C01', 'C02']),
        job('sort_ev', ['C01', 'C02'], defines=['SB_EV']),
        job('sort_mt_4', ['C01', 'C02'], defines=['SB_BIG'], unwind=8, tier='thorough', timeout=3600),
        job('sort_ev_4', ['C01', 'C02'], defines=['SB_EV', 'SB_BIG'], unwind=8, tier='thorough', timeout=3600),
    ],
}
