void h_m2i_compute(void)
{
    struct mdd2index_operation *op; long *cv; node_handle *cp; int w_L = nondet_int(); node_handle w_A = nondet_int();
    ghost_i = nondet_size_t(); g_L0 = w_L; g_cur_L = nondet_int();
    g_alevel = nondet_int(); __CPROVER_assume(0 <= g_alevel && g_alevel <= w_L);            /* MEDDLY_DCASSERT(Alevel <= L) */
    __CPROVER_assume(g_alevel >= 1 || w_A < 0 || w_A == 0);                                  /* only terminals are at level 0 */
    __CPROVER_assume(g_alevel == 0 || w_A >= 1);
    g_ct_hit = nondet_bool(); g_ct_node = nondet_int(); g_ct_card = nondet_long(); g_hdr = nondet_long();
    __CPROVER_assume(g_ct_node >= 1 && g_ct_card >= 1 && g_hdr == g_ct_card);              /* a cached index-set node stores its own cardinality */
    g_size = nondet_unsigned(); __CPROVER_assume(1 <= g_size && g_size <= (1u << 20));
    g_new_node = nondet_int(); __CPROVER_assume(g_new_node >= 1);
    g_Au = (struct unpacked_node *)malloc(1); g_Cu = (struct unpacked_node *)malloc(1); __CPROVER_assume(g_Au && g_Cu);
    g_links = nondet_unsigned(); g_adds = nondet_unsigned(); g_recycles = nondet_unsigned(); g_crn = nondet_unsigned(); g_uhsets = nondet_unsigned();
    g_children = nondet_unsigned(); g_set_i_count = nondet_unsigned(); g_sum = nondet_long();
    __CPROVER_assume(g_links < 1000000 && g_adds < 1000000 && g_recycles < 1000000 && g_crn < 1000000 && g_uhsets < 1000000 && g_children < 1000000 && g_set_i_count < 1000000);
    g_res_node_set = 0; g_res_card_set = 0; g_added_complete = 0;
    mdd2index_operation___compute(op, w_L, w_A, cv, cp);
    CANARY(); CANARY_IF(w_A != 0 && w_L > 0 && g_alevel == w_L && g_ct_hit); CANARY_IF(w_A != 0 && w_L > 0 && g_alevel < w_L); CANARY_IF(w_A != 0 && w_L > 0 && g_alevel == w_L && !g_ct_hit);
}
void h_getIndexSetCardinality(void) { struct forest *f; node_handle w_node = nondet_int(); g_hdr = nondet_long(); forest__getIndexSetCardinality(f, w_node); CANARY(); }
