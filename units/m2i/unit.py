# U-m2i: the set -> index-set conversion (C15): mdd2index_operation::_compute (recursive; recursive calls are used through the contract
# being enforced: goto-instrument --enforce-contract-rec) and the cardinality accessor forest::getIndexSetCardinality.
M = 'src/operations/mdd2index.cc'
FH = 'src/forest.h'
def job(name, enforce, replace=(), props=('C15',), **kw):
    d = dict(name=name, entry='h_' + name, enforce=enforce, replace=list(replace), props=list(props))
    d.update(kw)
    return d
STUBS = ['forest__getNodeLevel', 'forest__linkNode', 'forest__createReducedNode3', 'forest__isIndexSet', 'forest__getNodeAddress',
         'node_storage__getUnhashedHeaderOf',
         'unpacked_node__newRedundant', 'unpacked_node__newFromNode', 'unpacked_node__newWritable', 'unpacked_node__Recycle',
         'unpacked_node__getSize', 'unpacked_node__down', 'unpacked_node__setFull_long', 'unpacked_node__setUHdata',
         'verif_ct_key_setN', 'verif_ct_find', 'verif_ct_res_getN', 'verif_ct_res_getL', 'verif_ct_res_setN', 'verif_ct_res_setL', 'verif_ct_add']
UNIT = {
    'name': 'm2i',
    'typedefs': [('src/defines.h', 'node_handle'), ('src/defines.h', 'node_address'), ('src/policies.h', 'node_storage_flags')],
    'enums': [('src/edge_value.h', 'edge_type')],
    'consts': [('src/policies.h', ['FULL_ONLY']), ('src/terminal.h', ['OMEGA_NORMAL', 'OMEGA_ZERO', 'OMEGA_INFINITY'])],
    'classes': {
        'unpacked_node': {'opaque': True}, 'ct_entry_type': {'opaque': True}, 'node_storage': {'opaque': True},
        'edge_value': {'file': 'src/edge_value.h'},
        'forest': {'file': FH, 'fields': ['nodeMan']},
        'mdd2index_operation': {'file': M, 'bases': ['unary_operation'], 'base_files': {'unary_operation': 'src/oper_unary.h'},
                                'fields': ['argF', 'resF', 'ct']},
    },
    'foreign': {
        'getNodeLevel': {'*': 'forest'}, 'linkNode': {'*': 'forest'}, 'createReducedNode': {'*': 'forest__createReducedNode3'},
        'getIndexSetCardinality': {'*': 'forest'},
        'getUnhashedHeaderOf': {'*': 'node_storage'},
        'getSize': {'*': 'unpacked_node'}, 'down': {'*': 'unpacked_node'}, 'setUHdata': {'*': 'unpacked_node'},
    },
    'text_subst': [
        (r'ct_vector key\(ct->getKeySize\(\)\);', '', M),
        (r'ct_vector res\(ct->getResultSize\(\)\);', '', M),
        (r'key\[0\]\.setN\(A\);', 'verif_ct_key_setN(A);', M),
        (r'ct->findCT\(key, res\)', 'verif_ct_find(ct)', M),
        (r'res\[0\]\.getN\(\)', 'verif_ct_res_getN()', M),
        (r'res\[1\]\.getL\(\)', 'verif_ct_res_getL()', M),
        (r'res\[0\]\.setN\(cp\);', 'verif_ct_res_setN(cp);', M),
        (r'res\[1\]\.set\(cv\);', 'verif_ct_res_setL(cv);', M),
        (r'ct->addCT\(key, res\);', 'verif_ct_add(ct);', M),
        (r'unpacked_node::newRedundant\(', 'unpacked_node__newRedundant(', M),
        (r'unpacked_node::newFromNode\(', 'unpacked_node__newFromNode(', M),
        (r'unpacked_node::newWritable\(', 'unpacked_node__newWritable(', M),
        (r'unpacked_node::Recycle\(', 'unpacked_node__Recycle(', M),
        (r'Cu->setFull\(i, edge_value\(cv\), ddn\);', 'unpacked_node__setFull_long(Cu, i, cv, ddn);', M),
        (r'Cu->setFull\(i, edge_value\(0L\), ddn\);', 'unpacked_node__setFull_long(Cu, i, 0L, ddn);', M),
        (r'MEDDLY_DCASSERT\(0 == long\(ev\)\);', '', M),
        # ghost bookkeeping after each recursive call (ghost state only; see spec.h VERIF_AFTER_CHILD)
        (r'_compute\(L-1, Au->down\(i\), dcard, ddn\);', '_compute(L-1, Au->down(i), dcard, ddn); VERIF_AFTER_CHILD(L, i, dcard, ddn);', M),
        (r'(\n    if \(0 == A\) \{)', r' VERIF_ENTER(L);\1', M),
    ],
    'extra_free': {n: n for n in ['verif_ct_key_setN', 'verif_ct_find', 'verif_ct_res_getN', 'verif_ct_res_getL', 'verif_ct_res_setN', 'verif_ct_res_setL',
                                  'verif_ct_add', 'unpacked_node__newRedundant', 'unpacked_node__newFromNode', 'unpacked_node__newWritable',
                                  'unpacked_node__Recycle', 'unpacked_node__setFull_long', 'VERIF_AFTER_CHILD', 'VERIF_ENTER']},
    'extra_methods': [
        dict(cls='forest', name='getNodeLevel', argc=1, cname='forest__getNodeLevel'),
        dict(cls='forest', name='linkNode', argc=1, cname='forest__linkNode'),
        dict(cls='forest', name='createReducedNode', argc=3, cname='forest__createReducedNode3'),
        dict(cls='forest', name='isIndexSet', argc=0, cname='forest__isIndexSet'),
        dict(cls='forest', name='getNodeAddress', argc=1, cname='forest__getNodeAddress'),
        dict(cls='node_storage', name='getUnhashedHeaderOf', argc=1, cname='node_storage__getUnhashedHeaderOf'),
        dict(cls='unpacked_node', name='getSize', argc=0, cname='unpacked_node__getSize'),
        dict(cls='unpacked_node', name='down', argc=1, cname='unpacked_node__down'),
        dict(cls='unpacked_node', name='setUHdata', argc=1, cname='unpacked_node__setUHdata'),
    ],
    'ref_params': {'forest__createReducedNode3': [2, 3]},
    'functions': [
        dict(cls='forest', name='isTerminalNode', file=FH),
        dict(cls='forest', name='getIndexSetCardinality', file=FH, fires={'R1': 1}),
        dict(cls='mdd2index_operation', name='_compute', file=M, where='out', loops=1),
    ],
    'stubs': [],
    'assumptions': [],
    'unverified_surroundings': {'C15': ['compute table (ct_entry_type findCT/addCT: a hit returns the pair that was added for the key)', 'forests/evmdd_pluslong.cc',
                                        'forest::createReducedNode (U-reduce) and unhashed header storage (U-codec)']},
    'jobs': [
        job('m2i_compute', 'mdd2index_operation___compute', STUBS, loops=1, recursive=True, object_bits=12),
        job('getIndexSetCardinality', 'forest__getIndexSetCardinality', STUBS),
    ],
}
