/* U-m2i: set -> index set conversion (C15).
 * Ghost model of ONE call of _compute (the "top" call, L == g_L0): the recursive calls below it are used through the same contract
 * (goto-instrument --enforce-contract-rec).  Ghost records are written only while the top call itself executes (g_cur_L == g_L0), so the
 * recursive calls do not disturb them: their frame (conditional assigns) excludes the records. */
size_t ghost_i;                                   /* the child position the point-wise facts are about */
int g_L0, g_cur_L;                                /* level of the top call; level of the call that is executing */
int g_alevel;                                     /* level of A in the source forest */
_Bool g_ct_hit; node_handle g_ct_node; long g_ct_card;   /* what the compute table holds for key A */
long g_hdr;                                       /* cardinality header stored in the node g_ct_node */
unsigned g_size;                                  /* size of level L */
node_handle g_new_node;                           /* what createReducedNode returns for the node built by the top call */
struct unpacked_node *g_Au, *g_Cu;                /* the two scratch nodes of the top call */
/* event log of the top call */
unsigned g_links, g_adds, g_recycles, g_crn, g_uhsets, g_children, g_set_i_count;
node_handle g_key, g_link_arg, g_res_node, g_added_key, g_added_node, g_set_dn_i, g_ddn_i;
long g_res_card, g_added_card, g_uh, g_sum, g_before_i, g_dcard_i, g_set_ev_i;
_Bool g_res_node_set, g_res_card_set, g_added_complete;
#define TOP (g_cur_L == g_L0)
/* ghost statements injected by the extraction (units/m2i/unit.py text_subst); they touch ghost state only */
#define VERIF_ENTER(L) do { g_cur_L = (L); } while (0)
#define VERIF_AFTER_CHILD(L, i, dcard, ddn) do { g_cur_L = (L); if (TOP) { if ((i) == ghost_i) { g_before_i = g_sum; g_dcard_i = (dcard); g_ddn_i = (ddn); } g_sum += (dcard); g_children++; } } while (0)

int forest__getNodeLevel(const struct forest *f, node_handle p)
__CPROVER_requires(f != NULL) __CPROVER_assigns() __CPROVER_ensures(__CPROVER_return_value == g_alevel);
node_handle forest__linkNode(struct forest *f, node_handle p)
__CPROVER_requires(f != NULL) __CPROVER_assigns(TOP: g_links, g_link_arg)
__CPROVER_ensures(__CPROVER_return_value == p) __CPROVER_ensures(TOP ==> (g_links == __CPROVER_old(g_links) + 1 && g_link_arg == p));
void forest__createReducedNode3(struct forest *f, struct unpacked_node *un, struct edge_value *ev, node_handle *cp)
__CPROVER_requires(f != NULL && __CPROVER_w_ok(ev, sizeof(*ev)) && __CPROVER_w_ok(cp, sizeof(*cp)))
REQUIRES(the_node_built_by_this_call_is_reduced, un == g_Cu)
__CPROVER_assigns(*ev, *cp; TOP: g_crn)
__CPROVER_ensures(*cp == g_new_node && ev->mytype == edge_type__LONG && ev->ev_long == 0)
__CPROVER_ensures(TOP ==> g_crn == __CPROVER_old(g_crn) + 1);
_Bool forest__isIndexSet(const struct forest *f) __CPROVER_requires(f != NULL) __CPROVER_assigns() __CPROVER_ensures(__CPROVER_return_value == 1);
node_address forest__getNodeAddress(const struct forest *f, node_handle p) __CPROVER_requires(f != NULL && p >= 1) __CPROVER_assigns() __CPROVER_ensures(1);
const void *node_storage__getUnhashedHeaderOf(const struct node_storage *s, node_address a)
__CPROVER_requires(s != NULL) __CPROVER_assigns() __CPROVER_ensures(__CPROVER_return_value == (const void *)&g_hdr);   /* the header of an index-set node is one long (evmdd_pluslong index sets) */

struct unpacked_node *unpacked_node__newRedundant(const struct forest *f, int k, node_handle p, node_storage_flags fs)
__CPROVER_requires(f != NULL && fs == FULL_ONLY) __CPROVER_assigns() __CPROVER_ensures(__CPROVER_return_value == g_Au);
struct unpacked_node *unpacked_node__newFromNode(const struct forest *f, node_handle p, node_storage_flags fs)
__CPROVER_requires(f != NULL && fs == FULL_ONLY)
REQUIRES(only_stored_nodes_are_unpacked, p >= 1)
__CPROVER_assigns() __CPROVER_ensures(__CPROVER_return_value == g_Au);
struct unpacked_node *unpacked_node__newWritable(struct forest *f, int k, node_storage_flags fs)
__CPROVER_requires(f != NULL && fs == FULL_ONLY) __CPROVER_assigns() __CPROVER_ensures(__CPROVER_return_value == g_Cu);
void unpacked_node__Recycle(struct unpacked_node *u)
REQUIRES(the_source_scratch_node_is_recycled, u == g_Au)
__CPROVER_assigns(TOP: g_recycles) __CPROVER_ensures(TOP ==> g_recycles == __CPROVER_old(g_recycles) + 1);
unsigned unpacked_node__getSize(const struct unpacked_node *u) __CPROVER_requires(u == g_Au || u == g_Cu) __CPROVER_assigns() __CPROVER_ensures(__CPROVER_return_value == g_size);
node_handle unpacked_node__down(const struct unpacked_node *u, unsigned i)
REQUIRES(children_are_read_inside_the_source_node, u == g_Au && i < g_size) __CPROVER_assigns() __CPROVER_ensures(1);
void unpacked_node__setFull_long(struct unpacked_node *u, unsigned i, long v, node_handle d)
REQUIRES(entries_are_written_inside_the_result_node, u == g_Cu && i < g_size)
__CPROVER_assigns(TOP && i == ghost_i: g_set_ev_i, g_set_dn_i, g_set_i_count)
__CPROVER_ensures((TOP && i == ghost_i) ==> (g_set_ev_i == v && g_set_dn_i == d && g_set_i_count == __CPROVER_old(g_set_i_count) + 1));
void unpacked_node__setUHdata(struct unpacked_node *u, const void *p)
__CPROVER_requires(u == g_Cu && __CPROVER_r_ok(p, sizeof(long)))
__CPROVER_assigns(TOP: g_uh, g_uhsets) __CPROVER_ensures(TOP ==> (g_uh == *(const long *)p && g_uhsets == __CPROVER_old(g_uhsets) + 1));

/* compute table, key [node], result [node, long] (ct_vector key/res of the source are mapped to these calls) */
void verif_ct_key_setN(node_handle a) __CPROVER_requires(1) __CPROVER_assigns(TOP: g_key) __CPROVER_ensures(TOP ==> g_key == a);
_Bool verif_ct_find(struct ct_entry_type *ct) __CPROVER_requires(ct != NULL) __CPROVER_assigns() __CPROVER_ensures(__CPROVER_return_value == g_ct_hit);
node_handle verif_ct_res_getN(void) __CPROVER_requires(1) __CPROVER_assigns() __CPROVER_ensures(__CPROVER_return_value == g_ct_node);
long verif_ct_res_getL(void) __CPROVER_requires(1) __CPROVER_assigns() __CPROVER_ensures(__CPROVER_return_value == g_ct_card);
void verif_ct_res_setN(node_handle n) __CPROVER_requires(1) __CPROVER_assigns(TOP: g_res_node, g_res_node_set) __CPROVER_ensures(TOP ==> (g_res_node == n && g_res_node_set));
void verif_ct_res_setL(long v) __CPROVER_requires(1) __CPROVER_assigns(TOP: g_res_card, g_res_card_set) __CPROVER_ensures(TOP ==> (g_res_card == v && g_res_card_set));
void verif_ct_add(struct ct_entry_type *ct) __CPROVER_requires(ct != NULL)
__CPROVER_assigns(TOP: g_adds, g_added_key, g_added_node, g_added_card, g_added_complete)
__CPROVER_ensures(TOP ==> (g_adds == __CPROVER_old(g_adds) + 1 && g_added_key == g_key && g_added_node == g_res_node && g_added_card == g_res_card && g_added_complete == (g_res_node_set && g_res_card_set)));

/* ---- the conversion ---------------------------------------------------------------------------------------------- */
#define TOPCALL   (L == g_L0)
#define M2I_HIT   (A != 0 && L > 0 && g_alevel == L && g_ct_hit)
#define M2I_MISS  (A != 0 && L > 0 && !(g_alevel == L && g_ct_hit))
void mdd2index_operation___compute(struct mdd2index_operation *self, int L, node_handle A, long *cv, node_handle *cp)
__CPROVER_requires(__CPROVER_is_fresh(self, sizeof(*self)) && __CPROVER_is_fresh(self->argF, sizeof(struct forest)) && __CPROVER_is_fresh(self->resF, sizeof(struct forest)) && self->ct != NULL && self->resF->nodeMan != NULL)
__CPROVER_requires(L <= g_L0)      /* the top call and the calls below it */
__CPROVER_requires(__CPROVER_is_fresh(cv, sizeof(*cv)) && __CPROVER_is_fresh(cp, sizeof(*cp)) && 0 <= L && L <= 100000 && verif_exc == 0)
__CPROVER_assigns(*cv, *cp, g_cur_L)
/* the log is written by the top call only (conditional targets are not usable in loop contracts, so the frame is a postcondition) */
__CPROVER_assigns(g_links, g_link_arg, g_crn, g_recycles, g_set_ev_i, g_set_dn_i, g_set_i_count, g_uh, g_uhsets, g_key, g_res_node, g_res_node_set, g_res_card, g_res_card_set, g_adds, g_added_key, g_added_node, g_added_card, g_added_complete, g_sum, g_children, g_before_i, g_dcard_i, g_ddn_i)
ENSURES(calls_below_the_top_call_leave_the_log_alone, TOPCALL || (g_links == __CPROVER_old(g_links) && g_link_arg == __CPROVER_old(g_link_arg) && g_crn == __CPROVER_old(g_crn) && g_recycles == __CPROVER_old(g_recycles) && g_set_ev_i == __CPROVER_old(g_set_ev_i) && g_set_dn_i == __CPROVER_old(g_set_dn_i) && g_set_i_count == __CPROVER_old(g_set_i_count) && g_uh == __CPROVER_old(g_uh) && g_uhsets == __CPROVER_old(g_uhsets) && g_key == __CPROVER_old(g_key) && g_res_node == __CPROVER_old(g_res_node) && g_res_node_set == __CPROVER_old(g_res_node_set) && g_res_card == __CPROVER_old(g_res_card) && g_res_card_set == __CPROVER_old(g_res_card_set) && g_adds == __CPROVER_old(g_adds) && g_added_key == __CPROVER_old(g_added_key) && g_added_node == __CPROVER_old(g_added_node) && g_added_card == __CPROVER_old(g_added_card) && g_added_complete == __CPROVER_old(g_added_complete) && g_sum == __CPROVER_old(g_sum) && g_children == __CPROVER_old(g_children) && g_before_i == __CPROVER_old(g_before_i) && g_dcard_i == __CPROVER_old(g_dcard_i) && g_ddn_i == __CPROVER_old(g_ddn_i)))
ENSURES(empty_set_has_no_members, A != 0 || (*cv == 0 && *cp == OMEGA_INFINITY))
ENSURES(below_the_last_variable_one_member, !(A != 0 && L == 0) || (*cv == 1 && *cp == OMEGA_NORMAL))
ENSURES(nothing_is_raised, verif_exc == 0)
/* compute-table hit: the cached pair is returned as it was stored, the cached node gains one reference */
ENSURES(hit_returns_the_cached_node_and_cardinality, !(TOPCALL && M2I_HIT) || (*cv == g_ct_card && *cp == g_ct_node))
ENSURES(hit_links_the_cached_node_once, !(TOPCALL && M2I_HIT) || (g_links == __CPROVER_old(g_links) + 1 && g_link_arg == g_ct_node && g_key == A))
ENSURES(hit_builds_nothing, !(TOPCALL && M2I_HIT) || (g_crn == __CPROVER_old(g_crn) && g_adds == __CPROVER_old(g_adds)))
/* miss: children are converted in index order; the offset of child i is the number of members below the children before it */
ENSURES(cardinality_is_the_sum_over_the_children, !(TOPCALL && M2I_MISS) || (*cv == g_sum - __CPROVER_old(g_sum) && g_children == __CPROVER_old(g_children) + g_size))
ENSURES(child_offset_is_the_number_of_members_before_it, !(TOPCALL && M2I_MISS && ghost_i < g_size) ||
        (g_set_i_count == __CPROVER_old(g_set_i_count) + 1 && g_set_dn_i == g_ddn_i && g_set_ev_i == (g_dcard_i != 0 ? g_before_i - __CPROVER_old(g_sum) : 0)))
ENSURES(stored_cardinality_is_the_member_count, !(TOPCALL && M2I_MISS) || (g_uhsets == __CPROVER_old(g_uhsets) + 1 && g_uh == *cv))
ENSURES(result_is_the_reduced_node, !(TOPCALL && M2I_MISS) || (g_crn == __CPROVER_old(g_crn) + 1 && *cp == g_new_node && g_recycles == __CPROVER_old(g_recycles) + 1))
/* what a later hit will return: the result node, and - where the entry carries a cardinality at all (an implementation may instead read it back
 * from the node's header, which stored_cardinality_is_the_member_count pins down) - the member count */
/* (whether to cache at all is a matter of speed, not of C15: at most one entry, and if there is one it is this call's result) */
ENSURES(cache_entry_is_the_result_of_this_call, !(TOPCALL && M2I_MISS && g_alevel == L) || g_adds == __CPROVER_old(g_adds) ||
        (g_adds == __CPROVER_old(g_adds) + 1 && g_added_key == A && g_res_node_set && g_added_node == *cp && (!g_res_card_set || g_added_card == *cv)))
ENSURES(skipped_levels_are_not_cached, !(TOPCALL && M2I_MISS && g_alevel != L) || g_adds == __CPROVER_old(g_adds))
;

/* ---- the accessor (forest.h:934) --------------------------------------------------------------------------------- */
VERIF_RET_forest__getIndexSetCardinality forest__getIndexSetCardinality(const struct forest *self, node_handle node)   /* return type as the source declares it */
__CPROVER_requires(__CPROVER_is_fresh(self, sizeof(*self)) && self->nodeMan != NULL && verif_exc == 0 && g_hdr >= 1)
__CPROVER_assigns(verif_exc)
ENSURES(terminal_cardinalities, node >= 1 || (verif_exc == 0 && __CPROVER_return_value == (node != 0 ? 1 : 0)))
ENSURES(stored_cardinality_is_returned, node < 1 || (verif_exc == 0 && (long)__CPROVER_return_value == g_hdr))
;
