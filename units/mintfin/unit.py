# U-mintfin: how the values of minterms that land on the same terminal are combined (C03: "overlapping entries combined by maximum or by minimum"):
# fbop_min_tmpl<long>::finalize and fbop_max_tmpl<long>::finalize (src/minterms.cc), with the real rangeval accessors.
M = 'src/minterms.cc'
R = 'src/rangeval.h'
def job(name, enforce, replace=(), props=('C03',), **kw):
    d = dict(name=name, entry='h_' + name, enforce=enforce, replace=list(replace), props=list(props))
    d.update(kw)
    return d
def rf(name, **kw):
    d = dict(cls='rangeval', name=name, file=R)
    d.update(kw)
    return d
ST = ['verif_mc_value', 'forest__getEdgeForValue']
UNIT = {
    'name': 'mintfin',
    'subst': {'T': 'long'},
    'conversion_classes': ['rangeval'],
    'assign_ctor': {'rangeval': 'rangeval__ctor_long'},
    'typedefs': [('src/defines.h', 'node_handle')],
    'enums': [('src/rangeval.h', 'range_special'), ('src/rangeval.h', 'range_type')],
    'classes': {
        'minterm_coll': {'opaque': True}, 'forest': {'opaque': True}, 'edge_value': {'opaque': True},
        'rangeval': {'file': R},
    },
    'foreign': {'isPlusInfinity': {'*': 'rangeval'}, 'isNormal': {'*': 'rangeval'}, 'isInteger': {'*': 'rangeval'}, 'hasType': {'*': 'rangeval'},
                'getEdgeForValue': {'*': 'forest'}},
    'text_subst': [
        # ghost: which entry the running value was taken from (ghost state only)
        (r'val = mc\.at\(low\)\.getValue\(\);', 'VERIF_LOAD(val, mc, low); VERIF_PICK(low);', M),
        (r'val = mci;', 'val = mci; VERIF_PICK(i);', M),
        (r'val = T\(mci\);', 'val = T(mci); VERIF_PICK(i);', M),
        (r'mc\.at\(i\)\.getValue\(\)', '(*verif_mc_value(&(mc), i))', M),
    ],
    'extra_free': {'verif_mc_value': 'verif_mc_value', 'VERIF_PICK': 'VERIF_PICK', 'VERIF_LOAD': 'VERIF_LOAD'},
    'extra_methods': [dict(cls='forest', name='getEdgeForValue', argc=3, cname='forest__getEdgeForValue')],
    'ref_params': {'forest__getEdgeForValue': [2, 3]},
    'functions': [
        rf('isNormal'), rf('isPlusInfinity'), rf('hasType'), rf('isInteger'), rf('setInteger'),
        rf('operator long', cname='rangeval__to_long'),
        rf('rangeval', sel=r'^long v$', ctor=True, cname='rangeval__ctor_long', argc_key='ctor_long'),
        dict(cls='fbop_min_tmpl', name='finalize', file=M, static=True, loops=1, cname='fbop_min_long__finalize'),
        dict(cls='fbop_max_tmpl', name='finalize', file=M, static=True, loops=1, cname='fbop_max_long__finalize'),
    ],
    'stubs': ['minterm_coll::at(i).getValue(): the value of the i-th minterm (ghost array of rangeval, symbolic length); forest::getEdgeForValue: records the value it is given'],
    'assumptions': ['T = long only (the double instances compare with the same code); the recursive partition that brings equal minterms together is U-mint'],
    'unverified_surroundings': {'C03': ['minterms.cc fbuilder::createEdgeSet / createEdgeRel / accumulate (recursion)', 'forest::getEdgeForValue']},
    'jobs': [
        job('min_finalize', 'fbop_min_long__finalize', ST, loops=1),
        job('max_finalize', 'fbop_max_long__finalize', ST, loops=1),
    ],
}
