#define H_MF() ghost_g = nondet_size_t(); g_n = nondet_size_t(); g_pick = nondet_size_t(); g_finals = nondet_unsigned(); \
    struct minterm_coll *mc = (struct minterm_coll *)malloc(1); struct forest *F = (struct forest *)malloc(1); struct edge_value *cv = (struct edge_value *)malloc(1); node_handle cp; \
    unsigned w_low = nondet_unsigned(), w_high = nondet_unsigned()
void h_min_finalize(void) { H_MF(); fbop_min_long__finalize(mc, w_low, w_high, F, cv, &cp); CANARY(); }
void h_max_finalize(void) { H_MF(); fbop_max_long__finalize(mc, w_low, w_high, F, cv, &cp); CANARY(); }
