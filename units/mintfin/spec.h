/* U-mintfin: combining the values of the minterms that land on one terminal (C03). */
#define MF_MAXN 100000
size_t ghost_g;                       /* the entry the point-wise facts are about */
size_t g_n;                           /* number of minterms in the collection */
range_special *g_sv; long *g_lv;      /* value of each minterm: kind and integer payload (two flat arrays: arrays of unions are too costly for the solver) */
struct rangeval g_cur;                /* the object minterm_coll::at(i).getValue() refers to (valid until the next such call) */
size_t g_pick;                        /* ghost: the entry the running value was last taken from (VERIF_PICK, injected by the extraction) */
struct rangeval g_final; unsigned g_finals;   /* what forest::getEdgeForValue was given */
#define VERIF_PICK(k) do { g_pick = (k); } while (0)
#define VERIF_LOAD(dst, mc, k) do { (dst) = *verif_mc_value(&(mc), (k)); } while (0)      /* val = mc.at(k).getValue() */
#define RV_INF(v)   ((v).s_value == range_special__PLUS_INFINITY)
#define RV_NORM(v)  ((v).s_value == range_special__NORMAL)
/* order of the extended integers: infinity on top */
#define RV_LE(a, b) (RV_INF(b) || (RV_NORM(a) && RV_NORM(b) && (a).l_value <= (b).l_value))
#define RV_SAME(a, b) ((a).s_value == (b).s_value && (RV_INF(a) || (a).l_value == (b).l_value))
#define AT_INF(k)   (g_sv[k] == range_special__PLUS_INFINITY)
#define AT_NORM(k)  (g_sv[k] == range_special__NORMAL)
#define RV_LE_AT(a, k) (AT_INF(k) || (RV_NORM(a) && AT_NORM(k) && (a).l_value <= g_lv[k]))
#define AT_LE_RV(k, b) (RV_INF(b) || (AT_NORM(k) && RV_NORM(b) && g_lv[k] <= (b).l_value))
#define RV_SAME_AT(a, k) ((a).s_value == g_sv[k] && (RV_INF(a) || (a).l_value == g_lv[k]))

const struct rangeval *verif_mc_value(const struct minterm_coll *mc, unsigned i)
REQUIRES(values_are_read_inside_the_collection, i < g_n)
__CPROVER_assigns(g_cur) __CPROVER_ensures(__CPROVER_return_value == &g_cur && g_cur.s_value == g_sv[i] && g_cur.l_value == g_lv[i] && g_cur.the_type == range_type__INTEGER);
void forest__getEdgeForValue(const struct forest *F, struct rangeval v, struct edge_value *cv, node_handle *cp)
__CPROVER_requires(F != NULL) __CPROVER_assigns(g_final, g_finals)
__CPROVER_ensures(g_finals == __CPROVER_old(g_finals) + 1 && g_final.s_value == v.s_value && g_final.l_value == v.l_value && g_final.the_type == v.the_type);

#define MF_REQ() \
    __CPROVER_requires(mc != NULL && F != NULL && low < high && high <= g_n && g_n <= MF_MAXN && __CPROVER_is_fresh(g_sv, sizeof(range_special) * g_n) && __CPROVER_is_fresh(g_lv, sizeof(long) * g_n)) \
    __CPROVER_requires(low <= ghost_g && ghost_g < high && verif_exc == 0 && g_finals < 1000000) \
    /* point-wise: the ghost entry is an integer value or +infinity (entries of other kinds make the conversion raise VALUE_OVERFLOW) */ \
    __CPROVER_requires(AT_INF(ghost_g) || AT_NORM(ghost_g))
void fbop_min_long__finalize(const struct minterm_coll *mc, unsigned low, unsigned high, struct forest *F, struct edge_value *cv, node_handle *cp)
MF_REQ()
__CPROVER_assigns(verif_exc, g_pick, g_final, g_finals, g_cur)
ENSURES(only_the_documented_error, verif_exc == 0 || verif_exc == ERR_VALUE_OVERFLOW)
ENSURES(one_terminal_value_is_produced, verif_exc != 0 || g_finals == __CPROVER_old(g_finals) + 1)
ENSURES(combined_value_is_one_of_the_entries, verif_exc != 0 || (low <= g_pick && g_pick < high && RV_SAME_AT(g_final, g_pick)))
ENSURES(combined_value_is_a_lower_bound_of_every_entry, verif_exc != 0 || RV_LE_AT(g_final, ghost_g))
;
void fbop_max_long__finalize(const struct minterm_coll *mc, unsigned low, unsigned high, struct forest *F, struct edge_value *cv, node_handle *cp)
MF_REQ()
__CPROVER_assigns(verif_exc, g_pick, g_final, g_finals, g_cur)
ENSURES(only_the_documented_error, verif_exc == 0 || verif_exc == ERR_VALUE_OVERFLOW)
ENSURES(one_terminal_value_is_produced, verif_exc != 0 || g_finals == __CPROVER_old(g_finals) + 1)
ENSURES(combined_value_is_one_of_the_entries, verif_exc != 0 || (low <= g_pick && g_pick < high && RV_SAME_AT(g_final, g_pick)))
ENSURES(combined_value_is_an_upper_bound_of_every_entry, verif_exc != 0 || AT_LE_RV(ghost_g, g_final))
;
