/* running value: taken from entry g_pick; a bound of the entries seen so far (at the ghost entry) */
#define LOOP_fbop_min_long__finalize_1 \
    __CPROVER_assigns(i, val, g_pick, verif_exc, g_cur) \
    __CPROVER_loop_invariant(low + 1 <= i && i <= high && verif_exc == 0) \
    __CPROVER_loop_invariant(low <= g_pick && g_pick < i && RV_SAME_AT(val, g_pick)) \
    __CPROVER_loop_invariant(ghost_g >= i || RV_LE_AT(val, ghost_g)) \
    __CPROVER_decreases(high - i)
#define LOOP_fbop_max_long__finalize_1 \
    __CPROVER_assigns(i, val, g_pick, verif_exc, g_cur) \
    __CPROVER_loop_invariant(low + 1 <= i && i <= high && verif_exc == 0) \
    __CPROVER_loop_invariant(low <= g_pick && g_pick < i && RV_SAME_AT(val, g_pick)) \
    __CPROVER_loop_invariant(ghost_g >= i || AT_LE_RV(ghost_g, val)) \
    __CPROVER_decreases(high - i)
