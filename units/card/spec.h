/* U-card: the counting recursion (C11).  Ghost model of ONE call (the "top" call: L == g_L0 and A == g_A0); the calls below it are used through the
 * same contract (--enforce-contract-rec) and differ from it in the node (a child; acyclicity) or in the level (a skipped level). */
int g_L0; node_handle g_A0;            /* the call being checked */
int g_alevel;                          /* level of A in the forest */
_Bool g_rel, g_idr;                    /* relation forest; identity-reduced */
int g_Ldn;                             /* the level below L (ghost value of the level arithmetic) */
int g_lsize;                           /* size of level L */
long g_res_skip;                       /* the count of (g_Ldn, g_A0): what the call below a skipped level returns */
unsigned g_nnz;                        /* entries of the sparse view of A */
struct unpacked_node *g_Au; struct ct_item *g_ct_item;
_Bool g_ct_hit; long g_ct_val;
long g_sum; unsigned g_children;       /* ghost: sum and number of the results of the recursive calls of the scan (VERIF_AFTER_CHILD) */
#define TOPCALL (L == g_L0 && A == g_A0)
#define VERIF_OPER_ITEM_FOREST(x) do { (x).mytype = opnd_type__FOREST; } while (0)
#define VERIF_AFTER_CHILD(L, A, t) do { if (TOPCALL) { g_sum += (t).the_long; g_children++; } } while (0)

_Bool forest__isForRelations(const struct forest *f) __CPROVER_requires(f != NULL) __CPROVER_assigns() __CPROVER_ensures(__CPROVER_return_value == g_rel);
_Bool forest__isIdentityReduced(const struct forest *f) __CPROVER_requires(f != NULL) __CPROVER_assigns() __CPROVER_ensures(__CPROVER_return_value == g_idr);
int forest__getNodeLevel(const struct forest *f, node_handle p) __CPROVER_requires(f != NULL) __CPROVER_assigns() __CPROVER_ensures(__CPROVER_return_value == g_alevel);
int forest__getLevelSize(const struct forest *f, int k) __CPROVER_requires(f != NULL && k != 0) __CPROVER_assigns() __CPROVER_ensures(__CPROVER_return_value == g_lsize);
int MXD_levels__downLevel(int k) __CPROVER_requires(k != 0) __CPROVER_assigns() __CPROVER_ensures(__CPROVER_return_value == g_Ldn);
int MDD_levels__downLevel(int k) __CPROVER_requires(k > 0) __CPROVER_assigns() __CPROVER_ensures(__CPROVER_return_value == g_Ldn);
struct unpacked_node *unpacked_node__newFromNode(const struct forest *f, node_handle p, node_storage_flags fs)
__CPROVER_requires(f != NULL)
REQUIRES(only_stored_nodes_are_unpacked, p >= 1)
__CPROVER_assigns() __CPROVER_ensures(__CPROVER_return_value == g_Au);
void unpacked_node__Recycle(struct unpacked_node *u) __CPROVER_requires(u == g_Au) __CPROVER_assigns() __CPROVER_ensures(1);
unsigned unpacked_node__getSize(const struct unpacked_node *u) __CPROVER_requires(u == g_Au) __CPROVER_assigns() __CPROVER_ensures(__CPROVER_return_value == g_nnz);
node_handle unpacked_node__down(const struct unpacked_node *u, unsigned z)
REQUIRES(children_are_read_inside_the_node, u == g_Au && z < g_nnz)
__CPROVER_assigns() __CPROVER_ensures(__CPROVER_return_value != g_A0);            /* a node is not its own descendant */
void verif_ct_key_setN(node_handle a) __CPROVER_requires(1) __CPROVER_assigns() __CPROVER_ensures(1);
_Bool verif_ct_find(struct ct_entry_type *ct) __CPROVER_requires(ct != NULL) __CPROVER_assigns() __CPROVER_ensures(__CPROVER_return_value == g_ct_hit);
struct ct_item *verif_ct_res0(void) __CPROVER_requires(1) __CPROVER_assigns() __CPROVER_ensures(__CPROVER_return_value == g_ct_item);
void verif_ct_add(struct ct_entry_type *ct) __CPROVER_requires(ct != NULL) __CPROVER_assigns() __CPROVER_ensures(1);
long ct_item__getL(const struct ct_item *c) __CPROVER_requires(c == g_ct_item) __CPROVER_assigns() __CPROVER_ensures(__CPROVER_return_value == g_ct_val);
void ct_item__setL(struct ct_item *c, long v) __CPROVER_requires(c == g_ct_item) __CPROVER_assigns() __CPROVER_ensures(1);

#define CARD_SKIP (A != 0 && L != 0 && g_alevel != L)
#define CARD_HIT  (A != 0 && L != 0 && g_alevel == L && g_ct_hit)
#define CARD_SCAN (A != 0 && L != 0 && g_alevel == L && !g_ct_hit)
void card_templ___compute(struct card_templ *self, int L, node_handle A, struct oper_item *result)
__CPROVER_requires(__CPROVER_is_fresh(self, sizeof(*self)) && self->argF != NULL && self->ct != NULL)
__CPROVER_requires(__CPROVER_is_fresh(result, sizeof(*result)) && result->mytype == opnd_type__INTEGER && verif_exc == 0)
__CPROVER_assigns(result->the_long, g_sum, g_children)
ENSURES(nothing_is_raised, verif_exc == 0)
ENSURES(calls_below_the_top_call_leave_the_ghost_sum_alone, TOPCALL || (g_sum == __CPROVER_old(g_sum) && g_children == __CPROVER_old(g_children)))
ENSURES(the_empty_set_has_no_members, A != 0 || result->the_long == 0)
ENSURES(below_the_last_variable_one_member, !(A != 0 && L == 0) || result->the_long == 1)
/* induction hypothesis for the call below a skipped level (same node, the level below) */
ENSURES(count_below_a_skipped_level, !(L == g_Ldn && A == g_A0 && !TOPCALL) || result->the_long == g_res_skip)
/* a skipped level multiplies the count by the level size - except a skipped primed level of an identity-reduced relation, where x' = x */
ENSURES(skipped_level_scales_by_its_size, !(TOPCALL && CARD_SKIP && g_Ldn != g_L0) ||
        result->the_long == ((L > 0 || !g_idr) ? g_res_skip * (long)g_lsize : g_res_skip))
ENSURES(a_hit_returns_the_cached_count, !(TOPCALL && CARD_HIT) || result->the_long == g_ct_val)
ENSURES(count_is_the_sum_over_every_listed_child_once, !(TOPCALL && CARD_SCAN) || (result->the_long == g_sum - __CPROVER_old(g_sum) && g_children == __CPROVER_old(g_children) + g_nnz))
;
