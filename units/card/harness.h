void h_card_compute(void)
{
    struct card_templ *op; struct oper_item *r; int w_L = nondet_int(); node_handle w_A = nondet_int();
    g_L0 = w_L; g_A0 = w_A; g_alevel = nondet_int(); g_rel = nondet_bool(); g_idr = nondet_bool(); g_Ldn = nondet_int(); g_lsize = nondet_int(); g_res_skip = nondet_long();
    g_nnz = nondet_unsigned(); g_ct_hit = nondet_bool(); g_ct_val = nondet_long(); g_sum = nondet_long(); g_children = nondet_unsigned();
    __CPROVER_assume(w_L > INT_MIN && (g_rel || w_L >= 0));                       /* set forests have unprimed levels only */
    __CPROVER_assume(1 <= g_lsize && g_nnz <= (1u << 20) && g_children < 1000000);
#ifdef CARD_NO_SKIP
    /* quick tier: every path except the skipped-level one (its 64-bit product 'count * level size' needs minutes on SAT; the thorough job has it) */
    __CPROVER_assume(!(w_A != 0 && w_L != 0 && g_alevel != w_L));
#endif
    __CPROVER_assume(g_alevel >= 1 || g_alevel <= -1 || w_A < 1);               /* only terminals are at level 0 */
    __CPROVER_assume(g_alevel == 0 || w_A >= 1);
    g_Au = (struct unpacked_node *)malloc(1); g_ct_item = (struct ct_item *)malloc(1); __CPROVER_assume(g_Au && g_ct_item);
    card_templ___compute(op, w_L, w_A, r);
    CANARY();
#ifndef CARD_NO_SKIP
    CANARY_IF(w_A != 0 && w_L != 0 && g_alevel != w_L);
#endif
    CANARY_IF(w_A != 0 && w_L != 0 && g_alevel == w_L && g_ct_hit); CANARY_IF(w_A != 0 && w_L != 0 && g_alevel == w_L && !g_ct_hit);
}
