#define LOOP_card_templ___compute_1 \
    __CPROVER_assigns(z, temp.the_long, result->the_long, g_sum, g_children) \
    __CPROVER_loop_invariant(z <= g_nnz && verif_exc == 0 && Au == g_Au && temp.mytype == opnd_type__INTEGER && result->mytype == opnd_type__INTEGER) \
    __CPROVER_loop_invariant(TOPCALL || (g_sum == __CPROVER_loop_entry(g_sum) && g_children == __CPROVER_loop_entry(g_children))) \
    __CPROVER_loop_invariant(!TOPCALL || (result->the_long == g_sum - __CPROVER_loop_entry(g_sum) && g_children == __CPROVER_loop_entry(g_children) + z)) \
    __CPROVER_decreases(g_nnz - z)
