# U-card: the counting recursion (C11: "the cardinality operation returns the number of such assignments"): card_templ<intcard>::_compute
# (src/operations/cardinality.cc), recursive (--enforce-contract-rec), with the real intcard helpers and oper_item accessors.
M = 'src/operations/cardinality.cc'
OI = 'src/oper_item.h'
def job(name, enforce, replace=(), props=('C11',), **kw):
    d = dict(name=name, entry='h_' + name, enforce=enforce, replace=list(replace), props=list(props))
    d.update(kw)
    return d
STUBS = ['forest__isForRelations', 'forest__isIdentityReduced', 'forest__getNodeLevel', 'forest__getLevelSize', 'MXD_levels__downLevel', 'MDD_levels__downLevel',
         'unpacked_node__newFromNode', 'unpacked_node__Recycle', 'unpacked_node__getSize', 'unpacked_node__down',
         'verif_ct_key_setN', 'verif_ct_find', 'verif_ct_res0', 'verif_ct_add', 'ct_item__getL', 'ct_item__setL']
def ic(name, **kw):
    d = dict(cls='intcard', name=name, file=M, static=True); d.update(kw); return d
UNIT = {
    'name': 'card',
    'subst': {'RTYPE': 'intcard'},
    'typedefs': [('src/defines.h', 'node_handle'), ('src/policies.h', 'node_storage_flags')],
    'enums': [('src/oper.h', 'opnd_type')],
    'consts': [('src/policies.h', ['FULL_ONLY', 'SPARSE_ONLY'])],
    'classes': {
        'unpacked_node': {'opaque': True}, 'ct_entry_type': {'opaque': True}, 'forest': {'opaque': True}, 'ct_item': {'opaque': True},
        'oper_item': {'file': OI, 'fields': ['mytype', 'the_long']},
        'card_templ': {'file': M, 'bases': ['unary_operation'], 'base_files': {'unary_operation': 'src/oper_unary.h'}, 'fields': ['argF', 'ct']},
        'intcard': {'opaque': True},
    },
    'foreign': {
        'isForRelations': {'*': 'forest'}, 'isIdentityReduced': {'*': 'forest'}, 'getNodeLevel': {'*': 'forest'}, 'getLevelSize': {'*': 'forest'},
        'getSize': {'*': 'unpacked_node'}, 'down': {'*': 'unpacked_node'},
        'integer': {'*': 'oper_item'}, 'getInteger': {'*': 'oper_item'}, 'hasType': {'*': 'oper_item'}, 'init': {'*': {1: 'oper_item__init_long'}},
        'getL': {'*': 'ct_item'}, 'setL': {'*': 'ct_item'},
    },
    'text_subst': [
        (r'ct_vector key\(ct->getKeySize\(\)\);', '', M),
        (r'ct_vector res\(ct->getResultSize\(\)\);', '', M),
        (r'key\[0\]\.setN\(A\);', 'verif_ct_key_setN(A);', M),
        (r'ct->findCT\(key, res\)', 'verif_ct_find(ct)', M),
        (r'RTYPE::set\(result, res\[0\]\);', 'RTYPE::set_result(result, *verif_ct_res0());', M),
        (r'RTYPE::set\(res\[0\], result\);', 'RTYPE::set_cached(*verif_ct_res0(), result);', M),
        (r'RTYPE::set\(result, 0\);', 'RTYPE::set_long(result, 0);', M),
        (r'RTYPE::set\(result, 1\);', 'RTYPE::set_long(result, 1);', M),
        (r'ct->addCT\(key, res\);', 'verif_ct_add(ct);', M),
        (r'unpacked_node::newFromNode\(', 'unpacked_node__newFromNode(', M),
        (r'unpacked_node::Recycle\(', 'unpacked_node__Recycle(', M),
        (r'MXD_levels::downLevel\(', 'MXD_levels__downLevel(', M), (r'MDD_levels::downLevel\(', 'MDD_levels__downLevel(', M),
        # oper_item temp; (default constructor: type FOREST, oper_item.cc) - initTemp sets it up
        (r'oper_item temp;', 'oper_item temp; VERIF_OPER_ITEM_FOREST(temp);', M),
        # ghost bookkeeping after each recursive call of the scan (ghost state only)
        (r'_compute\(Ldn, Au->down\(z\), temp\);', '_compute(Ldn, Au->down(z), temp); VERIF_AFTER_CHILD(L, A, temp);', M),
    ],
    'extra_free': {n: n for n in ['verif_ct_res0', 'verif_ct_key_setN', 'verif_ct_find', 'verif_ct_add', 'unpacked_node__newFromNode', 'unpacked_node__Recycle',
                                  'VERIF_OPER_ITEM_FOREST', 'VERIF_AFTER_CHILD', 'MXD_levels__downLevel', 'MDD_levels__downLevel']},
    'extra_methods': [
        dict(cls='forest', name='isForRelations', argc=0, cname='forest__isForRelations'),
        dict(cls='forest', name='isIdentityReduced', argc=0, cname='forest__isIdentityReduced'),
        dict(cls='forest', name='getNodeLevel', argc=1, cname='forest__getNodeLevel'),
        dict(cls='forest', name='getLevelSize', argc=1, cname='forest__getLevelSize'),
        dict(cls='unpacked_node', name='getSize', argc=0, cname='unpacked_node__getSize'),
        dict(cls='unpacked_node', name='down', argc=1, cname='unpacked_node__down'),
        dict(cls='ct_item', name='getL', argc=0, cname='ct_item__getL'),
        dict(cls='ct_item', name='setL', argc=1, cname='ct_item__setL'),
    ] + [dict(cls='intcard', name=n, argc=2, cname='intcard__' + n, static=True) for n in ('set_result', 'set_cached', 'set_long')],
    'functions': [
        dict(cls='oper_item', name='hasType', file=OI), dict(cls='oper_item', name='getInteger', file=OI), dict(cls='oper_item', name='integer', file=OI),
        dict(cls='oper_item', name='init', file=OI, sel=r'^long v$', cname='oper_item__init_long', argc_key='k_long'),
        ic('set', sel=r'^oper_item &result, long val$', cname='intcard__set_long'),
        ic('set', sel=r'^oper_item &result, const ct_item &cached$', cname='intcard__set_result'),
        ic('set', sel=r'^ct_item &cached, const oper_item &result$', cname='intcard__set_cached'),
        ic('scaleBy'), ic('addTo'), ic('initTemp'), ic('doneTemp'),
        dict(cls='card_templ', name='_compute', file=M, where='out', loops=1),
    ],
    'stubs': ['compute table: a hit returns the value that was added for the key; unpacked nodes (sparse view: the non-transparent children); level arithmetic (downLevel) and level sizes as ghost values',
              'oper_item temp is written as a struct whose type is set as the default constructor does (text_subst)'],
    'assumptions': ['a node is not its own descendant', 'integer result type only (the real and arbitrary-precision helper classes have the same shape)', 'machine arithmetic: counts that exceed 2^63 wrap in the source as in the contract'],
    'unverified_surroundings': {'C11': ['dd_edge iterators (first / next)', 'node_marker counts', 'realcard / mpzcard helper classes']},
    'jobs': [
        job('card_compute_no_skip', 'card_templ___compute', STUBS, loops=1, recursive=True, object_bits=11, defines=['CARD_NO_SKIP'], entry='h_card_compute'),
        job('card_compute', 'card_templ___compute', STUBS, loops=1, recursive=True, object_bits=11, tier='thorough', timeout=3600),      # ~5-10 min: the 64-bit product
    ],
}
