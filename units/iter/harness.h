#ifndef JOB_UNPR
void h_first_pri_fixed(void)
{
    struct iterator_templ *it = (struct iterator_templ *)malloc(1); __CPROVER_assume(it != NULL);
    g_k = nondet_unsigned(); g_p = nondet_int(); g_plvl = nondet_int(); g_mask_from = nondet_int(); g_mask_to = nondet_int(); g_Mfrom = nondet_int(); g_Mto = nondet_int();
    g_fully = nondet_bool(); g_down = nondet_int(); g_down_i = nondet_int(); g_rec_ret = nondet_bool(); g_rec_calls = 0; g_rec_k = nondet_unsigned(); g_rec_p = nondet_int();
    g_sets = 0;
    g_F = (struct forest *)malloc(1); g_ev = (struct edge_value *)malloc(1); g_U = nondet_bool() ? NULL : (struct unpacked_node *)malloc(1); g_Uf = NULL; __CPROVER_assume(g_F && g_ev);
    g_size = nondet_unsigned(); g_zs = nondet_unsigned(); g_idx = nondet_int(); g_ok_child = nondet_int(); g_Z = nondet_unsigned(); g_init_kind = 0;
    __CPROVER_assume(g_plvl > INT_MIN);
    _Bool r = iterator_templ__first_pri(it, g_k, g_p);
    CANARY();
    CANARY_IF(g_U == NULL); CANARY_IF(g_U != NULL && g_p != 0 && g_zs < g_size && g_zs > 2); CANARY_IF(g_U != NULL && g_p != 0 && g_zs >= g_size && g_size > 2);
    CANARY_IF(g_p != 0 && (int)g_k == -g_plvl); CANARY_IF(g_p != 0 && (int)g_k != -g_plvl && g_fully);
    CANARY_IF(g_p != 0 && (int)g_k != -g_plvl && !g_fully && g_Mto == g_Mfrom && g_mask_from != g_Mfrom); CANARY_IF(g_p != 0 && (int)g_k != -g_plvl && !g_fully && g_Mto != g_Mfrom);
}
#else
void h_first_unpr_fixed(void)
{
    struct iterator_templ *it = (struct iterator_templ *)malloc(1); __CPROVER_assume(it != NULL);
    g_k = nondet_unsigned(); g_p = nondet_int(); g_plvl = nondet_int(); g_mask_from = nondet_int(); g_mask_to = nondet_int(); g_Mfrom = nondet_int(); g_Mto = nondet_int();
    g_fully = nondet_bool(); g_down = nondet_int(); g_down_i = nondet_int(); g_rec_ret = nondet_bool(); g_rec_calls = 0; g_rec_k = nondet_unsigned(); g_rec_p = nondet_int();
    g_pri_ret = nondet_bool(); g_pri_calls = 0; g_pri_k = nondet_unsigned(); g_pri_p = nondet_int(); g_term_calls = 0; g_multi = nondet_bool(); g_sets = nondet_bool();
    g_F = (struct forest *)malloc(1); g_ev = (struct edge_value *)malloc(sizeof(struct edge_value)); g_U = NULL; g_Uf = nondet_bool() ? NULL : (struct unpacked_node *)malloc(1); __CPROVER_assume(g_F && g_ev);
    g_size = nondet_unsigned(); g_zs = nondet_unsigned(); g_idx = nondet_int(); g_ok_child = nondet_int(); g_Z = nondet_unsigned(); g_init_kind = 0;
    _Bool r = iterator_templ__first_unpr(it, g_k, g_p);
    CANARY();
    CANARY_IF(g_Uf == NULL); CANARY_IF(g_Uf != NULL && g_p != 0 && g_k != 0 && g_sets && g_zs < g_size && g_zs > 2); CANARY_IF(g_Uf != NULL && g_p != 0 && g_k != 0 && !g_sets && g_zs >= g_size && g_size > 2);
    CANARY_IF(g_p != 0 && g_k == 0 && g_multi); CANARY_IF(g_p != 0 && g_k == 0 && !g_multi && g_sets); CANARY_IF(g_p != 0 && g_k != 0 && (int)g_k == g_plvl && g_sets);
    CANARY_IF(g_p != 0 && g_k != 0 && (int)g_k != g_plvl && !g_sets);
}
#endif
