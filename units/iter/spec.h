/* U-iter: iterator_templ<EdgeOp_none>::first_pri on a primed variable the mask FIXES (C11).  Ghost model of one call: the cursor cells of level k are ghost
 * variables, the step below (first_unpr) records how it was called. */
unsigned g_k; node_handle g_p;         /* the call being checked */
int g_plvl;                            /* level of p */
int g_mask_from, g_mask_to;            /* the mask at variable k */
int g_Mfrom, g_Mto;                    /* the assignment being built, at variable k */
_Bool g_fully;                         /* fully-reduced forest (a skipped level is a redundant node); otherwise a skipped primed level is an identity pattern */
node_handle g_down;                    /* child of p along the fixed value */
int g_down_i;                          /* ghost: the index the child was read at */
_Bool g_rec_ret; unsigned g_rec_calls; unsigned g_rec_k; node_handle g_rec_p;      /* the step below */
unsigned g_size; unsigned g_zs; int g_idx; node_handle g_ok_child;      /* the scan: entries of the node, the first position with an assignment below, its index, its child */
int g_init_kind, g_init_k, g_init_i; node_handle g_init_p;            /* how the cursor node was set up: 1 redundant, 2 identity, 3 from the stored node */
struct unpacked_node *g_Uf;
struct forest *g_F; struct edge_value *g_ev; unsigned g_Z; struct unpacked_node *g_U;

struct unpacked_node *iterator_templ__U_to(struct iterator_templ *self, unsigned k) { __CPROVER_assert(k == g_k, "the cursor is read at this variable"); return g_U; }
unsigned *iterator_templ__Z_to(struct iterator_templ *self, unsigned k) __CPROVER_requires(k == g_k) __CPROVER_assigns() __CPROVER_ensures(__CPROVER_return_value == &g_Z);
struct edge_value *iterator_templ__ev_from(struct iterator_templ *self, unsigned k) __CPROVER_requires(1) __CPROVER_assigns() __CPROVER_ensures(__CPROVER_return_value == g_ev);
struct edge_value *iterator_templ__ev_to(struct iterator_templ *self, unsigned k) __CPROVER_requires(1) __CPROVER_assigns() __CPROVER_ensures(__CPROVER_return_value == g_ev);
int *iterator_templ__M_from(struct iterator_templ *self, unsigned k)
REQUIRES(the_assignment_is_read_at_this_variable, k == g_k)
__CPROVER_assigns() __CPROVER_ensures(__CPROVER_return_value == &g_Mfrom);
int *iterator_templ__M_to(struct iterator_templ *self, unsigned k)
REQUIRES(the_assignment_is_written_at_this_variable, k == g_k)
__CPROVER_assigns() __CPROVER_ensures(__CPROVER_return_value == &g_Mto);
int iterator_templ__mask_from(const struct iterator_templ *self, unsigned k) __CPROVER_requires(k == g_k) __CPROVER_assigns() __CPROVER_ensures(__CPROVER_return_value == g_mask_from);
int iterator_templ__mask_to(const struct iterator_templ *self, unsigned k) __CPROVER_requires(k == g_k) __CPROVER_assigns() __CPROVER_ensures(__CPROVER_return_value == g_mask_to);
int iterator_templ__getNodeLevel(const struct iterator_templ *self, node_handle p) __CPROVER_requires(p == g_p) __CPROVER_assigns() __CPROVER_ensures(__CPROVER_return_value == g_plvl);
const struct forest *iterator_templ__F(struct iterator_templ *self) __CPROVER_requires(1) __CPROVER_assigns() __CPROVER_ensures(__CPROVER_return_value == g_F);
_Bool g_sets;                          /* set forest (first_pri is only used on relations) */
_Bool iterator_templ__isForSets(const struct iterator_templ *self) __CPROVER_requires(1) __CPROVER_assigns() __CPROVER_ensures(__CPROVER_return_value == g_sets);
#define RECORDS_THE_STEP_BELOW __CPROVER_requires(1) __CPROVER_assigns(g_rec_calls, g_rec_k, g_rec_p) \
    __CPROVER_ensures(g_rec_calls == __CPROVER_old(g_rec_calls) + 1 && g_rec_k == k && g_rec_p == p && __CPROVER_return_value == ((g_U == NULL && g_Uf == NULL) ? g_rec_ret : (p == g_ok_child)))
_Bool verif_first_unpr_below(struct iterator_templ *self, unsigned k, node_handle p) RECORDS_THE_STEP_BELOW;
#ifndef JOB_UNPR
_Bool iterator_templ__first_unpr(struct iterator_templ *self, unsigned k, node_handle p) RECORDS_THE_STEP_BELOW;
#endif
_Bool forest__isFullyReduced(const struct forest *f) __CPROVER_requires(f == g_F) __CPROVER_assigns() __CPROVER_ensures(__CPROVER_return_value == g_fully);
node_handle forest__getDownPtr(const struct forest *f, node_handle p, int i)
REQUIRES(a_child_is_read_from_the_node_at_a_real_index, f == g_F && p == g_p && i >= 0)
__CPROVER_assigns(g_down_i) __CPROVER_ensures(__CPROVER_return_value == g_down && g_down_i == i);
void forest__getDownPtr_ev(const struct forest *f, node_handle p, int i, struct edge_value *ev, node_handle *dn) __CPROVER_requires(0) __CPROVER_assigns() __CPROVER_ensures(1);
_Bool EdgeOp_none__hasEdgeValues(void) { return 0; }        /* as EdgeOp_none::hasEdgeValues() in src/forest_edgerules.h (an executable stub, listed under assumptions) */
void EdgeOp_none__accumulateOp(struct edge_value *a, const struct edge_value *b) __CPROVER_requires(0) __CPROVER_assigns() __CPROVER_ensures(1);
void EdgeOp_none__clear(struct edge_value *a) __CPROVER_requires(0) __CPROVER_assigns() __CPROVER_ensures(1);
struct edge_value EdgeOp_none__applyOp(const struct edge_value *a, const struct edge_value *b) __CPROVER_requires(0) __CPROVER_assigns() __CPROVER_ensures(1);
void unpacked_node__initRedundant(struct unpacked_node *u, int k, node_handle p) REQUIRES(only_the_cursor_node_of_a_free_variable_is_used, u != NULL && (u == g_U || u == g_Uf)) __CPROVER_assigns(g_init_kind, g_init_k, g_init_i, g_init_p) __CPROVER_ensures(g_init_kind == 1 && g_init_k == k && g_init_p == p);
void unpacked_node__initRedundant_ev(struct unpacked_node *u, int k, const struct edge_value *ev, node_handle p) __CPROVER_requires(0) __CPROVER_assigns() __CPROVER_ensures(1);
void unpacked_node__initIdentity(struct unpacked_node *u, int k, int i, node_handle p) REQUIRES(only_the_cursor_node_of_a_free_variable_is_used, u != NULL && (u == g_U || u == g_Uf)) __CPROVER_assigns(g_init_kind, g_init_k, g_init_i, g_init_p) __CPROVER_ensures(g_init_kind == 2 && g_init_k == k && g_init_i == i && g_init_p == p);
void unpacked_node__initIdentity_ev(struct unpacked_node *u, int k, int i, const struct edge_value *ev, node_handle p) __CPROVER_requires(0) __CPROVER_assigns() __CPROVER_ensures(1);
void unpacked_node__initFromNode(struct unpacked_node *u, node_handle p) REQUIRES(only_the_cursor_node_of_a_free_variable_is_used, u != NULL && (u == g_U || u == g_Uf)) __CPROVER_assigns(g_init_kind, g_init_k, g_init_i, g_init_p) __CPROVER_ensures(g_init_kind == 3 && g_init_p == p);
unsigned unpacked_node__getSize(const struct unpacked_node *u) REQUIRES(only_the_cursor_node_of_a_free_variable_is_used, u != NULL && (u == g_U || u == g_Uf)) __CPROVER_assigns() __CPROVER_ensures(__CPROVER_return_value == g_size);
int unpacked_node__index(const struct unpacked_node *u, unsigned z) REQUIRES(only_the_cursor_node_of_a_free_variable_is_used, u != NULL && (u == g_U || u == g_Uf)) REQUIRES(entries_are_read_inside_the_node, z < g_size) __CPROVER_assigns() __CPROVER_ensures(z != g_zs || __CPROVER_return_value == g_idx);
node_handle unpacked_node__down(const struct unpacked_node *u, unsigned z) REQUIRES(only_the_cursor_node_of_a_free_variable_is_used, u != NULL && (u == g_U || u == g_Uf)) REQUIRES(children_are_read_inside_the_node, z < g_size) __CPROVER_assigns() __CPROVER_ensures((z >= g_zs || __CPROVER_return_value != g_ok_child) && (z != g_zs || __CPROVER_return_value == g_ok_child));
struct edge_value *unpacked_node__edgeval(const struct unpacked_node *u, unsigned z) __CPROVER_requires(0) __CPROVER_assigns() __CPROVER_ensures(1);
struct edge_value *verif_zero_ev(void) __CPROVER_requires(0) __CPROVER_assigns() __CPROVER_ensures(1);

#ifndef JOB_UNPR
#define FIXED_I   (g_mask_to == DONT_CHANGE ? __CPROVER_old(g_Mfrom) : g_mask_to)
#define AT_LEVEL  ((int)k == -g_plvl)
_Bool iterator_templ__first_pri(struct iterator_templ *self, unsigned k, node_handle p)
__CPROVER_requires(self != NULL && k == g_k && p == g_p && k >= 1 && k <= (1u << 30) && verif_exc == 0)
__CPROVER_requires(g_U == NULL || (__CPROVER_is_fresh(g_U, 1) && g_size <= (1u << 20)))     /* g_U == NULL: the mask fixes x'_k; otherwise x'_k is free and g_U is its cursor node */
__CPROVER_requires(g_U != NULL || g_mask_to >= 0 || g_mask_to == DONT_CHANGE)
__CPROVER_requires(g_Mfrom >= 0 && (g_mask_to == DONT_CHANGE || g_Mto == g_mask_to))        /* the caller wrote the fixed value into the assignment */
__CPROVER_requires(g_rec_calls == 0)
__CPROVER_assigns(g_Mto, g_Z, g_rec_calls, g_rec_k, g_rec_p, g_down_i, g_init_kind, g_init_k, g_init_i, g_init_p)
ENSURES(nothing_is_raised, verif_exc == 0)
ENSURES(the_unprimed_value_is_left_alone, g_Mfrom == __CPROVER_old(g_Mfrom) && (g_U != NULL || g_Z == __CPROVER_old(g_Z)))
ENSURES(the_empty_function_has_no_assignment, p != 0 || (__CPROVER_return_value == 0 && g_rec_calls == 0))
ENSURES(an_unchanged_position_takes_the_unprimed_value, p == 0 || g_U != NULL || g_mask_to != DONT_CHANGE || g_Mto == g_Mfrom)
ENSURES(a_fixed_position_keeps_the_fixed_value, p == 0 || g_U != NULL || g_mask_to == DONT_CHANGE || g_Mto == g_mask_to)
ENSURES(a_node_at_the_level_is_followed_along_the_fixed_value, !(p != 0 && g_U == NULL && AT_LEVEL) ||
        (g_rec_calls == 1 && g_rec_k == k - 1 && g_rec_p == g_down && g_down_i == g_Mto && __CPROVER_return_value == g_rec_ret))
ENSURES(a_skipped_redundant_level_matches_every_value, !(p != 0 && g_U == NULL && !AT_LEVEL && g_fully) ||
        (g_rec_calls == 1 && g_rec_k == k - 1 && g_rec_p == p && __CPROVER_return_value == g_rec_ret))
/* the property: across a skipped primed level of a forest that is not fully reduced the function is the identity pattern: x'_k == x_k matches, anything else does not -
 * whatever the mask says about x_k */
ENSURES(a_skipped_identity_level_matches_exactly_the_equal_value, !(p != 0 && g_U == NULL && !AT_LEVEL && !g_fully && g_Mto == g_Mfrom) ||
        (g_rec_calls == 1 && g_rec_k == k - 1 && g_rec_p == p && __CPROVER_return_value == g_rec_ret))
ENSURES(a_skipped_identity_level_rejects_every_other_value, !(p != 0 && g_U == NULL && !AT_LEVEL && !g_fully && g_Mto != g_Mfrom) ||
        (g_rec_calls == 0 && __CPROVER_return_value == 0))
/* ---- x'_k is free: the scan over the cursor node ---- */
ENSURES(a_node_at_the_level_is_scanned_itself, !(p != 0 && g_U != NULL && AT_LEVEL) || (g_init_kind == 3 && g_init_p == p))
ENSURES(a_skipped_redundant_level_is_scanned_over_every_value, !(p != 0 && g_U != NULL && !AT_LEVEL && g_fully) || (g_init_kind == 1 && g_init_k == -(int)k && g_init_p == p))
ENSURES(a_skipped_identity_level_is_scanned_over_the_equal_value_only, !(p != 0 && g_U != NULL && !AT_LEVEL && !g_fully) ||
        (g_init_kind == 2 && g_init_k == -(int)k && g_init_i == g_Mfrom && g_init_p == p))
ENSURES(the_scan_stops_at_the_first_entry_with_an_assignment_below_and_reports_its_index, !(p != 0 && g_U != NULL && g_zs < g_size) ||
        (__CPROVER_return_value == 1 && g_Z == g_zs && g_Mto == g_idx && g_rec_calls == g_zs + 1 && g_rec_k == k - 1 && g_rec_p == g_ok_child))
ENSURES(a_scan_that_finds_nothing_has_tried_every_entry, !(p != 0 && g_U != NULL && g_zs >= g_size) || (__CPROVER_return_value == 0 && g_rec_calls == g_size))
;
#endif

/* ---- first_unpr on an unprimed variable the mask FIXES (U_from(k) == 0); the primed step (first_pri) records how it was called ---- */
_Bool g_multi; unsigned g_term_calls; _Bool g_pri_ret; unsigned g_pri_calls; unsigned g_pri_k; node_handle g_pri_p;
struct unpacked_node *iterator_templ__U_from(struct iterator_templ *self, unsigned k) { __CPROVER_assert(k == g_k, "the cursor is read at this variable"); return g_Uf; }
unsigned *iterator_templ__Z_from(struct iterator_templ *self, unsigned k) __CPROVER_requires(k == g_k) __CPROVER_assigns() __CPROVER_ensures(__CPROVER_return_value == &g_Z);
_Bool iterator_templ__isMultiTerminal(const struct iterator_templ *self) __CPROVER_requires(1) __CPROVER_assigns() __CPROVER_ensures(__CPROVER_return_value == g_multi);
void iterator_templ__M_setTerm(const struct iterator_templ *self, node_handle p) __CPROVER_requires(p == g_p) __CPROVER_assigns(g_term_calls) __CPROVER_ensures(g_term_calls == __CPROVER_old(g_term_calls) + 1);
void iterator_templ__M_setTerm_ev(const struct iterator_templ *self, const struct edge_value *v, node_handle p) __CPROVER_requires(p == g_p) __CPROVER_assigns(g_term_calls) __CPROVER_ensures(g_term_calls == __CPROVER_old(g_term_calls) + 1);
#ifdef JOB_UNPR
_Bool iterator_templ__first_pri(struct iterator_templ *self, unsigned k, node_handle p)
__CPROVER_requires(1) __CPROVER_assigns(g_pri_calls, g_pri_k, g_pri_p)
__CPROVER_ensures(g_pri_calls == __CPROVER_old(g_pri_calls) + 1 && g_pri_k == k && g_pri_p == p && __CPROVER_return_value == ((g_Uf == NULL) ? g_pri_ret : (p == g_ok_child)));

#define U_AT_LEVEL ((int)k == g_plvl)
#define U_NEXT     (U_AT_LEVEL ? g_down : p)
_Bool iterator_templ__first_unpr(struct iterator_templ *self, unsigned k, node_handle p)
__CPROVER_requires(self != NULL && k == g_k && p == g_p && k <= (1u << 30) && verif_exc == 0)
__CPROVER_requires(g_Uf == NULL || (__CPROVER_is_fresh(g_Uf, 1) && g_size <= (1u << 20)))    /* g_Uf == NULL: the mask fixes x_k; otherwise x_k is free and g_Uf is its cursor node */
__CPROVER_requires(g_Uf != NULL || g_mask_from >= 0)
__CPROVER_requires(g_rec_calls == 0 && g_pri_calls == 0 && g_term_calls == 0)
__CPROVER_assigns(g_Z, g_Mfrom, g_init_kind, g_init_k, g_init_i, g_init_p, g_rec_calls, g_rec_k, g_rec_p, g_pri_calls, g_pri_k, g_pri_p, g_down_i, g_term_calls)
ENSURES(nothing_is_raised, verif_exc == 0)
ENSURES(the_assignment_is_left_alone_at_a_fixed_variable, g_Mto == __CPROVER_old(g_Mto) && (g_Uf != NULL || (g_Mfrom == __CPROVER_old(g_Mfrom) && g_Z == __CPROVER_old(g_Z))))
ENSURES(the_empty_function_has_no_assignment, p != 0 || (__CPROVER_return_value == 0 && g_rec_calls == 0 && g_pri_calls == 0 && g_term_calls == 0))
ENSURES(below_the_last_variable_the_value_is_reported_once, !(p != 0 && k == 0) || (__CPROVER_return_value == 1 && g_term_calls == 1 && g_rec_calls == 0 && g_pri_calls == 0))
ENSURES(a_node_at_the_level_is_read_at_the_fixed_value, !(p != 0 && k != 0 && g_Uf == NULL && U_AT_LEVEL) || g_down_i == g_mask_from)
ENSURES(in_a_set_the_next_unprimed_variable_follows, !(p != 0 && k != 0 && g_Uf == NULL && g_sets) ||
        (g_rec_calls == 1 && g_pri_calls == 0 && g_term_calls == 0 && g_rec_k == k - 1 && g_rec_p == U_NEXT && __CPROVER_return_value == g_rec_ret))
ENSURES(in_a_relation_the_primed_variable_follows, !(p != 0 && k != 0 && g_Uf == NULL && !g_sets) ||
        (g_pri_calls == 1 && g_rec_calls == 0 && g_term_calls == 0 && g_pri_k == k && g_pri_p == U_NEXT && __CPROVER_return_value == g_pri_ret))
/* ---- x_k is free: the scan over the cursor node ---- */
#define U_FREE (p != 0 && k != 0 && g_Uf != NULL)
ENSURES(a_node_at_the_level_is_scanned_itself, !(U_FREE && U_AT_LEVEL) || (g_init_kind == 3 && g_init_p == p))
ENSURES(a_skipped_unprimed_level_is_scanned_over_every_value, !(U_FREE && !U_AT_LEVEL) || (g_init_kind == 1 && g_init_k == (int)k && g_init_p == p))
ENSURES(the_scan_stops_at_the_first_entry_with_an_assignment_below_and_reports_its_index, !(U_FREE && g_zs < g_size) ||
        (__CPROVER_return_value == 1 && g_Z == g_zs && g_Mfrom == g_idx && g_term_calls == 0 &&
         (g_sets ? (g_rec_calls == g_zs + 1 && g_pri_calls == 0 && g_rec_k == k - 1 && g_rec_p == g_ok_child)
                 : (g_pri_calls == g_zs + 1 && g_rec_calls == 0 && g_pri_k == k && g_pri_p == g_ok_child))))
ENSURES(a_scan_that_finds_nothing_has_tried_every_entry, !(U_FREE && g_zs >= g_size) ||
        (__CPROVER_return_value == 0 && (g_sets ? (g_rec_calls == g_size && g_pri_calls == 0) : (g_pri_calls == g_size && g_rec_calls == 0))))
;
#endif
