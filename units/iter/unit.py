# U-iter: the per-variable steps of the enumeration (first_pri and first_unpr, fixed and free variables) (C11: "a mask restricts the enumeration to the matching assignments and nothing else"; expansion of
# skipped primed levels by the reduction rule): iterator_templ<EdgeOp_none>::first_pri (src/dd_edge.cc) on a primed variable that the mask fixes (U_to(k) == 0), and iterator_templ<EdgeOp_none>::first_unpr on an unprimed variable that the mask fixes (U_from(k) == 0).
M = 'src/dd_edge.cc'
def job(name, enforce, replace=(), props=('C11',), **kw):
    d = dict(name=name, entry='h_' + name, enforce=enforce, replace=list(replace), props=list(props))
    d.update(kw)
    return d
def im(name, argc, **kw):
    d = dict(cls='iterator_templ', name=name, argc=argc, cname='iterator_templ__' + name); d.update(kw); return d
def um(name, argc, **kw):
    d = dict(cls='unpacked_node', name=name, argc=argc, cname='unpacked_node__' + name); d.update(kw); return d
STUBS = ['verif_first_unpr_below', 'iterator_templ__Z_to', 'iterator_templ__ev_from', 'iterator_templ__ev_to', 'iterator_templ__M_from', 'iterator_templ__M_to',
         'iterator_templ__mask_from', 'iterator_templ__mask_to', 'iterator_templ__getNodeLevel', 'iterator_templ__F', 'iterator_templ__first_unpr', 'iterator_templ__isForSets',
         'forest__isFullyReduced', 'forest__getDownPtr', 'forest__getDownPtr_ev', 'EdgeOp_none__accumulateOp', 'EdgeOp_none__clear', 'EdgeOp_none__applyOp',
         'unpacked_node__initRedundant', 'unpacked_node__initRedundant_ev', 'unpacked_node__initIdentity', 'unpacked_node__initIdentity_ev', 'unpacked_node__initFromNode',
         'unpacked_node__getSize', 'unpacked_node__index', 'unpacked_node__down', 'unpacked_node__edgeval']
UNIT = {
    'name': 'iter',
    'subst': {'EOP': 'EdgeOp_none'},
    'typedefs': [('src/defines.h', 'node_handle')],
    'enums': [('src/edge_value.h', 'edge_type')],
    'consts': [('src/minterms.h', ['DONT_CARE', 'DONT_CHANGE'])],
    'classes': {'unpacked_node': {'opaque': True}, 'forest': {'opaque': True}, 'edge_value': {'file': 'src/edge_value.h'}, 'iterator_templ': {'opaque': True}, 'EdgeOp_none': {'opaque': True}},
    'foreign': {
        'isFullyReduced': {'*': 'forest'}, 'getDownPtr': {'*': {2: 'forest__getDownPtr', 4: 'forest__getDownPtr_ev'}},
        'initRedundant': {'*': {2: 'unpacked_node__initRedundant', 3: 'unpacked_node__initRedundant_ev'}},
        'initIdentity': {'*': {3: 'unpacked_node__initIdentity', 4: 'unpacked_node__initIdentity_ev'}},
        'initFromNode': {'*': 'unpacked_node'}, 'getSize': {'*': 'unpacked_node'}, 'index': {'*': 'unpacked_node'}, 'down': {'*': 'unpacked_node'}, 'edgeval': {'*': 'unpacked_node'},
    },
    'text_subst': [
        # the step below a FIXED variable (three sites, all in fixed-variable branches): a recording ghost call instead of the recursion
        (r'return first_unpr\(k-1, pdn\);', 'return verif_first_unpr_below(this, k-1, pdn);', M),
        (r'if \(first_unpr\(k-1, U->down\(z\)\)\) return true;', 'if (verif_first_unpr_below(this, k-1, U->down(z))) return true;', M),
        (r'const edge_value& up = isForSets\(\) \? ev_from\(k\+1\) : ev_to\(k\+1\);', 'const edge_value& up = ev_from(k+1);', M),
        (r'edge_value zero;', 'struct edge_value *verif_zero = verif_zero_ev();', M),
        (r'EOP::clear\(zero\);', 'EOP::clear(*verif_zero);', M),
        (r', zero, p\);', ', *verif_zero, p);', M),
    ],
    'extra_free': {'verif_zero_ev': 'verif_zero_ev', 'verif_first_unpr_below': 'verif_first_unpr_below'},
    'extra_methods': [
        im('U_to', 1), im('Z_to', 1), im('ev_from', 1), im('ev_to', 1), im('M_from', 1), im('M_to', 1), im('mask_from', 1), im('mask_to', 1), im('getNodeLevel', 1), im('F', 0),
        im('isForSets', 0), im('U_from', 1), im('Z_from', 1), im('isMultiTerminal', 0), im('M_setTerm', 1), im('M_setTerm', 2, cname='iterator_templ__M_setTerm_ev'),
        dict(cls='forest', name='isFullyReduced', argc=0, cname='forest__isFullyReduced'),
        dict(cls='forest', name='getDownPtr', argc=2, cname='forest__getDownPtr'), dict(cls='forest', name='getDownPtr', argc=4, cname='forest__getDownPtr_ev'),
        um('initRedundant', 2), um('initRedundant', 3, cname='unpacked_node__initRedundant_ev'), um('initIdentity', 3), um('initIdentity', 4, cname='unpacked_node__initIdentity_ev'),
        um('initFromNode', 1), um('getSize', 0), um('index', 1), um('down', 1), um('edgeval', 1),
    ] + [dict(cls='EdgeOp_none', name=n, argc=a, cname='EdgeOp_none__' + n, static=True) for (n, a) in (('hasEdgeValues', 0), ('accumulateOp', 2), ('clear', 1), ('applyOp', 2))],
    'ref_returning': ['iterator_templ__Z_from', 'iterator_templ__Z_to', 'iterator_templ__ev_from', 'iterator_templ__ev_to', 'iterator_templ__M_from', 'iterator_templ__M_to', 'unpacked_node__edgeval'],
    'ref_params': {'iterator_templ__M_setTerm_ev': [1], 'forest__getDownPtr_ev': [3, 4], 'EdgeOp_none__accumulateOp': [0, 1], 'EdgeOp_none__clear': [0], 'EdgeOp_none__applyOp': [0, 1],
                   'unpacked_node__initRedundant_ev': [2], 'unpacked_node__initIdentity_ev': [3]},
    'functions': [
        dict(cls='iterator_templ', name='first_pri', file=M, where='out', loops=1),
        dict(cls='iterator_templ', name='first_unpr', file=M, where='out', loops=2),
    ],
    'stubs': ['text_subst (each must match the source): the calls `return first_unpr(k-1, pdn);` and `if (first_unpr(k-1, U->down(z))) return true;` become a recording ghost call with the contract of the recording first_unpr stub (so the recursion of first_unpr into itself is an assumed step, not an induction); in first_unpr the reference `isForSets() ? ev_from(k+1) : ev_to(k+1)` (a conditional lvalue, not C) is extracted as `ev_from(k+1)` - it sits in the edge-valued branch, which is dead for EdgeOp_none', 'the iterator cursor accessors (M_from / M_to / mask_to / U_to ...) return ghost cells; first_unpr (the step below) records its arguments and returns an arbitrary answer; '
              'forest getters, getDownPtr and the unpacked-node calls are ghost values'],
    'assumptions': ['job first_pri_fixed covers BOTH branches of first_pri since 2026-09-23 (the name is historical): g_U == NULL is the fixed variable, otherwise the scan over the free primed variable; in the scan the step below answers true exactly on one ghost child, which first occurs at ghost position g_zs (any position, or none): the sparse cursor node is assumed sorted by index (U-sortb), so ascending position is lexicographic order', 'EdgeOp_none::hasEdgeValues() is an executable stub returning false (as in src/forest_edgerules.h), U_to(k) an executable stub returning the ghost cursor', 'EdgeOp_none instance (no edge values); job first_unpr_fixed likewise covers the fixed branch and both scans (sets, relations) of first_unpr'],
    'unverified_surroundings': {'C11': ['iterator_templ::next, iterator_templ::next (the advance after the first assignment), random_*; edge-valued instances of the iterator; that the steps add up to the enumeration of the function (induction over the diagram)']},
    'jobs': [
        job('first_pri_fixed', 'iterator_templ__first_pri', STUBS, loops=1, object_bits=11),
        job('first_unpr_fixed', 'iterator_templ__first_unpr', [x for x in STUBS if x != 'iterator_templ__first_unpr'] + ['iterator_templ__first_pri', 'iterator_templ__Z_from', 'iterator_templ__isMultiTerminal', 'iterator_templ__M_setTerm', 'iterator_templ__M_setTerm_ev'], loops=2, object_bits=11, defines=['JOB_UNPR'], recursive=True),
    ],
}
