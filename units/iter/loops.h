/* the free-variable scan of first_pri: unreachable under the contract's precondition (U_to(k) == 0); the loop contract only keeps the instrumentation finite */
#define LOOP_iterator_templ__first_pri_1 __CPROVER_assigns(g_Z, g_Mto, g_rec_calls, g_rec_k, g_rec_p) \
    __CPROVER_loop_invariant(z == &g_Z && U == g_U && verif_exc == 0 && g_Z <= g_size && g_Z <= g_zs && g_rec_calls == g_Z) __CPROVER_decreases(g_size - g_Z)
/* the two scans of first_unpr over a free unprimed variable (1: sets, 2: relations) */
#define LOOP_iterator_templ__first_unpr_1 __CPROVER_assigns(g_Z, g_Mfrom, g_rec_calls, g_rec_k, g_rec_p) \
    __CPROVER_loop_invariant(z == &g_Z && U == g_Uf && verif_exc == 0 && g_Z <= g_size && g_Z <= g_zs && g_rec_calls == g_Z && g_pri_calls == 0) __CPROVER_decreases(g_size - g_Z)
#define LOOP_iterator_templ__first_unpr_2 __CPROVER_assigns(g_Z, g_Mfrom, g_pri_calls, g_pri_k, g_pri_p) \
    __CPROVER_loop_invariant(z == &g_Z && U == g_Uf && verif_exc == 0 && g_Z <= g_size && g_Z <= g_zs && g_pri_calls == g_Z && g_rec_calls == 0) __CPROVER_decreases(g_size - g_Z)
