/* the free-variable scan of first_pri: unreachable under the contract's precondition (U_to(k) == 0); the loop contract only keeps the instrumentation finite */
#define LOOP_iterator_templ__first_pri_1 __CPROVER_assigns(g_Z, g_Mto, g_rec_calls, g_rec_k, g_rec_p) __CPROVER_loop_invariant(z == &g_Z)
