# U-rng: range queries MIN_RANGE / MAX_RANGE (C05: "the range queries (largest and smallest value taken)"): range_templ<RTYPE>::_compute
# (src/operations/maxmin_range.cc), recursive, for RTYPE = intmin and intmax with the real helper classes and the real terminal decoder.
M = 'src/operations/maxmin_range.cc'
T = 'src/terminal.h'
OI = 'src/oper_item.h'
def tf(name, **kw):
    d = dict(cls='terminal', name=name, file=T); d.update(kw); return d
def job(name, enforce, replace=(), props=('C05',), **kw):
    d = dict(name=name, entry='h_' + name, enforce=enforce, replace=list(replace), props=list(props))
    d.update(kw)
    return d
STUBS = ['forest__isTerminalNode', 'unpacked_node__newFromNode', 'unpacked_node__Recycle', 'unpacked_node__getSize', 'unpacked_node__down',
         'verif_ct_key_setN', 'verif_ct_find', 'verif_ct_res0', 'verif_ct_add', 'ct_item__getL', 'ct_item__setL']
def variant(rt):
    return [
        dict(cls=rt, src_cls='intrange', name='set', file=M, static=True, sel=r'^oper_item &result, const ct_item &cached$', cname=rt + '__set_result'),
        dict(cls=rt, src_cls='intrange', name='set', file=M, static=True, sel=r'^ct_item &cached, const oper_item &result$', cname=rt + '__set_cached'),
        dict(cls=rt, src_cls='intrange', name='initItem', file=M, static=True),
        dict(cls=rt, name='updateItem', file=M, static=True),
    ]
UNIT = {
    'name': 'rng',
    'subst': {'RTYPE': 'intmin'},
    'typedefs': [('src/defines.h', 'node_handle'), ('src/policies.h', 'node_storage_flags')],
    'enums': [('src/oper.h', 'opnd_type'), ('src/terminal.h', 'terminal_type')],
    'consts': [('src/policies.h', ['FULL_ONLY', 'SPARSE_ONLY'])],
    'classes': {
        'unpacked_node': {'opaque': True}, 'edge_value': {'opaque': True}, 'ct_entry_type': {'opaque': True}, 'forest': {'opaque': True}, 'ct_item': {'opaque': True},
        'terminal': {'file': T},
        'oper_item': {'file': OI, 'fields': ['mytype', 'the_long']},
        'range_templ': {'file': M, 'bases': ['unary_operation'], 'base_files': {'unary_operation': 'src/oper_unary.h'}, 'fields': ['argF', 'ct']},
        'intmin': {'opaque': True}, 'intmax': {'opaque': True},
    },
    'foreign': {
        'isTerminalNode': {'*': 'forest'}, 'getSize': {'*': 'unpacked_node'}, 'down': {'*': 'unpacked_node'},
        'integer': {'*': 'oper_item'}, 'getInteger': {'^t$': 'terminal', '*': 'oper_item'}, 'hasType': {'*': 'oper_item'},
        'getL': {'*': 'ct_item'}, 'setL': {'*': 'ct_item'},
        'setFromHandle': {'*': 'terminal'},
    },
    'text_subst': [
        (r'ct_vector key\(ct->getKeySize\(\)\);', '', M),
        (r'ct_vector res\(ct->getResultSize\(\)\);', '', M),
        (r'key\[0\]\.setN\(A\);', 'verif_ct_key_setN(A);', M),
        (r'ct->findCT\(key, res\)', 'verif_ct_find(ct)', M),
        (r'RTYPE::set\(r, res\[0\]\);', 'RTYPE::set_result(r, *verif_ct_res0());', M),
        (r'RTYPE::set\(res\[0\], r\);', 'RTYPE::set_cached(*verif_ct_res0(), r);', M),
        (r'ct->addCT\(key, res\);', 'verif_ct_add(ct);', M),
        (r'unpacked_node::newFromNode\(', 'unpacked_node__newFromNode(', M),
        (r'unpacked_node::Recycle\(', 'unpacked_node__Recycle(', M),
        # oper_item tmp(INTEGER): oper_item.cc constructor sets the type; the value is written before it is read
        (r'oper_item tmp\(RTYPE::getOpndType\(\)\);', 'oper_item tmp; VERIF_OPER_ITEM_INTEGER(tmp);', M),
        (r'terminal t;\s*t\.setFromHandle', 'terminal t; t.setFromHandle', M),
        (r'MEDDLY_DCASSERT\(result\.hasType\(RTYPE::getOpndType\(\)\)\);', '', M),
    ],
    'extra_free': {n: n for n in ['verif_ct_res0', 'verif_ct_key_setN', 'verif_ct_find', 'verif_ct_add', 'unpacked_node__newFromNode', 'unpacked_node__Recycle', 'VERIF_OPER_ITEM_INTEGER']},
    'extra_methods': [
        dict(cls='forest', name='isTerminalNode', argc=1, cname='forest__isTerminalNode'),
        dict(cls='unpacked_node', name='getSize', argc=0, cname='unpacked_node__getSize'),
        dict(cls='unpacked_node', name='down', argc=1, cname='unpacked_node__down'),
        dict(cls='ct_item', name='getL', argc=0, cname='ct_item__getL'),
        dict(cls='ct_item', name='setL', argc=1, cname='ct_item__setL'),
    ] + [dict(cls=rt, name=n, argc=2, cname=rt + '__' + n, static=True) for rt in ('intmin', 'intmax') for n in ('set_result', 'set_cached')],
    'functions': [
        tf('isOmega'), tf('isBoolean'), tf('isInteger'), tf('isReal'), tf('setFromHandle'), tf('getInteger'),
        dict(cls='oper_item', name='hasType', file=OI), dict(cls='oper_item', name='getInteger', file=OI), dict(cls='oper_item', name='integer', file=OI),
    ] + variant('intmin') + variant('intmax') + [
        dict(cls='range_templ', name='_compute', file=M, where='out', loops=1),       # RTYPE comes from the job's variant
        dict(cls='range_templ', name='compute', file=M, where='out'),
    ],
    'stubs': ['compute table: a hit returns the value that was added for the key (ghost g_ct_val); unpacked nodes: the FULL view lists every child at its index, '
              'the SPARSE view lists the non-transparent children only (the ghost child at index ghost_k appears at position g_zpos, which lies inside the node iff that child is not 0)',
              'oper_item tmp(INTEGER) is written as a struct with its type set (text_subst)'],
    'assumptions': ['a node is not its own descendant (children differ from the node being scanned)', 'integer ranges only (the real-valued helper classes have the same shape)'],
    'unverified_surroundings': {'C05': ['realmin / realmax helper classes', 'identity-reduced relations (skipped primed levels mean zeros off the diagonal)']},
    'jobs': [
        job('min_range_whole_function', 'range_templ__compute', STUBS + ['range_templ___compute'], defines=['RNG_MIN'], variant={'RTYPE': 'intmin'}, entry='h_range_top', object_bits=11),
        job('max_range_whole_function', 'range_templ__compute', STUBS + ['range_templ___compute'], variant={'RTYPE': 'intmax'}, entry='h_range_top', object_bits=11),
        job('min_range', 'range_templ___compute', STUBS, loops=1, recursive=True, object_bits=11, defines=['RNG_MIN'], variant={'RTYPE': 'intmin'}, entry='h_range'),
        job('max_range', 'range_templ___compute', STUBS, loops=1, recursive=True, object_bits=11, variant={'RTYPE': 'intmax'}, entry='h_range'),
    ],
}
