/* position of the ghost child in the view that was taken */
#define RNG_POS (Au == g_Au_full ? ghost_k : g_zpos)
#define LOOP_range_templ___compute_1 \
    __CPROVER_assigns(i, tmp.the_long, r->the_long) \
    __CPROVER_loop_invariant(1 <= i && verif_exc == 0 && (Au == g_Au_full || Au == g_Au_sparse) && tmp.mytype == opnd_type__INTEGER && r->mytype == opnd_type__INTEGER) \
    __CPROVER_loop_invariant(!(A == g_A0 && RNG_POS < i) || RNG_BETTER_OR_EQ(r->the_long, g_res_c)) \
    __CPROVER_decreases((Au == g_Au_full ? g_lsize : g_nnz) - i)
