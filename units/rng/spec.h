/* U-rng: MIN_RANGE / MAX_RANGE over the children of a node (C05).  RNG_MIN selects the order (defined by the job). */
#ifdef RNG_MIN
#define RNG_BETTER_OR_EQ(x, y) ((x) <= (y))      /* the scan result is a lower bound */
#else
#define RNG_BETTER_OR_EQ(x, y) ((x) >= (y))      /* ... an upper bound */
#endif
size_t ghost_k;                       /* an INDEX (value of the node's variable) below the level size */
node_handle g_A0;                     /* the node the call being checked scans */
node_handle g_c; long g_res_c;        /* the child of g_A0 at index ghost_k, and the range value of that child's function */
unsigned g_lsize, g_nnz, g_zpos;      /* level size; entries of the sparse view; position of the ghost child in the sparse view (>= g_nnz: not listed) */
struct unpacked_node *g_Au_full, *g_Au_sparse;
_Bool g_ct_hit; long g_ct_val; struct ct_item *g_ct_item;
#define VERIF_OPER_ITEM_INTEGER(x) do { (x).mytype = opnd_type__INTEGER; } while (0)

_Bool forest__isTerminalNode(const struct forest *f, node_handle p) __CPROVER_requires(f != NULL) __CPROVER_assigns() __CPROVER_ensures(__CPROVER_return_value == (p < 1));
struct unpacked_node *unpacked_node__newFromNode(const struct forest *f, node_handle p, node_storage_flags fs)
__CPROVER_requires(f != NULL && (fs == FULL_ONLY || fs == SPARSE_ONLY))
REQUIRES(only_stored_nodes_are_unpacked, p >= 1)
__CPROVER_assigns() __CPROVER_ensures(__CPROVER_return_value == (fs == FULL_ONLY ? g_Au_full : g_Au_sparse));
void unpacked_node__Recycle(struct unpacked_node *u) __CPROVER_requires(u == g_Au_full || u == g_Au_sparse) __CPROVER_assigns() __CPROVER_ensures(1);
unsigned unpacked_node__getSize(const struct unpacked_node *u) __CPROVER_requires(u == g_Au_full || u == g_Au_sparse) __CPROVER_assigns()
__CPROVER_ensures(__CPROVER_return_value == (u == g_Au_full ? g_lsize : g_nnz));
node_handle unpacked_node__down(const struct unpacked_node *u, unsigned z)
REQUIRES(children_are_read_inside_the_node, (u == g_Au_full && z < g_lsize) || (u == g_Au_sparse && z < g_nnz))
__CPROVER_assigns()
/* the full view lists the child of index ghost_k at position ghost_k; the sparse view lists it at g_zpos - if it is listed at all */
__CPROVER_ensures((u == g_Au_full && z == ghost_k) ==> __CPROVER_return_value == g_c)
__CPROVER_ensures((u == g_Au_sparse && z == g_zpos) ==> __CPROVER_return_value == g_c)
__CPROVER_ensures(__CPROVER_return_value != g_A0);            /* a node is not its own descendant */
void verif_ct_key_setN(node_handle a) __CPROVER_requires(1) __CPROVER_assigns() __CPROVER_ensures(1);
_Bool verif_ct_find(struct ct_entry_type *ct) __CPROVER_requires(ct != NULL) __CPROVER_assigns() __CPROVER_ensures(__CPROVER_return_value == g_ct_hit);
struct ct_item *verif_ct_res0(void) __CPROVER_requires(1) __CPROVER_assigns() __CPROVER_ensures(__CPROVER_return_value == g_ct_item);
void verif_ct_add(struct ct_entry_type *ct) __CPROVER_requires(ct != NULL) __CPROVER_assigns() __CPROVER_ensures(1);
long ct_item__getL(const struct ct_item *c) __CPROVER_requires(c == g_ct_item) __CPROVER_assigns() __CPROVER_ensures(__CPROVER_return_value == g_ct_val);
void ct_item__setL(struct ct_item *c, long v) __CPROVER_requires(c == g_ct_item) __CPROVER_assigns() __CPROVER_ensures(1);

#define RNG_SCAN (A >= 1 && !g_ct_hit)
void range_templ___compute(struct range_templ *self, node_handle A, struct oper_item *r)
__CPROVER_requires(__CPROVER_is_fresh(self, sizeof(*self)) && self->argF != NULL && self->ct != NULL)
__CPROVER_requires(__CPROVER_is_fresh(r, sizeof(*r)) && r->mytype == opnd_type__INTEGER && verif_exc == 0)
__CPROVER_assigns(r->the_long)
ENSURES(nothing_is_raised, verif_exc == 0)
ENSURES(a_terminal_is_its_own_range, A >= 1 || r->the_long == (long)((A << 1) >> 1))
ENSURES(a_hit_returns_the_cached_range, !(A >= 1 && g_ct_hit) || r->the_long == g_ct_val)
/* calls below the call being checked: the ghost child's function has the range value g_res_c (induction hypothesis for that child) */
ENSURES(range_of_the_ghost_child, !(A == g_c && A != g_A0 && !(A >= 1 && g_ct_hit)) || r->the_long == g_res_c)
/* the call being checked: EVERY child - also a transparent one - bounds the result */
ENSURES(every_child_including_transparent_ones_bounds_the_result, !(A == g_A0 && RNG_SCAN) || RNG_BETTER_OR_EQ(r->the_long, g_res_c))
;

/* ---- the whole operation (range_templ::compute): the level the edge enters at matters in identity-reduced relations ------------------------ */
_Bool g_idr_rel;                       /* the operand forest is an identity-reduced relation forest */
void range_templ__compute(struct range_templ *self, int L, unsigned in, const struct edge_value *av, node_handle ap, struct oper_item *result)
__CPROVER_requires(__CPROVER_is_fresh(self, sizeof(*self)) && self->argF != NULL && self->ct != NULL)
__CPROVER_requires(__CPROVER_is_fresh(result, sizeof(*result)) && result->mytype == opnd_type__INTEGER && verif_exc == 0 && ap != INT_MIN)
__CPROVER_assigns(result->the_long)
ENSURES(a_constant_function_has_its_value_as_range, !(ap < 1 && !(g_idr_rel && L != 0)) || result->the_long == (long)((ap << 1) >> 1))
/* C05: the smallest / largest value TAKEN.  A terminal edge that enters an identity-reduced relation forest above level 0 is an identity pattern:
 * its value on the diagonal, 0 everywhere else - so 0 is one of the values taken */
ENSURES(an_identity_pattern_also_takes_the_value_zero, !(g_idr_rel && L != 0 && ap < 0) || RNG_BETTER_OR_EQ(result->the_long, 0))
;
