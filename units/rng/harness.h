void h_range(void)
{
    struct range_templ *op; struct oper_item *r; node_handle w_A = nondet_int();
    ghost_k = nondet_size_t(); g_A0 = w_A; g_c = nondet_int(); g_res_c = nondet_long();
    g_lsize = nondet_unsigned(); g_nnz = nondet_unsigned(); g_zpos = nondet_unsigned();
    __CPROVER_assume(1 <= g_lsize && g_lsize <= (1u << 20) && ghost_k < g_lsize);
    __CPROVER_assume(1 <= g_nnz && g_nnz <= g_lsize);                         /* a stored node has at least one non-transparent child */
    __CPROVER_assume((g_zpos < g_nnz) == (g_c != 0));                         /* the sparse view lists exactly the non-transparent children */
    __CPROVER_assume(g_c != g_A0 && g_c != INT_MIN);
    __CPROVER_assume(g_c >= 1 || g_res_c == (long)((g_c << 1) >> 1));        /* the range of a terminal child is its value */
    g_Au_full = (struct unpacked_node *)malloc(1); g_Au_sparse = (struct unpacked_node *)malloc(1); g_ct_item = (struct ct_item *)malloc(1);
    __CPROVER_assume(g_Au_full && g_Au_sparse && g_ct_item);
    g_ct_hit = nondet_bool(); g_ct_val = nondet_long();
    range_templ___compute(op, w_A, r);
    CANARY(); CANARY_IF(w_A >= 1 && !g_ct_hit && g_c == 0); CANARY_IF(w_A >= 1 && !g_ct_hit && g_c >= 1);
}
void h_range_top(void)
{
    struct range_templ *op; struct oper_item *r; struct edge_value *av = (struct edge_value *)malloc(1); node_handle w_A = nondet_int(); int w_L = nondet_int(); unsigned w_in = nondet_unsigned();
    g_idr_rel = nondet_bool(); g_A0 = w_A; g_c = nondet_int(); g_res_c = nondet_long(); ghost_k = 0; g_lsize = 2; g_nnz = 1; g_zpos = 0;
    __CPROVER_assume(g_c != g_A0 && g_c >= 1);
    g_Au_full = (struct unpacked_node *)malloc(1); g_Au_sparse = (struct unpacked_node *)malloc(1); g_ct_item = (struct ct_item *)malloc(1);
    __CPROVER_assume(g_Au_full && g_Au_sparse && g_ct_item && av);
    g_ct_hit = nondet_bool(); g_ct_val = nondet_long();
    range_templ__compute(op, w_L, w_in, av, w_A, r);
    CANARY(); CANARY_IF(g_idr_rel && w_L != 0 && w_A < 0);
}
