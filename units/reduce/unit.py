FC = 'src/forest.cc'
FH = 'src/forest.h'
UH = 'src/unpacked_node.h'
EV = 'src/edge_value.h'
PH = 'src/policies.h'
def job(name, enforce, replace=(), props=('C01', 'C02', 'C06'), **kw):
    d = dict(name=name, entry='h_' + name, enforce=enforce, replace=list(replace), props=list(props))
    d.update(kw)
    return d
def uf(name, **kw):
    d = dict(cls='unpacked_node', name=name, file=UH)
    d.update(kw)
    return d
def ef(name, **kw):
    d = dict(cls='edge_value', name=name, file=EV)
    d.update(kw)
    return d
STUBS = ['unpacked_node__Recycle', 'unpacked_node__sort', 'unpacked_node__computeHash', 'unique_table__find', 'unique_table__add',
         'unique_table__remove', 'node_headers__getFreeNodeHandle', 'node_headers__setNodeLevel', 'node_headers__setInCacheBit', 'node_headers__setNodeAddress',
         'node_headers__getNodeAddress', 'node_headers__deactivate', 'node_headers__linkNode', 'node_headers__unlinkNode', 'node_marker__setMarked',
         'logger__recordingNodeCounts', 'logger__addToActiveNodeCount', 'node_storage__makeNode', 'node_storage__unlinkDownAndRecycle',
         'forest__getLevelSize', 'forest__getVarByLevel', 'forest__hashNode',
         'terminal__ctor_th', 'terminal__adjustReal', 'terminal__getReal', 'terminal__getHandle', 'verif_round']
NORM = ['normalize_evplus_long', 'normalize_evstar_float']
UNIT = {
    'name': 'reduce',
    'typedefs': [('src/defines.h', 'node_handle'), ('src/defines.h', 'node_address'), ('src/policies.h', 'node_storage_flags')],
    'enums': [('src/edge_value.h', 'edge_type'), ('src/policies.h', 'reduction_rule'), ('src/policies.h', 'edge_labeling'),
              ('src/terminal.h', 'terminal_type')],
    'classes': {
        'node_headers': {'file': 'src/node_headers.h', 'fields': ['a_last']},
        'policies': {'file': PH, 'fields': ['useReferenceCounts', 'storage_flags', 'reduction']},
        'statset': {'file': 'src/statset.h'},
        'edge_value': {'file': EV},
        'terminal': {'file': 'src/terminal.h'},
        'unique_table': {'opaque': True}, 'node_storage': {'opaque': True}, 'node_marker': {'opaque': True}, 'logger': {'opaque': True},
        'unpacked_node': {'file': UH, 'fields': ['_down', '_index', '_edge', 'size', 'level', 'the_hash', 'is_full', 'the_edge_type']},
        'forest': {'file': FH, 'fields': ['nodeHeaders', 'deflt', 'edgeLabel', 'termprec', 'transparent_node', 'unique', 'nodeMan',
                                          'reachable', 'stats', 'theLogger'],
                   'override': {'nodeHeaders': 'struct node_headers nodeHeaders', 'deflt': 'struct policies deflt', 'stats': 'struct statset stats'}},
    },
    'foreign': {
        'getSize': {'*': 'unpacked_node'}, 'down': {'*': 'unpacked_node'}, 'index': {'*': 'unpacked_node'}, 'edgeval': {'*': 'unpacked_node'},
        'isSparse': {'*': 'unpacked_node'}, 'getLevel': {'*': 'unpacked_node'}, 'hasEdges': {'*': 'unpacked_node'}, 'hash': {'*': 'unpacked_node'},
        'sort': {'*': 'unpacked_node'}, 'computeHash': {'*': 'unpacked_node'},
        'find': {'*': 'unique_table'}, 'add': {'*': 'unique_table'}, 'remove': {'*': 'unique_table'},
        'getFreeNodeHandle': {'*': 'node_headers'}, 'setNodeLevel': {'*': 'node_headers'}, 'setInCacheBit': {'*': 'node_headers'},
        'setNodeAddress': {'nodeHeaders': 'node_headers'}, 'getNodeAddress': {'nodeHeaders': 'node_headers'}, 'deactivate': {'*': 'node_headers'},
        'linkNode': {'nodeHeaders': 'node_headers'}, 'unlinkNode': {'nodeHeaders': 'node_headers'},
        'getIncomingCount': {'*': 'node_headers'}, 'getNodeCacheCount': {'*': 'node_headers'},
        'setMarked': {'*': 'node_marker'}, 'isMarked': {'*': 'node_marker'},
        'incActive': {'*': 'statset'}, 'decActive': {'*': 'statset'},
        'recordingNodeCounts': {'*': 'logger'}, 'addToActiveNodeCount': {'*': 'logger'},
        'makeNode': {'*': 'node_storage'}, 'unlinkDownAndRecycle': {'*': 'node_storage'},
        'isFullyReduced': {'deflt': 'policies'}, 'isQuasiReduced': {'deflt': 'policies'}, 'isIdentityReduced': {'deflt': 'policies'},
        'adjustReal': {'*': 'terminal'}, 'getReal': {'*': 'terminal'}, 'getHandle': {'*': 'terminal'},
        'set': {'*': {0: 'edge_value__set_void', 'args:long|minval': 'edge_value__set_long', 'args:float|firstval': 'edge_value__set_float'}},
        'get': {'*': 'edge_value__get_EDGETYPE'},
        'subtract': {'*': 'edge_value__subtract_long'}, 'divide': {'*': 'edge_value__divide_float'},
        'equals': {'*': {'args:^ev_int$': 'edge_value__equals_int', 'args:^ev_long$': 'edge_value__equals_long',
                         'args:^ev_float$': 'edge_value__equals_float', 'args:^ev_double$': 'edge_value__equals_double'}},
        'isVoid': {'*': 'edge_value'},
    },
    'text_subst': [
        (r'normalize_evplus<long>\(\*un, ev, nnz\)', 'normalize_evplus_long(*un, ev, nnz)', FC),
        (r'normalize_evstar<float>\(\*un, ev, nnz\)', 'normalize_evstar_float(*un, ev, nnz)', FC),
        (r'terminal T\(terminal_type::REAL, un->down\(i\)\);', 'struct terminal T; terminal__ctor_th(&T, terminal_type::REAL, un->down(i));', FC),
        (r'\bround\(', 'verif_round(', FC),
        (r'getPolicies\(\)\.storage_flags', 'deflt.storage_flags', FC),
        (r'unpacked_node::Recycle\(un\)', 'unpacked_node__Recycle(un)', FC),
        (r'un->edgeval\(i\) == un->edgeval\(0\)', 'edge_value__op_eq(&(un->edgeval(i)), un->edgeval(0))', FC),
        (r'unlinkAllDown\(\*un\);', 'unlinkAllDown(*un, 0);', FC),
        (r'node_handle x = unique->remove\(h, p\);', 'unique->remove(h, p);', FC),
    ],
    'extra_free': {'normalize_evplus_long': 'normalize_evplus_long', 'normalize_evstar_float': 'normalize_evstar_float'},
    'extra_methods': [
        dict(cls='forest', name='getLevelSize', argc=1, cname='forest__getLevelSize'),
        dict(cls='forest', name='getVarByLevel', argc=1, cname='forest__getVarByLevel'),
        dict(cls='forest', name='hashNode', argc=1, cname='forest__hashNode'),
        dict(cls='forest', name='isRangeType', argc=1, cname='forest__isRangeType'),
        dict(cls='forest', name='isActiveNode', argc=1, cname='forest__isActiveNode'),
        dict(cls='forest', name='getNodeInCount', argc=1, cname='forest__getNodeInCount'),
    ],
    'defined': [],
    'ref_params': {'unique_table__find': [1], 'node_storage__makeNode': [2]},
    'functions': [
        dict(cls=None, name='normalize_evplus', file=FC, subst={'EDGETYPE': 'long'}, cname='normalize_evplus_long', loops=2,
             foreign={'get': {'*': 'edge_value__get_long'}}),
        dict(cls=None, name='normalize_evstar', file=FC, subst={'EDGETYPE': 'float'}, cname='normalize_evstar_float', loops=2,
             foreign={'get': {'*': 'edge_value__get_float'}}),
        dict(cls='forest', name='createReducedNode', file=FC, loops=4),
        dict(cls='forest', name='deleteNode', file=FC),
        dict(cls='forest', name='modifyReducedNodeInPlace', file=FC),
        dict(cls='forest', name='unlinkAllDown', file=FH, loops=1),
        dict(cls='forest', name='linkNode', file=FH, sel=r'^node_handle p$'),
        dict(cls='forest', name='getTransparentNode', file=FH),
        dict(cls='forest', name='isFullyReduced', file=FH), dict(cls='forest', name='isQuasiReduced', file=FH),
        dict(cls='forest', name='isIdentityReduced', file=FH),
        dict(cls='forest', name='getNodeAddress', file=FH), dict(cls='forest', name='setNodeAddress', file=FH),
        dict(cls='policies', name='isFullyReduced', file=PH), dict(cls='policies', name='isQuasiReduced', file=PH),
        dict(cls='policies', name='isIdentityReduced', file=PH),
        dict(cls='statset', name='incActive', file='src/statset.h'), dict(cls='statset', name='decActive', file='src/statset.h'),
        uf('getSize'), uf('isSparse'), uf('getLevel'), uf('hasEdges'), uf('hash'),
        uf('down', sel=r'^unsigned n$', nth=1), uf('index', sel=r'^unsigned n$', nth=1), uf('edgeval', sel=r'^unsigned n$', nth=1),
        ef('isVoid'),
        ef('set', sel=r'^$', cname='edge_value__set_void', argc_key=0),
        ef('set', sel=r'^long v$', cname='edge_value__set_long', argc_key='args:^long$'),
        ef('set', sel=r'^float v$', cname='edge_value__set_float', argc_key='args:^float$'),
        ef('get', sel=r'^long &v$', cname='edge_value__get_long', argc_key='args:^long&$'),
        ef('get', sel=r'^float &v$', cname='edge_value__get_float', argc_key='args:^float&$'),
        ef('subtract', sel=r'^long v$', cname='edge_value__subtract_long', argc_key='args:^sub_long$'),
        ef('divide', sel=r'^float v$', cname='edge_value__divide_float', argc_key='args:^div_float$'),
        ef('equals', sel=r'^int v$', cname='edge_value__equals_int', argc_key='args:^int$'),
        ef('equals', sel=r'^long v$', cname='edge_value__equals_long', argc_key='args:^long$'),
        ef('equals', sel=r'^float v$', cname='edge_value__equals_float', argc_key='args:^float$'),
        ef('equals', sel=r'^double v$', cname='edge_value__equals_double', argc_key='args:^double$'),
        ef('operator==', cname='edge_value__op_eq'),
    ],
    'may_throw_value': ['node_headers__getFreeNodeHandle', 'node_headers__linkNode', 'node_storage__makeNode'],
    'may_throw_void': ['node_headers__unlinkNode', 'unique_table__add', 'node_headers__setNodeAddress', 'node_storage__unlinkDownAndRecycle'],
    'stubs': [
        'unique_table::find/add/remove: ghost-recorded events (chain shape and rehash are not verified)',
        'node_headers::getFreeNodeHandle/setNodeLevel/setNodeAddress/getNodeAddress/deactivate/linkNode/unlinkNode: ghost-recorded events; real bodies under contract in U-hdr',
        'node_storage::makeNode / unlinkDownAndRecycle: ghost-recorded; real bodies (simple_separated) partly under contract in U-codec',
        'unpacked_node::Recycle/sort/computeHash: ghost-recorded; computeHash yields the ghost hash value',
        'forest::getLevelSize (>= 2), getVarByLevel, hashNode, logger, node_marker: ghost values',
        'terminal rounding helpers (termprec != 0) are declared with precondition false: that branch is outside the contract',
    ],
    'assumptions': [
        'reference-count configuration (reachable == NULL, useReferenceCounts); termprec == 0; transparent_node == 0',
        'point-wise preconditions on the scratch node: the ghost entries carry edge values of the labelling type; sparse scratch nodes list non-zero children only (at the ghost positions); size <= level size',
        'completeness of redundant / identity elimination (every such node IS eliminated) is a counting fact over all children and is not proved; soundness of each elimination is',
        'edge_value::operator== may raise MISCELLANEOUS on a malformed type tag of an entry other than the ghost ones',
    ],
    'unverified_surroundings': {
        'C01': ['unique_table.cc (chains, rehash on expand/shrink)', 'storage/simple.cc areDuplicates', 'unpacked_node.cc computeHash', 'every operation that calls createReducedNode'],
        'C02': ['forest.cc _makeRedundantsTo/_makeIdentitiesTo/modifyReducedNodeInPlace', 'forests/mtmdd.cc, mtmxd.cc swaps', 'node count bookkeeping over histories'],
        'C06': ['link balance of every operation (histories)', 'forest root-edge registry', 'leak freedom after cache clears'],
    },
    'jobs': [
        job('normalize_evplus', 'normalize_evplus_long', [], loops=2),
        job('normalize_evstar', 'normalize_evstar_float', [], loops=2, props=['C01', 'C02']),
        job('unlinkAllDown', 'forest__unlinkAllDown', STUBS, loops=1, props=['C06']),
        job('deleteNode', 'forest__deleteNode', STUBS, props=['C06', 'C02']),
        job('modifyReducedNodeInPlace', 'forest__modifyReducedNodeInPlace', STUBS, props=['C02', 'C13', 'C01'], object_bits=12),
        job('createReducedNode', 'forest__createReducedNode', STUBS + NORM + ['forest__unlinkAllDown'], loops=3, object_bits=12),
    ],
}
