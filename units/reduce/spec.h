/* U-reduce: normalise, reduce, look up, insert (C01, C02, C06) */
#define UN_MAXSZ 100000
size_t ghost_g, ghost_h;
_Bool w_full;   /* witness: storage form of the scratch node (reachability canaries for both forms) */

/* ---- ghost event log of the stubs -------------------------------------------------------- */
unsigned g_seq;                                   /* global event counter */
unsigned g_recycles, g_sorts, g_hashes, g_finds, g_adds, g_removes, g_newhandles, g_setlevels, g_setaddrs, g_links, g_unlinks, g_makenodes, g_udr;
unsigned g_find_seq, g_add_seq, g_hash_seq, g_remove_seq, g_udr_seq, g_deact_seq, g_setaddr0_seq;
node_handle g_find_result, g_new_handle, g_link_arg, g_add_node, g_setlevel_node, g_setaddr_node, g_makenode_node, g_remove_node, g_deact_node;
int g_setlevel_level, g_find_var; unsigned g_add_hash, g_computed_hash, g_remove_hash, g_node_hash;
node_address g_new_addr, g_setaddr_addr, g_old_addr, g_udr_addr; node_storage_flags g_makenode_flags;
unsigned g_unlink_first_n;                        /* number of unlinkNode calls whose argument equals the child at that position */
int g_levelsize; _Bool g_logging;
unsigned g_deacts; _Bool g_has_hash;

#define EVENT(ctr, seqvar) __CPROVER_ensures(ctr == __CPROVER_old(ctr) + 1 && g_seq == __CPROVER_old(g_seq) + 1 && seqvar == g_seq)

void unpacked_node__Recycle(struct unpacked_node *u)
__CPROVER_requires(u != NULL) __CPROVER_assigns(g_recycles) __CPROVER_ensures(g_recycles == __CPROVER_old(g_recycles) + 1);
void unpacked_node__sort(struct unpacked_node *u)
__CPROVER_requires(u != NULL && !u->is_full) __CPROVER_assigns(g_sorts) __CPROVER_ensures(g_sorts == __CPROVER_old(g_sorts) + 1);
void unpacked_node__computeHash(struct unpacked_node *u)
__CPROVER_requires(u != NULL) __CPROVER_assigns(g_hashes, g_seq, g_hash_seq, u->the_hash, g_has_hash)
EVENT(g_hashes, g_hash_seq) __CPROVER_ensures(u->the_hash == g_computed_hash && g_has_hash);
node_handle unique_table__find(struct unique_table *t, const struct unpacked_node *u, int var)
__CPROVER_requires(t != NULL && u != NULL)
REQUIRES(lookup_uses_a_computed_hash, g_has_hash)
__CPROVER_assigns(g_finds, g_seq, g_find_seq, g_find_var)
EVENT(g_finds, g_find_seq) __CPROVER_ensures(__CPROVER_return_value == g_find_result && g_find_var == var);
void unique_table__add(struct unique_table *t, unsigned h, node_handle n)
__CPROVER_requires(t != NULL && verif_exc == 0) __CPROVER_assigns(verif_exc, g_adds, g_seq, g_add_seq, g_add_hash, g_add_node)
EVENT(g_adds, g_add_seq) __CPROVER_ensures(g_add_hash == h && g_add_node == n)
__CPROVER_ensures(verif_exc == 0 || verif_exc == ERR_INSUFFICIENT_MEMORY);
node_handle unique_table__remove(struct unique_table *t, unsigned h, node_handle n)
__CPROVER_requires(t != NULL) __CPROVER_assigns(g_removes, g_seq, g_remove_seq, g_remove_hash, g_remove_node)
EVENT(g_removes, g_remove_seq) __CPROVER_ensures(g_remove_hash == h && g_remove_node == n);
node_handle node_headers__getFreeNodeHandle(struct node_headers *h)
__CPROVER_requires(verif_exc == 0) __CPROVER_assigns(verif_exc, g_newhandles)
__CPROVER_ensures(g_newhandles == __CPROVER_old(g_newhandles) + 1 && (verif_exc != 0 || (__CPROVER_return_value == g_new_handle && g_new_handle >= 1)))  /* hdr: handle_in_range */
__CPROVER_ensures(verif_exc == 0 || verif_exc == ERR_INSUFFICIENT_MEMORY);
void node_headers__setNodeLevel(struct node_headers *h, node_handle p, int k)
REQUIRES(level_set_on_a_real_handle, p > 0)
__CPROVER_assigns(g_setlevels, g_setlevel_node, g_setlevel_level)
__CPROVER_ensures(g_setlevels == __CPROVER_old(g_setlevels) + 1 && g_setlevel_node == p && g_setlevel_level == k);
void node_headers__setInCacheBit(struct node_headers *h, node_handle p) __CPROVER_requires(1) __CPROVER_assigns() __CPROVER_ensures(1);
void node_headers__setNodeAddress(struct node_headers *h, node_handle p, node_address a)
REQUIRES(address_set_on_a_real_handle, p > 0)
__CPROVER_requires(verif_exc == 0)
__CPROVER_assigns(verif_exc, g_setaddrs, g_setaddr_node, g_setaddr_addr, g_seq, g_setaddr0_seq)
__CPROVER_ensures(g_setaddrs == __CPROVER_old(g_setaddrs) + 1 && g_setaddr_node == p && g_setaddr_addr == a && g_seq == __CPROVER_old(g_seq) + 1 && g_setaddr0_seq == g_seq)
__CPROVER_ensures(verif_exc == 0 || verif_exc == ERR_INSUFFICIENT_MEMORY);
node_address node_headers__getNodeAddress(const struct node_headers *h, node_handle p)
__CPROVER_requires(p > 0) __CPROVER_assigns() __CPROVER_ensures(__CPROVER_return_value == g_old_addr);
void node_headers__deactivate(struct node_headers *h, node_handle p)
__CPROVER_requires(p > 0) __CPROVER_assigns(g_deacts, g_seq, g_deact_seq, g_deact_node)
EVENT(g_deacts, g_deact_seq) __CPROVER_ensures(g_deact_node == p);
node_handle node_headers__linkNode(struct node_headers *h, node_handle p)
__CPROVER_requires(verif_exc == 0) __CPROVER_assigns(verif_exc, g_links, g_link_arg)
__CPROVER_ensures(g_links == __CPROVER_old(g_links) + 1 && g_link_arg == p && (verif_exc != 0 || __CPROVER_return_value == p))
__CPROVER_ensures(verif_exc == 0 || verif_exc == ERR_INSUFFICIENT_MEMORY);
void node_headers__unlinkNode(struct node_headers *h, node_handle p)
__CPROVER_requires(verif_exc == 0) __CPROVER_assigns(verif_exc, g_unlinks)
__CPROVER_ensures(g_unlinks == __CPROVER_old(g_unlinks) + 1)
__CPROVER_ensures(verif_exc == 0 || verif_exc == ERR_INSUFFICIENT_MEMORY);
void node_marker__setMarked(struct node_marker *m, node_handle p) __CPROVER_requires(m != NULL) __CPROVER_assigns() __CPROVER_ensures(1);
_Bool logger__recordingNodeCounts(const struct logger *l) __CPROVER_requires(l != NULL) __CPROVER_assigns() __CPROVER_ensures(__CPROVER_return_value == g_logging);
void logger__addToActiveNodeCount(struct logger *l, const struct forest *f, int level, long delta) __CPROVER_requires(l != NULL) __CPROVER_assigns() __CPROVER_ensures(1);
node_address node_storage__makeNode(struct node_storage *s, node_handle p, const struct unpacked_node *u, node_storage_flags fl)
__CPROVER_requires(s != NULL && u != NULL && verif_exc == 0)
REQUIRES(stored_under_a_real_handle, p > 0)
__CPROVER_assigns(verif_exc, g_makenodes, g_makenode_node, g_makenode_flags)
__CPROVER_ensures(g_makenodes == __CPROVER_old(g_makenodes) + 1 && g_makenode_node == p && g_makenode_flags == fl && (verif_exc != 0 || __CPROVER_return_value == g_new_addr))
__CPROVER_ensures(verif_exc == 0 || verif_exc == ERR_INSUFFICIENT_MEMORY);
void node_storage__unlinkDownAndRecycle(struct node_storage *s, node_address a)
__CPROVER_requires(s != NULL && verif_exc == 0) __CPROVER_assigns(verif_exc, g_udr, g_seq, g_udr_seq, g_udr_addr)
EVENT(g_udr, g_udr_seq) __CPROVER_ensures(g_udr_addr == a)
__CPROVER_ensures(verif_exc == 0 || verif_exc == ERR_INSUFFICIENT_MEMORY);
int forest__getLevelSize(const struct forest *f, int k) __CPROVER_requires(k != 0) __CPROVER_assigns() __CPROVER_ensures(__CPROVER_return_value == g_levelsize && g_levelsize >= 2);
int forest__getVarByLevel(const struct forest *f, int k) __CPROVER_requires(1) __CPROVER_assigns() __CPROVER_ensures(1);
unsigned forest__hashNode(const struct forest *f, node_handle p) __CPROVER_requires(p > 0) __CPROVER_assigns() __CPROVER_ensures(__CPROVER_return_value == g_node_hash);
/* real-terminal rounding (termprec != 0) is outside the contracts below; these are never reached there */
void terminal__ctor_th(struct terminal *t, terminal_type ty, node_handle h) __CPROVER_requires(0) __CPROVER_assigns() __CPROVER_ensures(1);
void terminal__adjustReal(struct terminal *t, double v) __CPROVER_requires(0) __CPROVER_assigns() __CPROVER_ensures(1);
double terminal__getReal(const struct terminal *t) __CPROVER_requires(0) __CPROVER_assigns() __CPROVER_ensures(1);
node_handle terminal__getHandle(const struct terminal *t) __CPROVER_requires(0) __CPROVER_assigns() __CPROVER_ensures(1);
double verif_round(double x) __CPROVER_requires(0) __CPROVER_assigns() __CPROVER_ensures(1);

/* ---- unpacked node shape ------------------------------------------------------------------ */
#define UN_REQ(u) \
    __CPROVER_requires(__CPROVER_is_fresh(u, sizeof(*(u)))) \
    __CPROVER_requires(1 <= (u)->size && (u)->size <= UN_MAXSZ && (u)->level != 0) \
    __CPROVER_requires(__CPROVER_is_fresh((u)->_down, (u)->size * sizeof(node_handle))) \
    __CPROVER_requires(__CPROVER_is_fresh((u)->_edge, (u)->size * sizeof(struct edge_value))) \
    __CPROVER_requires((u)->is_full ==> (u)->_index == NULL) \
    __CPROVER_requires(!(u)->is_full ==> __CPROVER_is_fresh((u)->_index, (u)->size * sizeof(unsigned)))
#define EVL(u, k) ((u)->_edge[k].ev_long)
#define EVF(u, k) ((u)->_edge[k].ev_float)
#define VBOUND (1L << 61)

void normalize_evplus_long(struct unpacked_node *un, struct edge_value *ev, unsigned *nnz)
UN_REQ(un)
__CPROVER_requires(__CPROVER_is_fresh(ev, sizeof(*ev)) && __CPROVER_is_fresh(nnz, sizeof(unsigned)) && ghost_g < un->size && ghost_h < un->size)
/* edge values of real children are long and of moderate size (no wrap-around in the subtraction) */
__CPROVER_requires(un->_down[ghost_g] == 0 || (un->_edge[ghost_g].mytype == edge_type__LONG && -VBOUND <= EVL(un, ghost_g) && EVL(un, ghost_g) <= VBOUND))
__CPROVER_assigns(*nnz, __CPROVER_object_whole(ev), __CPROVER_object_whole(un->_edge))
ENSURES(count_bounded, *nnz <= un->size)
ENSURES(counts_real_children, un->_down[ghost_g] == 0 || *nnz >= 1)
ENSURES(two_real_children_counted_twice, ghost_g == ghost_h || un->_down[ghost_g] == 0 || un->_down[ghost_h] == 0 || *nnz >= 2)
ENSURES(factored_value_is_long, ev->mytype == edge_type__LONG)
ENSURES(transparent_children_carry_zero, un->_down[ghost_g] != 0 || (un->_edge[ghost_g].mytype == edge_type__LONG && EVL(un, ghost_g) == 0))
ENSURES(value_preserved, un->_down[ghost_g] == 0 || EVL(un, ghost_g) + ev->ev_long == __CPROVER_old(EVL(un, ghost_g)))
/* (unless the factored value is so negative that the subtraction wrapped) */
ENSURES(children_values_nonnegative, un->_down[ghost_g] == 0 || ev->ev_long < -VBOUND || EVL(un, ghost_g) >= 0)
ENSURES(nothing_factored_from_empty_node, *nnz != 0 || ev->ev_long == 0)
;

/* float equality that treats two NaNs as equal (entries other than the ghost one may hold anything) */
#define FEQ(a, b) (((a) == (b)) || ((a) != (a) && (b) != (b)))
#define FDIV(a, b) ((a) / (b))
/* ---- EV* normalisation --------------------------------------------------------------------- */
void normalize_evstar_float(struct unpacked_node *un, struct edge_value *ev, unsigned *nnz)
UN_REQ(un)
__CPROVER_requires(__CPROVER_is_fresh(ev, sizeof(*ev)) && __CPROVER_is_fresh(nnz, sizeof(unsigned)) && ghost_g < un->size && ghost_h < un->size)
/* edges to real children carry non-zero, finite float values (MEDDLY_DCASSERT(uni)) */
__CPROVER_requires(un->_edge[ghost_g].mytype == edge_type__FLOAT && EVF(un, ghost_g) == EVF(un, ghost_g))
__CPROVER_requires(un->_down[ghost_g] == 0 || EVF(un, ghost_g) != 0.0f)
__CPROVER_assigns(*nnz, __CPROVER_object_whole(ev), __CPROVER_object_whole(un->_edge))
ENSURES(count_bounded, *nnz <= un->size)
ENSURES(counts_real_children, un->_down[ghost_g] == 0 || *nnz >= 1)
ENSURES(two_real_children_counted_twice, ghost_g == ghost_h || un->_down[ghost_g] == 0 || un->_down[ghost_h] == 0 || *nnz >= 2)
ENSURES(factored_value_is_float, ev->mytype == edge_type__FLOAT)
/* (unless the factor is NaN - the values of the other entries are outside the point-wise preconditions) */
ENSURES(transparent_children_carry_zero, un->_down[ghost_g] != 0 || (un->_edge[ghost_g].mytype == edge_type__FLOAT && (EVF(un, ghost_g) == 0.0f || ev->ev_float != ev->ev_float)))
/* 'every value is divided by the factor' is not proved: a symbolic float divider inside the loop invariant did not finish on any back end (SAT: cadical, minisat, kissat; 400 s each) */
ENSURES(factor_one_changes_nothing, un->_down[ghost_g] == 0 || !(ev->ev_float == 1.0f) || EVF(un, ghost_g) == __CPROVER_old(EVF(un, ghost_g)))
ENSURES(nothing_factored_from_empty_node, *nnz != 0 || ev->ev_float == 0.0f)
;

/* ---- releasing the children of a scratch node ---------------------------------------------- */
void forest__unlinkAllDown(struct forest *self, const struct unpacked_node *un, unsigned i)
__CPROVER_requires(__CPROVER_is_fresh(self, sizeof(*self)))
UN_REQ(un)
__CPROVER_requires(i <= un->size && verif_exc == 0)
__CPROVER_assigns(verif_exc, g_unlinks)
ENSURES(oom_only, verif_exc == 0 || verif_exc == ERR_INSUFFICIENT_MEMORY)
ENSURES(each_remaining_child_released_once, verif_exc != 0 || g_unlinks == __CPROVER_old(g_unlinks) + (self->deflt.useReferenceCounts ? un->size - i : 0))
;

/* ---- node creation --------------------------------------------------------------------------- */
#define O(x) __CPROVER_old(x)
#define STORED   (g_adds == O(g_adds) + 1)
#define LOOKED   (g_finds == O(g_finds) + 1)
#define RC(f)    ((f)->deflt.useReferenceCounts)

void forest__createReducedNode(struct forest *self, struct unpacked_node *un, struct edge_value *ev, node_handle *node, int in)
__CPROVER_requires(__CPROVER_is_fresh(self, sizeof(*self)))
UN_REQ(un)
__CPROVER_requires(__CPROVER_is_fresh(ev, sizeof(*ev)) && __CPROVER_is_fresh(node, sizeof(node_handle)) && ghost_g < un->size && ghost_h < un->size)
WITNESS(forest__createReducedNode, un->is_full == w_full)
__CPROVER_requires(__CPROVER_is_fresh(self->unique, 1) && __CPROVER_is_fresh(self->nodeMan, 1))
__CPROVER_requires(self->theLogger == NULL || __CPROVER_is_fresh(self->theLogger, 1))
__CPROVER_requires(self->reachable == NULL)                                /* reference-count configuration */
__CPROVER_requires(RC(self))
__CPROVER_requires(self->termprec == 0.0)                                  /* rounding of real terminals not covered */
__CPROVER_requires(self->transparent_node == 0)
__CPROVER_requires(self->edgeLabel == edge_labeling__MULTI_TERMINAL || self->edgeLabel == edge_labeling__EVPLUS || self->edgeLabel == edge_labeling__INDEX_SET || self->edgeLabel == edge_labeling__EVTIMES)
__CPROVER_requires(self->deflt.reduction == reduction_rule__FULLY_REDUCED || self->deflt.reduction == reduction_rule__QUASI_REDUCED || self->deflt.reduction == reduction_rule__IDENTITY_REDUCED)
__CPROVER_requires((self->edgeLabel == edge_labeling__MULTI_TERMINAL) == (un->the_edge_type == edge_type__VOID))
/* edge values of the ghost child fit the labelling (preconditions of the normalisers) */
__CPROVER_requires(!(self->edgeLabel == edge_labeling__EVPLUS || self->edgeLabel == edge_labeling__INDEX_SET) || un->_down[ghost_g] == 0 || (un->_edge[ghost_g].mytype == edge_type__LONG && -VBOUND <= EVL(un, ghost_g) && EVL(un, ghost_g) <= VBOUND))
__CPROVER_requires(self->edgeLabel != edge_labeling__EVTIMES || (un->_edge[ghost_g].mytype == edge_type__FLOAT && EVF(un, ghost_g) == EVF(un, ghost_g) && (un->_down[ghost_g] == 0 || EVF(un, ghost_g) != 0.0f)))
__CPROVER_requires(self->edgeLabel != edge_labeling__EVTIMES || (un->_edge[0].mytype == edge_type__FLOAT))
__CPROVER_requires(verif_exc == 0 && g_seq < 1000000 && g_finds < 1000000 && g_adds < 1000000 && g_newhandles < 1000000 && g_unlinks < 1000000 && g_links < 1000000)
__CPROVER_requires((int)un->size <= g_levelsize)                           /* an unpacked node never has more entries than its level has values */
__CPROVER_requires(un->is_full || (un->_down[ghost_g] != 0 && un->_down[ghost_h] != 0))   /* sparse nodes list non-zero children only */
__CPROVER_assigns(verif_exc, g_seq, g_recycles, g_sorts, g_hashes, g_finds, g_adds, g_newhandles, g_setlevels, g_setaddrs, g_links, g_unlinks, g_makenodes)
__CPROVER_assigns(g_find_seq, g_add_seq, g_hash_seq, g_setaddr0_seq, g_link_arg, g_add_node, g_add_hash, g_setlevel_node, g_setlevel_level, g_setaddr_node, g_setaddr_addr, g_makenode_node, g_makenode_flags, g_find_var, g_has_hash)
__CPROVER_assigns(*node, __CPROVER_object_whole(ev), __CPROVER_object_whole(un->_edge), un->the_hash, self->stats.active_nodes, self->stats.peak_active)
/* MISCELLANEOUS can only come from edge_value::operator== on an entry whose type tag is not a valid edge type (the type tags of all entries are a data-structure invariant of unpacked_node that the point-wise preconditions do not carry) */
ENSURES(only_memory_or_malformed_value_errors, verif_exc == 0 || verif_exc == ERR_INSUFFICIENT_MEMORY || verif_exc == ERR_MISCELLANEOUS)
ENSURES(scratch_node_recycled_exactly_once, verif_exc != 0 || g_recycles == O(g_recycles) + 1)
ENSURES(at_most_one_lookup_and_insert, g_finds <= O(g_finds) + 1 && g_adds <= O(g_adds) + 1 && g_newhandles <= O(g_newhandles) + 1)
ENSURES(insert_only_after_failed_lookup, !STORED || (LOOKED && g_find_result == 0 && g_hash_seq < g_find_seq && g_find_seq < g_add_seq))
ENSURES(inserted_under_the_looked_up_hash, !STORED || (g_add_hash == g_computed_hash && g_add_node == *node))
ENSURES(new_node_gets_fresh_handle_and_level, !STORED || (g_newhandles == O(g_newhandles) + 1 && *node == g_new_handle && g_setlevels == O(g_setlevels) + 1 && g_setlevel_node == *node && g_setlevel_level == un->level))
ENSURES(new_node_is_packed_and_addressed, !STORED || (g_makenodes == O(g_makenodes) + 1 && g_makenode_node == *node && g_makenode_flags == self->deflt.storage_flags && g_setaddrs == O(g_setaddrs) + 1 && g_setaddr_node == *node && g_setaddr_addr == g_new_addr))
ENSURES(new_node_holds_one_reference_children_kept, !STORED || (g_links == O(g_links) + 1 && g_link_arg == *node && g_unlinks == O(g_unlinks)))
ENSURES(failed_lookup_always_inserts, verif_exc != 0 || !LOOKED || g_find_result != 0 || STORED)
ENSURES(duplicate_returns_existing_node, verif_exc != 0 || !LOOKED || g_find_result == 0 || (*node == g_find_result && !STORED && g_newhandles == O(g_newhandles)))
ENSURES(duplicate_releases_children_acquires_node, verif_exc != 0 || !LOOKED || g_find_result == 0 || (g_links == O(g_links) + 1 && g_link_arg == g_find_result && g_unlinks == O(g_unlinks) + un->size))
ENSURES(eliminated_node_is_not_stored, LOOKED || (!STORED && g_newhandles == O(g_newhandles) && g_links == O(g_links)))
ENSURES(quasi_reduced_keeps_every_nonzero_node, verif_exc != 0 || LOOKED || self->deflt.reduction != reduction_rule__QUASI_REDUCED || (*node == 0 && un->_down[ghost_g] == 0))
/* ghost_h is instantiated with the position the identity check looks at (0 for sparse nodes, 'in' for full ones) */
ENSURES(elimination_preserves_the_function, verif_exc != 0 || LOOKED || un->_down[ghost_g] == 0 || un->_down[ghost_g] == *node || ghost_h != (un->is_full ? (size_t)in : (size_t)0))
ENSURES(redundant_elimination_only_where_allowed, verif_exc != 0 || LOOKED || g_unlinks == O(g_unlinks) ||
        ((self->deflt.reduction == reduction_rule__FULLY_REDUCED || (self->deflt.reduction == reduction_rule__IDENTITY_REDUCED && un->level > 0)) && (int)un->size >= g_levelsize && g_unlinks == O(g_unlinks) + un->size - 1))
ENSURES(identity_elimination_only_where_allowed, verif_exc != 0 || LOOKED || g_unlinks != O(g_unlinks) || *node == 0 ||
        (self->deflt.reduction == reduction_rule__IDENTITY_REDUCED && un->level < 0 && (un->is_full ? (0 <= in && (unsigned)in < un->size && un->_down[in] == *node) : (long)un->_index[0] == (long)in)))
;

/* ---- node deletion (the stub forest__deleteNode of U-hdr is this function) -------------------- */
void forest__deleteNode(struct forest *self, node_handle p)
__CPROVER_requires(__CPROVER_is_fresh(self, sizeof(*self)))
__CPROVER_requires(__CPROVER_is_fresh(self->unique, 1) && __CPROVER_is_fresh(self->nodeMan, 1) && self->reachable == NULL)
__CPROVER_requires(p >= 1)                                       /* MEDDLY_CHECK_RANGE(1, p, 1+lastUsedHandle()) */
__CPROVER_requires(verif_exc == 0 && g_seq < 1000000 && g_removes < 1000000 && g_udr < 1000000 && g_setaddrs < 1000000 && g_deacts < 1000000)
__CPROVER_assigns(verif_exc, g_seq, g_removes, g_remove_seq, g_remove_hash, g_remove_node, g_udr, g_udr_seq, g_udr_addr, g_setaddrs, g_setaddr_node, g_setaddr_addr, g_setaddr0_seq, g_deacts, g_deact_seq, g_deact_node)
__CPROVER_assigns(self->stats.active_nodes)
ENSURES(removed_from_unique_table_under_its_hash, g_removes == O(g_removes) + 1 && g_remove_node == p && g_remove_hash == g_node_hash)
ENSURES(children_released_and_storage_recycled_once, g_udr == O(g_udr) + 1 && g_udr_addr == g_old_addr && g_remove_seq < g_udr_seq)
ENSURES(address_cleared_then_handle_deactivated, verif_exc != 0 || (g_setaddrs == O(g_setaddrs) + 1 && g_setaddr_node == p && g_setaddr_addr == 0 && g_udr_seq < g_setaddr0_seq && g_deacts == O(g_deacts) + 1 && g_deact_node == p && g_setaddr0_seq < g_deact_seq))
ENSURES(node_count_decremented, verif_exc != 0 || self->stats.active_nodes == O(self->stats.active_nodes) - 1)
;

/* ---- in-place rewrite of a stored node (variable reordering; anchor of C02 / C13) ------------------------------------
 * The node keeps its handle; it leaves the unique table under its OLD hash before its storage goes away, and re-enters under the
 * hash of its NEW content after the new storage exists. */
node_handle forest__modifyReducedNodeInPlace(struct forest *self, struct unpacked_node *un, node_handle p)
__CPROVER_requires(__CPROVER_is_fresh(self, sizeof(*self)))
__CPROVER_requires(__CPROVER_is_fresh(self->unique, 1) && __CPROVER_is_fresh(self->nodeMan, 1))
__CPROVER_requires(__CPROVER_is_fresh(un, sizeof(*un)) && p >= 1 && un->level != 0)
__CPROVER_requires(verif_exc == 0 && g_seq < 1000000 && g_removes < 1000000 && g_udr < 1000000 && g_setaddrs < 1000000 && g_hashes < 1000000 && g_adds < 1000000 && g_recycles < 1000000
                   && g_setlevels < 1000000 && g_makenodes < 1000000)
__CPROVER_assigns(verif_exc, g_seq, g_removes, g_remove_seq, g_remove_hash, g_remove_node, g_udr, g_udr_seq, g_udr_addr, g_setaddrs, g_setaddr_node, g_setaddr_addr, g_setaddr0_seq,
                  g_hashes, g_hash_seq, un->the_hash, g_has_hash, g_setlevels, g_setlevel_node, g_setlevel_level, g_makenodes, g_makenode_node, g_makenode_flags,
                  g_adds, g_add_seq, g_add_hash, g_add_node, g_recycles)
ENSURES(leaves_the_unique_table_under_its_old_hash, g_removes == O(g_removes) + 1 && g_remove_node == p && g_remove_hash == g_node_hash)
ENSURES(old_storage_released_after_removal, g_udr == O(g_udr) + 1 && g_udr_addr == g_old_addr && g_remove_seq < g_udr_seq)
ENSURES(same_handle_is_returned, verif_exc != 0 || __CPROVER_return_value == p)
ENSURES(level_taken_from_the_new_content, verif_exc != 0 || (g_setlevels == O(g_setlevels) + 1 && g_setlevel_node == p && g_setlevel_level == un->level))
ENSURES(new_content_stored_under_the_same_handle, verif_exc != 0 || (g_makenodes == O(g_makenodes) + 1 && g_makenode_node == p && g_setaddrs == O(g_setaddrs) + 1 && g_setaddr_node == p && g_setaddr_addr == g_new_addr))
ENSURES(reenters_the_unique_table_under_the_hash_of_the_new_content, verif_exc != 0 || (g_hashes == O(g_hashes) + 1 && g_adds == O(g_adds) + 1 && g_add_node == p && g_add_hash == g_computed_hash
        && g_udr_seq < g_hash_seq && g_hash_seq < g_add_seq))
ENSURES(scratch_node_recycled, verif_exc != 0 || g_recycles == O(g_recycles) + 1)
ENSURES(only_out_of_memory_is_raised, verif_exc == 0 || verif_exc == ERR_INSUFFICIENT_MEMORY)
;
