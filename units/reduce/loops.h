#define LOOP_normalize_evplus_long_1 \
    __CPROVER_assigns(i, *nnz, minval, __CPROVER_object_whole(un->_edge)) \
    __CPROVER_loop_invariant(i <= un->size && *nnz <= i) \
    __CPROVER_loop_invariant(ev->mytype == edge_type__LONG && ev->ev_long == 0) \
    __CPROVER_loop_invariant(*nnz != 0 || minval == 0) \
    __CPROVER_loop_invariant(ghost_g >= i || un->_down[ghost_g] == 0 || (*nnz >= 1 && minval <= EVL(un, ghost_g) && EVL(un, ghost_g) == __CPROVER_loop_entry(EVL(un, ghost_g)))) \
    __CPROVER_loop_invariant(ghost_g >= i || un->_down[ghost_g] != 0 || (un->_edge[ghost_g].mytype == edge_type__LONG && EVL(un, ghost_g) == 0)) \
    __CPROVER_loop_invariant(ghost_g < i || un->_down[ghost_g] == 0 || (un->_edge[ghost_g].mytype == edge_type__LONG && EVL(un, ghost_g) == __CPROVER_loop_entry(EVL(un, ghost_g)))) \
    __CPROVER_loop_invariant(ghost_h >= i || un->_down[ghost_h] == 0 || *nnz >= 1) \
    __CPROVER_loop_invariant(ghost_g >= i || ghost_h >= i || ghost_g == ghost_h || un->_down[ghost_g] == 0 || un->_down[ghost_h] == 0 || *nnz >= 2) \
    __CPROVER_decreases(un->size - i)
#define LOOP_normalize_evplus_long_2 \
    __CPROVER_assigns(i, __CPROVER_object_whole(un->_edge)) \
    __CPROVER_loop_invariant(i <= un->size) \
    __CPROVER_loop_invariant(un->_down[ghost_g] == 0 || (ghost_g < i ? EVL(un, ghost_g) + minval == __CPROVER_loop_entry(EVL(un, ghost_g)) : EVL(un, ghost_g) == __CPROVER_loop_entry(EVL(un, ghost_g)))) \
    __CPROVER_loop_invariant(un->_down[ghost_g] != 0 || (un->_edge[ghost_g].mytype == edge_type__LONG && EVL(un, ghost_g) == 0)) \
    __CPROVER_decreases(un->size - i)
#define LOOP_normalize_evstar_float_1 \
    __CPROVER_assigns(i, *nnz, firstval, __CPROVER_object_whole(un->_edge)) \
    __CPROVER_loop_invariant(i <= un->size && *nnz <= i) \
    __CPROVER_loop_invariant(ev->mytype == edge_type__FLOAT && ev->ev_float == 0.0f) \
    __CPROVER_loop_invariant(*nnz != 0 || firstval == 0.0f) \
    __CPROVER_loop_invariant(ghost_g >= i || un->_down[ghost_g] == 0 || (*nnz >= 1 && un->_edge[ghost_g].mytype == edge_type__FLOAT && EVF(un, ghost_g) == __CPROVER_loop_entry(EVF(un, ghost_g)))) \
    __CPROVER_loop_invariant(ghost_g >= i || un->_down[ghost_g] != 0 || (un->_edge[ghost_g].mytype == edge_type__FLOAT && EVF(un, ghost_g) == 0.0f)) \
    __CPROVER_loop_invariant(ghost_g < i || (un->_edge[ghost_g].mytype == edge_type__FLOAT && EVF(un, ghost_g) == __CPROVER_loop_entry(EVF(un, ghost_g)))) \
    __CPROVER_loop_invariant(ghost_h >= i || un->_down[ghost_h] == 0 || *nnz >= 1) \
    __CPROVER_loop_invariant(ghost_g >= i || ghost_h >= i || ghost_g == ghost_h || un->_down[ghost_g] == 0 || un->_down[ghost_h] == 0 || *nnz >= 2) \
    __CPROVER_decreases(un->size - i)
#define LOOP_normalize_evstar_float_2 \
    __CPROVER_assigns(i, __CPROVER_object_whole(un->_edge)) \
    __CPROVER_loop_invariant(i <= un->size) \
    __CPROVER_loop_invariant(un->_edge[ghost_g].mytype == edge_type__FLOAT) \
    __CPROVER_loop_invariant(un->_down[ghost_g] != 0 || EVF(un, ghost_g) == 0.0f || firstval != firstval) \
    __CPROVER_loop_invariant(un->_down[ghost_g] == 0 || ghost_g < i || EVF(un, ghost_g) == __CPROVER_loop_entry(EVF(un, ghost_g))) \
    __CPROVER_decreases(un->size - i)
/* createReducedNode: 1 = termprec rounding (unreachable here), 2 = count non-zero children, 3/4 = redundancy scans */
#define LOOP_forest__createReducedNode_1 __CPROVER_assigns(i, nnz, __CPROVER_object_whole(un->_down)) __CPROVER_loop_invariant(i <= un->size)
#define LOOP_forest__createReducedNode_2 \
    __CPROVER_assigns(i, nnz) \
    __CPROVER_loop_invariant(i <= un->size && nnz <= i) \
    __CPROVER_loop_invariant(ghost_g >= i || un->_down[ghost_g] == 0 || nnz >= 1) \
    __CPROVER_loop_invariant(ghost_h >= i || un->_down[ghost_h] == 0 || nnz >= 1) \
    __CPROVER_loop_invariant(ghost_g >= i || ghost_h >= i || ghost_g == ghost_h || un->_down[ghost_g] == 0 || un->_down[ghost_h] == 0 || nnz >= 2) \
    __CPROVER_decreases(un->size - i)
#define LOOP_forest__createReducedNode_3 \
    __CPROVER_assigns(i, redundant) \
    __CPROVER_loop_invariant(1 <= i && i <= nnz && redundant) \
    __CPROVER_loop_invariant(ghost_g >= i || un->_down[ghost_g] == *node) \
    __CPROVER_decreases(nnz - i)
#define LOOP_forest__createReducedNode_4 \
    __CPROVER_assigns(i, redundant, verif_exc) \
    __CPROVER_loop_invariant(1 <= i && i <= nnz && redundant && verif_exc == 0) \
    __CPROVER_decreases(nnz - i)
#define LOOP_forest__unlinkAllDown_1 \
    __CPROVER_assigns(i, verif_exc, g_unlinks) \
    __CPROVER_loop_invariant(__CPROVER_loop_entry(i) <= i && i <= un->size && verif_exc == 0) \
    __CPROVER_loop_invariant(g_unlinks == __CPROVER_loop_entry(g_unlinks) + (i - __CPROVER_loop_entry(i))) \
    __CPROVER_decreases(un->size - i)
