void h_normalize_evplus(void) { struct unpacked_node *u; struct edge_value *ev; unsigned *nnz; ghost_g = nondet_size_t(); ghost_h = nondet_size_t(); normalize_evplus_long(u, ev, nnz); CANARY(); }
void h_normalize_evstar(void) { struct unpacked_node *u; struct edge_value *ev; unsigned *nnz; ghost_g = nondet_size_t(); ghost_h = nondet_size_t(); normalize_evstar_float(u, ev, nnz); CANARY(); }
#define H_GHOSTS() g_seq = nondet_unsigned(); g_recycles = nondet_unsigned(); g_sorts = nondet_unsigned(); g_hashes = nondet_unsigned(); g_finds = nondet_unsigned(); \
    g_adds = nondet_unsigned(); g_removes = nondet_unsigned(); g_newhandles = nondet_unsigned(); g_setlevels = nondet_unsigned(); g_setaddrs = nondet_unsigned(); \
    g_links = nondet_unsigned(); g_unlinks = nondet_unsigned(); g_makenodes = nondet_unsigned(); g_udr = nondet_unsigned(); g_deacts = nondet_unsigned(); \
    g_find_result = nondet_int(); g_new_handle = nondet_int(); g_computed_hash = nondet_unsigned(); g_new_addr = nondet_ulong(); g_levelsize = nondet_int(); \
    g_logging = nondet_bool(); g_has_hash = 0; g_old_addr = nondet_ulong(); g_node_hash = nondet_unsigned(); ghost_g = nondet_size_t(); ghost_h = nondet_size_t();
void h_createReducedNode(void) { struct forest *f; struct unpacked_node *u; struct edge_value *ev; node_handle *nd; int w_in = nondet_int(); H_GHOSTS(); w_full = nondet_bool(); forest__createReducedNode(f, u, ev, nd, w_in); CANARY(); CANARY_IF(w_full); CANARY_IF(!w_full); }
void h_unlinkAllDown(void) { struct forest *f; struct unpacked_node *u; unsigned w_i = nondet_unsigned(); H_GHOSTS(); forest__unlinkAllDown(f, u, w_i); CANARY(); }

void h_deleteNode(void) { struct forest *f; node_handle w_p = nondet_int(); H_GHOSTS(); forest__deleteNode(f, w_p); CANARY(); }
void h_modifyReducedNodeInPlace(void) { struct forest *f; struct unpacked_node *u; node_handle w_p = nondet_int(); H_GHOSTS(); forest__modifyReducedNodeInPlace(f, u, w_p); CANARY(); }
