#define H_HM() ghost_g = nondet_size_t(); ghost_o = nondet_size_t(); g_removes = nondet_unsigned(); g_upheaps = nondet_unsigned(); g_found = nondet_ulong(); \
    __CPROVER_assume(g_removes < 1000000 && g_upheaps < 1000000);
void h_heap_recycleChunk(void) { struct heap_manager *m; node_address w_h = nondet_ulong(); size_t w_n = nondet_size_t(); H_HM(); heap_manager__recycleChunk(m, w_h, w_n); CANARY(); }
void h_heap_requestChunk(void) { struct heap_manager *m; size_t *n; H_HM(); g_downheaps = nondet_unsigned(); g_lastremoved = nondet_unsigned(); g_allocs = nondet_unsigned(); g_alloc_result = nondet_ulong(); g_last_node = nondet_ulong();
    heap_manager__requestChunk(m, n); CANARY(); }
