/* U-mmheap: heap_manager<int>::recycleChunk (C18 / C12) */
#define HM_MAXALLOC (1ul << 30)
size_t ghost_g;     /* a slot of some live chunk (not inside any hole) */
size_t ghost_o;     /* a pointer slot inside some other tracked hole: the only kind of slot the heap maintenance may write besides the hole at hand */
unsigned g_removes; node_address g_remove_arg, g_remove_arg2; unsigned g_upheaps; node_address g_upheap_arg; node_address g_found;

void heap_manager__incMemUsed(struct heap_manager *m, size_t b) __CPROVER_requires(1) __CPROVER_assigns() __CPROVER_ensures(1);
void heap_manager__decMemUsed(struct heap_manager *m, size_t b) __CPROVER_requires(1) __CPROVER_assigns() __CPROVER_ensures(1);
void heap_manager__incMemAlloc(struct heap_manager *m, size_t b) __CPROVER_requires(1) __CPROVER_assigns() __CPROVER_ensures(1);
void heap_manager__decMemAlloc(struct heap_manager *m, size_t b) __CPROVER_requires(1) __CPROVER_assigns() __CPROVER_ensures(1);
void heap_manager__setChunkBase(struct heap_manager *m, void *p) __CPROVER_requires(1) __CPROVER_assigns(m->chunk_base) __CPROVER_ensures(1);

#define MSBINT ((int)0x80000000)
#define TAGGED(m, k)   (((m)->data[k] & MSBINT) != 0)
#define TAGSIZE(m, k)  ((size_t)((m)->data[k] & ~MSBINT))
#define HM_REQ(m) \
    __CPROVER_requires(__CPROVER_is_fresh(m, sizeof(*(m)))) \
    __CPROVER_requires(1024 <= (m)->data_alloc && (m)->data_alloc <= HM_MAXALLOC && (m)->last_used_slot < (m)->data_alloc && (m)->MSB == MSBINT) \
    __CPROVER_requires(__CPROVER_is_fresh((m)->data, (m)->data_alloc * sizeof(int))) \
    __CPROVER_requires((m)->data[0] == 0 && verif_exc == 0)
/* x is a hole with matching tags inside the used part of the arena */
#define HOLE_OK(m, x) (1 <= (x) && (x) <= (m)->last_used_slot && TAGGED(m, x) && 1 <= TAGSIZE(m, x) && (x) + TAGSIZE(m, x) - 1 <= (m)->last_used_slot && (m)->data[(x) + TAGSIZE(m, x) - 1] == (m)->data[x])
#define CUR_OK(m) ((m)->current_hole == 0 || HOLE_OK(m, (m)->current_hole))

/* the heap of tracked holes: assumed contracts */
void heap_manager__removeHeapNode(struct heap_manager *self, node_address n)
__CPROVER_requires(self != NULL)
REQUIRES(a_tracked_hole_is_removed_from_the_heap, HOLE_OK(self, n) && TAGSIZE(self, n) >= 5)
__CPROVER_assigns(g_removes, g_remove_arg, g_remove_arg2, self->heap_root, self->num_heap_nodes, self->num_heap_slots)
__CPROVER_assigns(ghost_o <= self->last_used_slot: self->data[ghost_o])
__CPROVER_ensures(g_removes == __CPROVER_old(g_removes) + 1 && g_remove_arg == n && g_remove_arg2 == __CPROVER_old(g_remove_arg));
void heap_manager__upHeap(struct heap_manager *self, node_address n)
__CPROVER_requires(self != NULL)
REQUIRES(a_hole_with_matching_tags_enters_the_heap, HOLE_OK(self, n) && TAGSIZE(self, n) >= 5)
__CPROVER_assigns(g_upheaps, g_upheap_arg, self->heap_root)
__CPROVER_assigns(ghost_o <= self->last_used_slot: self->data[ghost_o])
__CPROVER_assigns(self->data[n + 1], self->data[n + 2], self->data[n + 3])
__CPROVER_ensures(g_upheaps == __CPROVER_old(g_upheaps) + 1 && g_upheap_arg == n);
node_address heap_manager__findNodeAtPosition(const struct heap_manager *self, unsigned long id)
__CPROVER_requires(self != NULL) __CPROVER_assigns()
/* ASSUMED heap shape: the parent position of a new last node is a tracked hole (>= 5 slots) away from ... see the contract's FAR_* preconditions */
__CPROVER_ensures(__CPROVER_return_value == g_found);

/* ---- recycling with coalescing --------------------------------------------------------------- */
#define LEFT_OK(m, h)  (!TAGGED(m, (h) - 1) || (1 <= TAGSIZE(m, (h) - 1) && TAGSIZE(m, (h) - 1) < (h) && (m)->data[(h) - TAGSIZE(m, (h) - 1)] == (m)->data[(h) - 1]))
#define RIGHT_OK(m, r) ((r) > (m)->last_used_slot || !TAGGED(m, r) || (1 <= TAGSIZE(m, r) && (r) + TAGSIZE(m, r) - 1 <= (m)->last_used_slot && (m)->data[(r) + TAGSIZE(m, r) - 1] == (m)->data[r]))
#define MERGE_LO(m, h)    (TAGGED(m, (h) - 1) ? (h) - TAGSIZE(m, (h) - 1) : (h))
#define MERGE_HI(m, h, n) (((h) + (n) <= (m)->last_used_slot && TAGGED(m, (h) + (n))) ? (h) + (n) + TAGSIZE(m, (h) + (n)) : (h) + (n))
void heap_manager__recycleChunk(struct heap_manager *self, node_address h, size_t numSlots)
HM_REQ(self)
__CPROVER_requires(1 <= h && h <= self->last_used_slot && 1 <= numSlots && numSlots < (1ul << 28) && h + numSlots - 1 <= self->last_used_slot && self->last_used_slot < (1ul << 30))
__CPROVER_requires(LEFT_OK(self, h) && RIGHT_OK(self, h + numSlots))                     /* neighbours: see unit assumptions */
/* the current hole is 0 or a hole inside the used arena, and it is not the live chunk being recycled */
REQUIRES(current_hole_is_a_hole_inside_the_used_arena, CUR_OK(self))
/* holes are disjoint: the current hole is the left neighbour, the right neighbour, or lies outside the region that ends up as one hole */
#define CUR(m) ((m)->current_hole)
__CPROVER_requires(CUR(self) == 0 || CUR(self) + TAGSIZE(self, CUR(self)) <= MERGE_LO(self, h) || CUR(self) >= MERGE_HI(self, h, numSlots) ||
                   (TAGGED(self, h - 1) && CUR(self) == MERGE_LO(self, h)) || (h + numSlots <= self->last_used_slot && TAGGED(self, h + numSlots) && CUR(self) == h + numSlots))
/* the foreign pointer slot is not a boundary tag of the current hole; the heap node found is another hole than the current one */
__CPROVER_requires(CUR(self) == 0 || (ghost_o != CUR(self) && ghost_o != CUR(self) + TAGSIZE(self, CUR(self)) - 1))
__CPROVER_requires(CUR(self) == 0 || g_found + 3 < CUR(self) || g_found >= CUR(self) + TAGSIZE(self, CUR(self)))
/* the parent found for a new heap node is a tracked hole away from the merged region, the live slot and the foreign slot */
__CPROVER_requires(g_found >= 1 && g_found < (1ul << 30) && g_found + 3 <= self->last_used_slot && (g_found + 3 < MERGE_LO(self, h) || g_found >= MERGE_HI(self, h, numSlots)) && TAGGED(self, g_found))
__CPROVER_requires(ghost_g < g_found || ghost_g > g_found + 3)
__CPROVER_requires(self->num_heap_nodes >= 0 && self->num_heap_nodes < (1l << 40))
/* the live slot and the foreign pointer slot lie outside the region that ends up as one hole */
__CPROVER_requires(ghost_g <= self->last_used_slot && (ghost_g < MERGE_LO(self, h) || ghost_g >= MERGE_HI(self, h, numSlots)) && ghost_g != ghost_o)
__CPROVER_requires(ghost_o + 1 < MERGE_LO(self, h) || ghost_o > MERGE_HI(self, h, numSlots))
__CPROVER_assigns(g_removes, g_remove_arg, g_remove_arg2, g_upheaps, g_upheap_arg, self->heap_root, self->current_hole, self->num_heap_nodes, self->max_heap_nodes, self->num_small_holes, self->max_small_holes,
                  self->num_small_slots, self->max_small_slots, self->num_heap_slots, self->max_heap_slots)
__CPROVER_assigns(self->last_used_slot, __CPROVER_object_whole(self->data))
ENSURES(live_slots_are_never_altered, self->data[ghost_g] == __CPROVER_old(self->data[ghost_g]))
ENSURES(used_part_never_grows, self->last_used_slot <= __CPROVER_old(self->last_used_slot))
ENSURES(current_hole_stays_a_hole_inside_the_used_arena, CUR_OK(self))
#define OLD_LEFT_TAG      (__CPROVER_old(self->data[h - 1]))
ENSURES(merged_hole_has_matching_tags_no_left_neighbour, self->last_used_slot < h || (OLD_LEFT_TAG & MSBINT) != 0 || (HOLE_OK(self, h) && TAGSIZE(self, h) >= numSlots))
ENSURES(merged_hole_has_matching_tags_left_neighbour, (OLD_LEFT_TAG & MSBINT) == 0 || self->last_used_slot < h - (size_t)(OLD_LEFT_TAG & ~MSBINT) ||
        (HOLE_OK(self, h - (size_t)(OLD_LEFT_TAG & ~MSBINT)) && TAGSIZE(self, h - (size_t)(OLD_LEFT_TAG & ~MSBINT)) >= numSlots + (size_t)(OLD_LEFT_TAG & ~MSBINT)))
;

/* ---- serving a request (loop-free) ---------------------------------------------------------------------------------- */
node_address g_last_node;              /* what removeLastHeapNode answers */
unsigned g_downheaps, g_lastremoved, g_allocs; node_address g_alloc_result;
node_address heap_manager__removeLastHeapNode(struct heap_manager *self)
__CPROVER_requires(self != NULL)
__CPROVER_requires(self->heap_root >= 1 && self->heap_root + 3 <= self->last_used_slot)
__CPROVER_assigns(g_lastremoved, self->num_heap_nodes, self->data[self->heap_root + 2], self->data[self->heap_root + 3])
__CPROVER_assigns(ghost_o <= self->last_used_slot: self->data[ghost_o])
/* ASSUMED heap shape: the last node of a heap with more than one node is a tracked hole other than the root; removing it clears the link of its parent
 * (which may be the root) and leaves the other links alone */
__CPROVER_ensures(g_lastremoved == __CPROVER_old(g_lastremoved) + 1 && __CPROVER_return_value == g_last_node)
__CPROVER_ensures((self->data[self->heap_root + 2] == __CPROVER_old(self->data[self->heap_root + 2]) && (size_t)self->data[self->heap_root + 2] != g_last_node) || (self->data[self->heap_root + 2] == 0 && (size_t)__CPROVER_old(self->data[self->heap_root + 2]) == g_last_node))
__CPROVER_ensures((self->data[self->heap_root + 3] == __CPROVER_old(self->data[self->heap_root + 3]) && (size_t)self->data[self->heap_root + 3] != g_last_node) || (self->data[self->heap_root + 3] == 0 && (size_t)__CPROVER_old(self->data[self->heap_root + 3]) == g_last_node));
void heap_manager__downHeap(struct heap_manager *self, node_address n)
__CPROVER_requires(self != NULL)
REQUIRES(a_hole_with_matching_tags_is_sifted_down, HOLE_OK(self, n) && TAGSIZE(self, n) >= 5)
__CPROVER_assigns(g_downheaps, self->heap_root)
__CPROVER_assigns(ghost_o <= self->last_used_slot: self->data[ghost_o])
__CPROVER_assigns(self->data[n + 1], self->data[n + 2], self->data[n + 3])
__CPROVER_ensures(g_downheaps == __CPROVER_old(g_downheaps) + 1)
/* ASSUMED: sifting keeps the root a tracked hole */
__CPROVER_ensures(self->heap_root != 0 && HOLE_OK(self, self->heap_root) && TAGSIZE(self, self->heap_root) >= 5);
node_address heap_manager__allocateFromArray(struct heap_manager *self, size_t n)
__CPROVER_requires(self != NULL) __CPROVER_assigns(g_allocs) __CPROVER_ensures(g_allocs == __CPROVER_old(g_allocs) + 1 && __CPROVER_return_value == g_alloc_result);

#define ROOT(m) ((m)->heap_root)
#define DISJOINT(m, x, y) ((x) + TAGSIZE(m, x) <= (y) || (y) + TAGSIZE(m, y) <= (x))
/* which hole serves the request: the current hole if it is large enough, else the heap root if that is */
#define CUR_FITS(m, n)  (CUR(m) != 0 && TAGSIZE(m, CUR(m)) >= (n))
#define ROOT_FITS(m, n) (ROOT(m) != 0 && TAGSIZE(m, ROOT(m)) >= (n))
node_address heap_manager__requestChunk(struct heap_manager *self, size_t *numSlots)
HM_REQ(self)
__CPROVER_requires(__CPROVER_is_fresh(numSlots, sizeof(size_t)) && 1 <= *numSlots && *numSlots < (1ul << 28) && self->last_used_slot < (1ul << 30))
REQUIRES(current_hole_is_a_hole_inside_the_used_arena, CUR_OK(self))
/* ASSUMED heap shape: the root is 0 or a tracked hole; it is not the current hole; its children and the last node are other tracked holes */
__CPROVER_requires(ROOT(self) == 0 || (HOLE_OK(self, ROOT(self)) && TAGSIZE(self, ROOT(self)) >= 5 && self->num_heap_nodes >= 1))
__CPROVER_requires(ROOT(self) == 0 || CUR(self) == 0 || DISJOINT(self, ROOT(self), CUR(self)))
__CPROVER_requires(CUR(self) == 0 || TAGSIZE(self, CUR(self)) >= 5)
#define KID_OK(m, k) ((k) == 0 || ((k) > 0 && HOLE_OK(m, (size_t)(k)) && TAGSIZE(m, (size_t)(k)) >= 5 && DISJOINT(m, (size_t)(k), ROOT(m)) && (CUR(m) == 0 || DISJOINT(m, (size_t)(k), CUR(m)))))
__CPROVER_requires(ROOT(self) == 0 || (KID_OK(self, self->data[ROOT(self) + 2]) && KID_OK(self, self->data[ROOT(self) + 3])))
__CPROVER_requires(g_last_node >= 1 && HOLE_OK(self, g_last_node) && TAGSIZE(self, g_last_node) >= 5 && (ROOT(self) == 0 || DISJOINT(self, g_last_node, ROOT(self))))
__CPROVER_requires(ROOT(self) == 0 || ((self->data[ROOT(self) + 2] <= 0 || (size_t)self->data[ROOT(self) + 2] == g_last_node || DISJOINT(self, (size_t)self->data[ROOT(self) + 2], g_last_node)) && (self->data[ROOT(self) + 3] <= 0 || (size_t)self->data[ROOT(self) + 3] == g_last_node || DISJOINT(self, (size_t)self->data[ROOT(self) + 3], g_last_node))))
/* the live slot and the foreign pointer slot lie outside the two holes that may serve the request */
__CPROVER_requires(ghost_g <= self->last_used_slot && (CUR(self) == 0 || ghost_g < CUR(self) || ghost_g >= CUR(self) + TAGSIZE(self, CUR(self))) && (ROOT(self) == 0 || ghost_g < ROOT(self) || ghost_g >= ROOT(self) + TAGSIZE(self, ROOT(self))))
__CPROVER_requires(ghost_g != ghost_o && (ghost_g < g_last_node || ghost_g >= g_last_node + TAGSIZE(self, g_last_node)))
__CPROVER_requires(ROOT(self) == 0 || ((self->data[ROOT(self) + 2] == 0 || ghost_g < (size_t)self->data[ROOT(self) + 2] || ghost_g > (size_t)self->data[ROOT(self) + 2] + 3) && (self->data[ROOT(self) + 3] == 0 || ghost_g < (size_t)self->data[ROOT(self) + 3] || ghost_g > (size_t)self->data[ROOT(self) + 3] + 3)))
__CPROVER_requires((CUR(self) == 0 || ghost_o + 1 < CUR(self) || ghost_o > CUR(self) + TAGSIZE(self, CUR(self))) && (ROOT(self) == 0 || ghost_o + 1 < ROOT(self) || ghost_o > ROOT(self) + TAGSIZE(self, ROOT(self))))
__CPROVER_requires(ghost_o + 1 < g_last_node || ghost_o > g_last_node + TAGSIZE(self, g_last_node))
__CPROVER_requires(g_downheaps < 1000000 && g_lastremoved < 1000000 && g_allocs < 1000000 && self->num_heap_nodes >= 0 && self->num_heap_nodes < (1l << 40))
__CPROVER_assigns(*numSlots, g_downheaps, g_lastremoved, g_allocs, self->heap_root, self->current_hole, self->num_heap_nodes, self->max_heap_nodes, self->num_small_holes, self->max_small_holes,
                  self->num_small_slots, self->max_small_slots, self->num_heap_slots, self->max_heap_slots)
__CPROVER_assigns(__CPROVER_object_whole(self->data))
#define OLD_CUR   (__CPROVER_old(self->current_hole))
#define OLD_ROOT  (__CPROVER_old(self->heap_root))
ENSURES(live_slots_are_never_altered, self->data[ghost_g] == __CPROVER_old(self->data[ghost_g]))
ENSURES(failure_is_reported_as_zero_slots, __CPROVER_return_value != 0 || *numSlots == 0)
ENSURES(a_chunk_comes_from_the_current_hole_the_heap_root_or_fresh_space, __CPROVER_return_value == 0 || g_allocs == __CPROVER_old(g_allocs) + 1 || __CPROVER_return_value == OLD_CUR || __CPROVER_return_value == OLD_ROOT)
ENSURES(fresh_space_only_when_neither_hole_fits, g_allocs == __CPROVER_old(g_allocs) || (__CPROVER_return_value == g_alloc_result))
ENSURES(current_hole_stays_a_hole_inside_the_used_arena, CUR_OK(self))
ENSURES(the_leftover_becomes_the_current_hole, g_allocs != __CPROVER_old(g_allocs) || __CPROVER_return_value == 0 || CUR(self) == 0 || CUR(self) == __CPROVER_return_value + *numSlots)
;
