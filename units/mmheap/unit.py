# U-mmheap: heap_manager<int>::recycleChunk (C18, C12): coalescing and the "current hole" pointer of the heap-style memory manager.
A = 'src/memory_managers/heap_manager.cc'
H = 'src/memory_managers/hole_base.h'
M = 'src/memory.h'
def job(name, enforce, replace=(), props=('C18', 'C12'), **kw):
    d = dict(name=name, entry='h_' + name, enforce=enforce, replace=list(replace), props=list(props))
    d.update(kw)
    return d
def hf(name, **kw):     # hole_manager<INT> member, flattened into the derived struct
    d = dict(cls='heap_manager', src_cls='hole_manager', name=name, file=H)
    d.update(kw)
    return d
def af(name, **kw):
    d = dict(cls='heap_manager', name=name, file=A)
    d.update(kw)
    return d
ST = ['heap_manager__incMemUsed', 'heap_manager__decMemUsed', 'heap_manager__incMemAlloc', 'heap_manager__decMemAlloc', 'heap_manager__setChunkBase']
HP = ['heap_manager__removeHeapNode', 'heap_manager__upHeap', 'heap_manager__findNodeAtPosition']
RQ = ['heap_manager__removeLastHeapNode', 'heap_manager__downHeap', 'heap_manager__allocateFromArray']
UNIT = {
    'name': 'mmheap',
    'typedefs': [('src/defines.h', 'node_address')],
    'subst': {'INT': 'int'},
    'classes': {
        'heap_manager': {'file': A, 'bases': ['memory_manager', 'hole_manager'], 'base_files': {'memory_manager': M, 'hole_manager': H},
                         'fields': ['data', 'data_alloc', 'last_used_slot', 'MSB', 'chunk_base', 'num_heap_nodes', 'heap_root', 'current_hole',
                                    'max_heap_nodes', 'num_small_holes', 'max_small_holes', 'num_small_slots', 'max_small_slots', 'num_heap_slots', 'max_heap_slots']},
    },
    'text_subst': [
        (r'hole_manager<INT>::', '', A),
        (r'memory_manager::', '', A),
        (r'printf\([^;]*;', ';', A), (r'printf\([^;]*;', ';', H),
    ],
    'forwarders': [
        (A, 'heap_manager', 'isHole', r'^\{\s*return hole_manager<INT>::isHole\(h\);\s*\}$'),
        (A, 'heap_manager', 'getHoleSize', r'^\{\s*return hole_manager<INT>::getHoleSize\(h\);\s*\}$'),
        (A, 'heap_manager', 'setHoleSize', r'^\{\s*hole_manager<INT>::setHoleSize\(h, hs\);\s*\}$'),
    ],
    'extra_methods': [
        dict(cls='heap_manager', name='incMemUsed', argc=1, cname='heap_manager__incMemUsed'),
        dict(cls='heap_manager', name='decMemUsed', argc=1, cname='heap_manager__decMemUsed'),
        dict(cls='heap_manager', name='incMemAlloc', argc=1, cname='heap_manager__incMemAlloc'),
        dict(cls='heap_manager', name='decMemAlloc', argc=1, cname='heap_manager__decMemAlloc'),
        dict(cls='heap_manager', name='setChunkBase', argc=1, cname='heap_manager__setChunkBase'),
        dict(cls='heap_manager', name='removeHeapNode', argc=1, cname='heap_manager__removeHeapNode'),
        dict(cls='heap_manager', name='upHeap', argc=1, cname='heap_manager__upHeap'),
        dict(cls='heap_manager', name='findNodeAtPosition', argc=1, cname='heap_manager__findNodeAtPosition'),
        dict(cls='heap_manager', name='removeLastHeapNode', argc=0, cname='heap_manager__removeLastHeapNode'),
        dict(cls='heap_manager', name='downHeap', argc=1, cname='heap_manager__downHeap'),
        dict(cls='heap_manager', name='allocateFromArray', argc=1, cname='heap_manager__allocateFromArray'),
    ],
    'functions': [
        hf('isHole'), hf('getHoleSize'), hf('setHoleSize'), hf('readSlot'), hf('refSlot'), hf('recycleHoleInArray'),
        af('smallestChunk', static=True), af('isSmallHole'), af('Left'), af('Right'), af('zeroPointers'), af('makeRoot'), af('setLeft'), af('setRight'),
        af('incHeapNodes'), af('incHeapSlots'), af('incSmallSlots'), af('decSmallSlots'),
        af('recycleChunk', where='out'), af('requestChunk', where='out'), af('decHeapNodes'), af('decHeapSlots'), af('Parent'),
    ],
    'stubs': [
        'heap_manager::removeHeapNode / upHeap / findNodeAtPosition: the binary heap of tracked holes. Assumed: they write only pointer slots 1..3 inside tracked holes and heap_root / counters, never a boundary tag, never a slot of a live chunk',
        'memory statistics (incMemUsed ...) and setChunkBase: no effect on the arena', 'printf diagnostics dropped (text_subst)',
    ],
    'assumptions': [
        'neighbours of a recycled chunk: if the slot before / after the chunk carries the hole flag it is a boundary tag of a hole with matching tags inside the used part of the arena',
        'INT = int; hole sizes below 2^30',
    ],
    'unverified_surroundings': {'C18': ['heap_manager.cc requestChunk, removeHeapNode, upHeap, downHeap, findNodeAtPosition'], 'C12': ['heap_manager.cc requestChunk and heap maintenance', 'orig_grid.cc, malloc_style.cc']},
    'jobs': [
        job('heap_requestChunk', 'heap_manager__requestChunk', ST + RQ, tier='thorough', timeout=7200),
        job('heap_recycleChunk', 'heap_manager__recycleChunk', ST + HP, tier='thorough', timeout=7200),    # ~10 min: thorough tier only
    ],
}
