void h_u_checkDomains(void) { struct unary_operation *o; unsigned w_line = nondet_unsigned(); unary_operation__u_checkDomains(o, "f", w_line); CANARY(); }
void h_u_checkAllRelations0(void) { struct unary_operation *o; unsigned w_line = nondet_unsigned(); unary_operation__u_checkAllRelations0(o, "f", w_line); CANARY(); }
void h_u_checkAllRelations1(void) { struct unary_operation *o; unsigned w_line = nondet_unsigned(); _Bool w_x; unary_operation__u_checkAllRelations1(o, "f", w_line, w_x); CANARY(); }
void h_u_checkAllLabelings(void) { struct unary_operation *o; unsigned w_line = nondet_unsigned(); edge_labeling w_l; unary_operation__u_checkAllLabelings(o, "f", w_line, w_l); CANARY(); }
void h_u_checkLabelings(void) { struct unary_operation *o; unsigned w_line = nondet_unsigned(); edge_labeling w_l1; edge_labeling w_l2; unary_operation__u_checkLabelings(o, "f", w_line, w_l1, w_l2); CANARY(); }
void h_u_checkAllRanges(void) { struct unary_operation *o; unsigned w_line = nondet_unsigned(); range_type w_t; unary_operation__u_checkAllRanges(o, "f", w_line, w_t); CANARY(); }
void h_u_checkRanges(void) { struct unary_operation *o; unsigned w_line = nondet_unsigned(); range_type w_t1; range_type w_t2; unary_operation__u_checkRanges(o, "f", w_line, w_t1, w_t2); CANARY(); }
