U = 'src/oper_unary.h'
FH = 'src/forest.h'
def job(name, enforce, replace=(), props=('C16',), **kw):
    d = dict(name=name, entry='h_' + name, enforce=enforce, replace=list(replace), props=list(props))
    d.update(kw)
    return d
def uf(name, sel, cname, argc_key):
    return dict(cls='unary_operation', name=name, file=U, sel=sel, cname='unary_operation__' + cname, argc_key=argc_key)
UNIT = {
    'name': 'opchku',
    'extra_typedefs': [('set_or_rel', '_Bool')],
    'enums': [('src/policies.h', 'edge_labeling'), ('src/rangeval.h', 'range_type'), ('src/edge_value.h', 'edge_type')],
    'classes': {
        'domain': {'opaque': True},
        'forest': {'file': FH, 'fields': ['d', 'isRelation', 'rangeType', 'edgeLabel', 'the_edge_type']},
        'unary_operation': {'file': U, 'fields': ['argF', 'resF']},
    },
    'foreign': {'getDomain': {'*': {0: 'forest__getDomain'}}, 'isForRelations': {'*': 'forest'}, 'getRangeType': {'*': 'forest'},
                'getEdgeLabeling': {'*': 'forest'}},
    'functions': [
        dict(cls='forest', name='getDomain', file=FH, nth=0), dict(cls='forest', name='isForRelations', file=FH),
        dict(cls='forest', name='getRangeType', file=FH), dict(cls='forest', name='getEdgeLabeling', file=FH),
        uf('checkDomains', '^const char\\* file, unsigned line$', 'u_checkDomains', 'k0'),
        uf('checkAllRelations', '^const char\\* file, unsigned line$', 'u_checkAllRelations0', 'k1'),
        uf('checkAllRelations', 'set_or_rel a$', 'u_checkAllRelations1', 'k2'),
        uf('checkAllLabelings', 'edge_labeling a$', 'u_checkAllLabelings', 'k3'),
        uf('checkLabelings', 'edge_labeling a, edge_labeling r$', 'u_checkLabelings', 'k4'),
        uf('checkAllRanges', 'range_type rt$', 'u_checkAllRanges', 'k5'),
        uf('checkRanges', 'range_type a, range_type r$', 'u_checkRanges', 'k6'),
    ],
    'stubs': [],
    'assumptions': ['only the check helpers of unary_operation; which operation constructor calls which helper is not covered',
                    'the "All" helpers accept an operation without a result forest (resF == NULL): then only the argument forest is checked'],
    'unverified_surroundings': {'C16': ['operation constructors and factories (which checks each operation performs)', 'unary_operation::compute forest-compatibility guard']},
    'jobs': [
        job('u_checkDomains', 'unary_operation__u_checkDomains'),
        job('u_checkAllRelations0', 'unary_operation__u_checkAllRelations0'),
        job('u_checkAllRelations1', 'unary_operation__u_checkAllRelations1'),
        job('u_checkAllLabelings', 'unary_operation__u_checkAllLabelings'),
        job('u_checkLabelings', 'unary_operation__u_checkLabelings'),
        job('u_checkAllRanges', 'unary_operation__u_checkAllRanges'),
        job('u_checkRanges', 'unary_operation__u_checkRanges'),
    ],
}
