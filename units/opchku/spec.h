/* U-opchku: operand compatibility check helpers of unary operations (C16) */
#define OPU_REQ() __CPROVER_requires(__CPROVER_is_fresh(self, sizeof(*self)) && __CPROVER_is_fresh(self->argF, sizeof(struct forest)) && __CPROVER_is_fresh(self->resF, sizeof(struct forest)) && verif_exc == 0)
#define OPU_REQ_N() __CPROVER_requires(__CPROVER_is_fresh(self, sizeof(*self)) && __CPROVER_is_fresh(self->argF, sizeof(struct forest)) && (self->resF == NULL || __CPROVER_is_fresh(self->resF, sizeof(struct forest))) && verif_exc == 0)
#define a (self->argF)
#define r (self->resF)
void unary_operation__u_checkDomains(const struct unary_operation *self, const char *file, unsigned line)
OPU_REQ()
__CPROVER_assigns(verif_exc)
ENSURES(mismatch_raises_and_only_mismatch, (verif_exc != 0) == (a->d != r->d))
ENSURES(documented_code, verif_exc == 0 || verif_exc == ERR_DOMAIN_MISMATCH)
;
void unary_operation__u_checkAllRelations0(const struct unary_operation *self, const char *file, unsigned line)
OPU_REQ()
__CPROVER_assigns(verif_exc)
ENSURES(mismatch_raises_and_only_mismatch, (verif_exc != 0) == (a->isRelation != r->isRelation))
ENSURES(documented_code, verif_exc == 0 || verif_exc == ERR_TYPE_MISMATCH)
;
void unary_operation__u_checkAllRelations1(const struct unary_operation *self, const char *file, unsigned line, _Bool x)
OPU_REQ_N()
__CPROVER_assigns(verif_exc)
ENSURES(mismatch_raises_and_only_mismatch, (verif_exc != 0) == ((a->isRelation != x) || (r != NULL && r->isRelation != x)))
ENSURES(documented_code, verif_exc == 0 || verif_exc == ERR_TYPE_MISMATCH)
;
void unary_operation__u_checkAllLabelings(const struct unary_operation *self, const char *file, unsigned line, edge_labeling l)
OPU_REQ_N()
__CPROVER_assigns(verif_exc)
ENSURES(mismatch_raises_and_only_mismatch, (verif_exc != 0) == ((a->edgeLabel != l) || (r != NULL && r->edgeLabel != l)))
ENSURES(documented_code, verif_exc == 0 || verif_exc == ERR_TYPE_MISMATCH)
;
void unary_operation__u_checkLabelings(const struct unary_operation *self, const char *file, unsigned line, edge_labeling l1, edge_labeling l2)
OPU_REQ()
__CPROVER_assigns(verif_exc)
ENSURES(mismatch_raises_and_only_mismatch, (verif_exc != 0) == ((a->edgeLabel != l1) || (r->edgeLabel != l2)))
ENSURES(documented_code, verif_exc == 0 || verif_exc == ERR_TYPE_MISMATCH)
;
void unary_operation__u_checkAllRanges(const struct unary_operation *self, const char *file, unsigned line, range_type t)
OPU_REQ_N()
__CPROVER_assigns(verif_exc)
ENSURES(mismatch_raises_and_only_mismatch, (verif_exc != 0) == ((a->rangeType != t) || (r != NULL && r->rangeType != t)))
ENSURES(documented_code, verif_exc == 0 || verif_exc == ERR_TYPE_MISMATCH)
;
void unary_operation__u_checkRanges(const struct unary_operation *self, const char *file, unsigned line, range_type t1, range_type t2)
OPU_REQ()
__CPROVER_assigns(verif_exc)
ENSURES(mismatch_raises_and_only_mismatch, (verif_exc != 0) == ((a->rangeType != t1) || (r->rangeType != t2)))
ENSURES(documented_code, verif_exc == 0 || verif_exc == ERR_TYPE_MISMATCH)
;
#undef a
#undef r
