/* abstract view of an unpacked node: child (and EV value) at index i, transparent where absent */
static node_handle u_down_at(const struct unpacked_node *u, unsigned i)
{
    if (u->is_full) return i < u->size ? u->_down[i] : 0;
    for (unsigned z = 0; z < u->size; z++) if (u->_index[z] == i) return u->_down[z];
    return 0;
}
static long u_ev_at(const struct unpacked_node *u, unsigned i)
{
    if (u->is_full) return i < u->size ? u->_edge[i].ev_long : 0;
    for (unsigned z = 0; z < u->size; z++) if (u->_index[z] == i) return u->_edge[z].ev_long;
    return 0;
}
static void cb_make_node(struct unpacked_node *u, node_handle *dn, unsigned *ix, struct edge_value *ev)
{
    u->_down = dn; u->_index = ix; u->_edge = ev;
    u->size = nondet_unsigned(); __CPROVER_assume(1 <= u->size && u->size <= NB);
    u->is_full = nondet_bool(); u->level = 1;
#ifdef CB_EV
    u->the_edge_type = edge_type__LONG;
#else
    u->the_edge_type = edge_type__VOID;
#endif
    for (unsigned z = 0; z < NB; z++) {
        dn[z] = nondet_int(); ix[z] = nondet_unsigned();
#ifdef CB_EV
        ev[z].mytype = edge_type__LONG; ev[z].ev_long = nondet_long();
        if (dn[z] == 0) ev[z].ev_long = 0;           /* transparent edge: value 0 (normalised nodes) */
#else
        ev[z].mytype = edge_type__VOID;
#endif
    }
    if (!u->is_full) {   /* sparse: sorted, distinct, in range, non-transparent entries */
        for (unsigned z = 0; z < NB; z++) if (z < u->size) {
            __CPROVER_assume(ix[z] <= NB && dn[z] != 0);
            if (z > 0) __CPROVER_assume(ix[z - 1] < ix[z]);
        }
    }
}
static void h_unpack_roundtrip(void)
{
    struct simple_separated ss; struct forest *fp = (struct forest *)malloc(1); struct memory_manager *mm = (struct memory_manager *)malloc(1);
    __CPROVER_assume(fp && mm);
    ss.parent = fp; ss.MM = mm; ss.unhashed_start = header_slots; ss.unhashed_slots = 0; ss.hashed_start = header_slots; ss.hashed_slots = 0; ss.down_start = header_slots;
#ifdef CB_EV
    ss.slots_per_edge = 2; cb_transparent_edge.mytype = edge_type__LONG; cb_transparent_edge.ev_long = 0;
#else
    ss.slots_per_edge = 0; cb_transparent_edge.mytype = edge_type__VOID;
#endif
    node_handle dn[NB]; unsigned ix[NB]; struct edge_value ev[NB];
    struct unpacked_node u;
    cb_make_node(&u, dn, ix, ev);
    _Bool some = 0; for (unsigned i = 0; i <= NB; i++) if (u_down_at(&u, i) != 0) some = 1;
    __CPROVER_assume(some);
    cb_pad = nondet_size_t(); __CPROVER_assume(cb_pad <= 2);
    node_storage_flags opt = nondet_uchar(); __CPROVER_assume(opt == FULL_ONLY || opt == SPARSE_ONLY || opt == FULL_OR_SPARSE);
    node_handle p = nondet_int(); __CPROVER_assume(p >= 1);
    verif_exc = 0;
    node_address addr = simple_separated__makeNode(&ss, p, &u, opt);
    __CPROVER_assert(verif_exc == 0 && addr == 1, "bounded: node stored");
    /* unpack it again, in every view a caller may ask for; the scratch node has the size of the level (NB + 1 indexes) as initFromNode sets it */
    node_handle dn2[NB + 1]; unsigned ix2[NB + 1]; struct edge_value ev2[NB + 1]; struct unpacked_node nr;
    nr._down = dn2; nr._index = ix2; nr._edge = ev2; nr.size = NB + 1; nr.alloc = NB + 1; nr.level = 1; nr.parent = fp; nr.is_full = nondet_bool();
#ifdef CB_EV
    nr.the_edge_type = edge_type__LONG;
#else
    nr.the_edge_type = edge_type__VOID; nr._edge = NULL;
#endif
    node_storage_flags st2 = nondet_uchar(); __CPROVER_assume(st2 == FULL_ONLY || st2 == SPARSE_ONLY || st2 == FULL_OR_SPARSE);
    simple_separated__fillUnpacked(&ss, &nr, addr, st2);
    __CPROVER_assert(verif_exc == 0, "bounded: unpacking raises nothing");
    __CPROVER_assert(st2 != FULL_ONLY || nr.is_full, "bounded: a full view is full");
    __CPROVER_assert(st2 != SPARSE_ONLY || !nr.is_full, "bounded: a sparse view is sparse");
    __CPROVER_assert(nr.size <= NB + 1, "bounded: unpacked size within the level");
    for (unsigned i = 0; i <= NB; i++) {
        __CPROVER_assert(u_down_at(&nr, i) == u_down_at(&u, i), "bounded: the unpacked view has the stored child at every index");
#ifdef CB_EV
        if (u_down_at(&u, i) != 0) __CPROVER_assert(u_ev_at(&nr, i) == u_ev_at(&u, i), "bounded: the unpacked view has the stored edge value at every index");
#endif
    }
    if (!nr.is_full) for (unsigned z = 0; z < NB + 1; z++) if (z < nr.size) {
        __CPROVER_assert(nr._down[z] != 0 && nr._index[z] <= NB, "bounded: a sparse view lists non-transparent children only");
        if (z > 0) __CPROVER_assert(nr._index[z - 1] < nr._index[z], "bounded: a sparse view is sorted by index");
    }
    CANARY();
}
void h_unpack_roundtrip_mt(void) { h_unpack_roundtrip(); }
void h_unpack_roundtrip_ev(void) { h_unpack_roundtrip(); }
