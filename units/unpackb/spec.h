/* Bounded codec harness: executable stubs (no contracts). */
#define NB 3
#define CB_CAP 64
node_handle cb_chunk[CB_CAP];        /* the one chunk of the one-chunk memory manager; address 1 */
size_t cb_given; size_t cb_pad;      /* slots granted = requested + cb_pad */
unsigned cb_unlinks; size_t cb_recycled_slots; unsigned cb_recycles;
struct edge_value cb_transparent_edge;
#define VERIF_CHUNK_AT(a) (__CPROVER_assert((a) == 1, "address of the live chunk"), cb_chunk)

struct forest *simple_separated__getParent(const struct simple_separated *s) { return s->parent; }
node_handle forest__getTransparentNode(const struct forest *f) { return 0; }
const struct edge_value *forest__getTransparentEdge(const struct forest *f) { return &cb_transparent_edge; }
edge_type forest__getEdgeType(const struct forest *f)
{
#ifdef CB_EV
    return edge_type__LONG;
#else
    return edge_type__VOID;
#endif
}
_Bool forest__isTransparentEdge(const struct forest *f, const struct edge_value *ev, node_handle p)
{   /* forest.h:993: ep == transparent_node && ev == transparent_edge (EV+ long: value 0) */
    if (p != 0) return 0;
#ifdef CB_EV
    return ev->mytype == edge_type__LONG && ev->ev_long == 0;
#else
    return 1;
#endif
}
void forest__unlinkNode(struct forest *f, node_handle p) { cb_unlinks++; }
int verif_bytesForSlots(int s) { return s * (int)sizeof(node_handle); }
node_address memory_manager__requestChunk(struct memory_manager *m, size_t *numSlots)
{
    __CPROVER_assert(*numSlots + cb_pad <= CB_CAP, "bounded harness: chunk capacity");
    *numSlots = *numSlots + cb_pad; cb_given = *numSlots; return 1;
}
void memory_manager__recycleChunk(struct memory_manager *m, node_address a, size_t n) { cb_recycles++; cb_recycled_slots = n; }
void unpacked_node__getUHdata(const struct unpacked_node *u, void *p) { __CPROVER_assert(0, "no extra header in the bounded harness"); }
void unpacked_node__getHHdata(const struct unpacked_node *u, void *p) { __CPROVER_assert(0, "no extra header in the bounded harness"); }
const void *unpacked_node__UHptr(const struct unpacked_node *u) { return NULL; }
const void *unpacked_node__HHptr(const struct unpacked_node *u) { return NULL; }
unsigned unpacked_node__UHbytes(const struct unpacked_node *u) { return 0; }
unsigned unpacked_node__HHbytes(const struct unpacked_node *u) { return 0; }
_Bool unpacked_node__isSorted(const struct unpacked_node *u) { return 1; }

/* ---- additions for the unpacking direction ---- */
void forest__getTransparentEdge2(const struct forest *f, struct edge_value *ev, node_handle *p)
{   /* forest.h getTransparentEdge(ev, p): the transparent edge of the forest */
    *ev = cb_transparent_edge; *p = 0;
}
void unpacked_node__setUHdata(struct unpacked_node *u, const void *p) { __CPROVER_assert(0, "no extra header in the bounded harness"); }
void unpacked_node__setHHdata(struct unpacked_node *u, const void *p) { __CPROVER_assert(0, "no extra header in the bounded harness"); }
