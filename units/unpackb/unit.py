# Bounded stand-in: packed node -> unpacked node (simple_separated::fillUnpacked, all storage-request modes) after makeNode; derived from U-codecb.
# Bounded stand-in for the relational facts of the node codec (DESIGN 4 U-codec): real bodies of
# makeNode / makeFullNode / makeSparseNode / areDuplicates / getDownPtr / isSingletonNode / unlinkDownAndRecycle
# run on every unpacked node with at most NB entries; loops are UNWOUND (no contracts).  Labelled bounded.
S = 'src/storage/simple.cc'
UH = 'src/unpacked_node.h'
EV = 'src/edge_value.h'
def sf(name, **kw):
    d = dict(cls='simple_separated', name=name, file=S)
    d.update(kw)
    return d
def uf(name, **kw):
    d = dict(cls='unpacked_node', name=name, file=UH)
    d.update(kw)
    return d
def ef(name, **kw):
    d = dict(cls='edge_value', name=name, file=EV)
    d.update(kw)
    return d
NB = 3
def job(name, props, **kw):
    d = dict(name=name, entry='h_' + name, props=list(props), plain=True, kind='bounded', unwind=NB + 3,
             flags=['--no-standard-checks', '--bounds-check', '--pointer-check', '--div-by-zero-check', '--unwinding-assertions'],
             loop_contracts=False, timeout=1800)
    d.update(kw)
    return d
UNIT = {
    'name': 'unpackb',
    'typedefs': [('src/defines.h', 'node_handle'), ('src/defines.h', 'node_address'), ('src/policies.h', 'node_storage_flags')],
    'enums': [('src/edge_value.h', 'edge_type')],
    'consts': [('src/policies.h', ['FULL_ONLY', 'SPARSE_ONLY', 'FULL_OR_SPARSE']),
               (S, ['next_slot', 'size_slot', 'header_slots', 'tail_slots', 'extra_slots'])],
    'classes': {
        'forest': {'opaque': True}, 'memory_manager': {'opaque': True},
        'edge_value': {'file': EV},
        'unpacked_node': {'file': UH, 'fields': ['_down', '_index', '_edge', 'size', 'level', 'is_full', 'the_edge_type', 'parent', 'alloc']},
        'simple_separated': {'file': S, 'bases': ['node_storage'], 'base_files': {'node_storage': 'src/node_storage.h'},
                             'fields': ['parent', 'MM', 'unhashed_start', 'unhashed_slots', 'hashed_start', 'hashed_slots', 'down_start', 'slots_per_edge']},
    },
    'foreign': {
        'requestChunk': {'*': 'memory_manager'}, 'recycleChunk': {'*': 'memory_manager'},
        'getTransparentNode': {'*': 'forest'}, 'unlinkNode': {'*': 'forest'}, 'isTransparentEdge': {'*': 'forest'},
        'getTransparentEdge': {'*': {0: 'forest__getTransparentEdge', 2: 'forest__getTransparentEdge2'}}, '_clear': {'*': 'unpacked_node___clear3'}, 'getEdgeType': {'parent': 'forest'},
        'isSparse': {'nb|^n$|nr': 'unpacked_node'}, 'isFull': {'nb|^n$|nr': 'unpacked_node'}, 'getSize': {'nb|^n$|nr': 'unpacked_node'},
        'down': {'nb|^n$': 'unpacked_node'}, 'index': {'nb|^n$': 'unpacked_node'},
        'edgeval': {'nb|^n$': 'unpacked_node'}, 'hasEdges': {'nb|^n$|nr': 'unpacked_node'}, 'isSorted': {'nb': 'unpacked_node'},
        'getUHdata': {'nb': 'unpacked_node'}, 'setUHdata': {'*': 'unpacked_node'}, 'setHHdata': {'*': 'unpacked_node'},
        'setFull': {'nr': {0: 'unpacked_node__setFull_mode', 2: 'unpacked_node__setFull_h', 'args:ext_ev': 'unpacked_node__setFull_ev', 3: 'unpacked_node__setFull_p'}},
        'setSparse': {'nr': {0: 'unpacked_node__setSparse_mode', 3: 'unpacked_node__setSparse_h', 4: 'unpacked_node__setSparse_p'}},
        'set': {'*': {2: 'edge_value__set_typed'}}, 'clear': {'nr': 'unpacked_node'}, 'shrink': {'nr': 'unpacked_node'}, 'getHHdata': {'nb': 'unpacked_node'},
        'UHptr': {'*': 'unpacked_node'}, 'HHptr': {'*': 'unpacked_node'}, 'UHbytes': {'*': 'unpacked_node'}, 'HHbytes': {'*': 'unpacked_node'},
        'get': {'*': 'edge_value__get_typed'},
        'equals': {'*': {'args:^ev_int$': 'edge_value__equals_int', 'args:^ev_long$': 'edge_value__equals_long',
                         'args:^ev_float$': 'edge_value__equals_float', 'args:^ev_double$': 'edge_value__equals_double',
                         '*': 'edge_value__equals_ptr'}},
    },
    'text_subst': [
        (r'(?<![\w>])getChunkAddress\(addr\)', 'VERIF_CHUNK_AT(addr)', S),
        (r'set\( \*\(\(const int\*\) p\) \)', 'set_int_( *((const int*) p) )', EV),
        (r'set\( \*\(\(const long\*\) p\) \)', 'set_long_( *((const long*) p) )', EV),
        (r'set\( \*\(\(const float\*\) p\) \)', 'set_float_( *((const float*) p) )', EV),
        (r'set\( \*\(\(const double\*\) p\) \)', 'set_double_( *((const double*) p) )', EV),
        (r'equals\( \*\(\(const int\*\)p\) \)', 'equals_int_( *((const int*)p) )', EV),
        (r'equals\( \*\(\(const long\*\)p\) \)', 'equals_long_( *((const long*)p) )', EV),
        (r'equals\( \*\(\(const float\*\)p\) \)', 'equals_float_( *((const float*)p) )', EV),
        (r'equals\( \*\(\(const double\*\)p\) \)', 'equals_double_( *((const double*)p) )', EV),
    ],
    'extra_methods': [
        dict(cls='simple_separated', name='getParent', argc=0, cname='simple_separated__getParent'),
        dict(cls='forest', name='getTransparentEdge', argc=2, cname='forest__getTransparentEdge2'),
        dict(cls='simple_separated', name='bytesForSlots', argc=1, cname='verif_bytesForSlots', static=True),
        dict(cls='edge_value', name='equals_int_', argc=1, cname='edge_value__equals_int'),
        dict(cls='edge_value', name='equals_long_', argc=1, cname='edge_value__equals_long'),
        dict(cls='edge_value', name='equals_float_', argc=1, cname='edge_value__equals_float'),
        dict(cls='edge_value', name='equals_double_', argc=1, cname='edge_value__equals_double'),
        dict(cls='edge_value', name='set_int_', argc=1, cname='edge_value__set_int'), dict(cls='edge_value', name='set_long_', argc=1, cname='edge_value__set_long'),
        dict(cls='edge_value', name='set_float_', argc=1, cname='edge_value__set_float'), dict(cls='edge_value', name='set_double_', argc=1, cname='edge_value__set_double'),
        dict(cls='edge_value', name='getInt', argc=1, cname='edge_value__getInt'),
        dict(cls='edge_value', name='getLong', argc=1, cname='edge_value__getLong'),
        dict(cls='edge_value', name='getFloat', argc=1, cname='edge_value__getFloat'),
        dict(cls='edge_value', name='getDouble', argc=1, cname='edge_value__getDouble'),
    ],
    'ref_params': {'memory_manager__requestChunk': [1], 'forest__isTransparentEdge': [1], 'forest__getTransparentEdge2': [1, 2]},
    'ref_returning': ['forest__getTransparentEdge'],
    'functions': [
        sf('slotsForNode'),
        sf('getRawSize', sel=r'^const node_handle\* chunk$', cname='simple_separated__getRawSize_chunk', argc_key=1),
        sf('getRawSize', sel=r'^int size, bool sparse$', cname='simple_separated__getRawSize_enc', argc_key=2),
        sf('getSize'), sf('isSparse'),
        sf('findSparseIndex', sel=r'const node_handle\* index, int N$', cname='simple_separated__findSparseIndex3', argc_key=3),
        sf('unlinkDownAndRecycle', where='out'),
        sf('makeNode', where='out'), sf('makeFullNode', where='out'), sf('makeSparseNode', where='out'),
        sf('areDuplicates', where='out'),
        sf('isSingletonNode', where='out'),
        sf('getDownPtr', where='out', sel=r'^node_address addr, int i$', cname='simple_separated__getDownPtr2', argc_key=2),
        sf('fillUnpacked', where='out'),
        uf('setFull', sel=r'^$', cname='unpacked_node__setFull_mode', argc_key='m0'), uf('setSparse', sel=r'^$', cname='unpacked_node__setSparse_mode', argc_key='m1'),
        uf('setFull', sel=r'^unsigned n, node_handle h$', cname='unpacked_node__setFull_h', argc_key='m2'),
        uf('setFull', sel=r'^unsigned n, const edge_value &v, node_handle h$', cname='unpacked_node__setFull_ev', argc_key='m3'),
        uf('setFull', sel=r'^unsigned n, const void\* p, node_handle h$', cname='unpacked_node__setFull_p', argc_key='m4'),
        uf('setSparse', sel=r'^unsigned n, unsigned i, node_handle h$', cname='unpacked_node__setSparse_h', argc_key='m5'),
        uf('setSparse', sel=r'^unsigned n, unsigned i, const void\* p,\s*node_handle h$', cname='unpacked_node__setSparse_p', argc_key='m6'),
        uf('clear', file='src/unpacked_node.cc', where='out'), uf('shrink'),
        uf('_clear', sel=r'^const FORST &F, unsigned low, unsigned high$', subst={'FORST': 'forest'}, cname='unpacked_node___clear3', argc_key=3, loops=2),
        uf('getSize'), uf('isSparse'), uf('isFull'), uf('hasEdges'),
        uf('down', sel=r'^unsigned n$', nth=0), uf('index', sel=r'^unsigned n$', nth=0), uf('edgeval', sel=r'^unsigned n$', nth=0),
        ef('set', sel=r'^int v$', cname='edge_value__set_int', argc_key='s_int'), ef('set', sel=r'^long v$', cname='edge_value__set_long', argc_key='s_long'),
        ef('set', sel=r'^float v$', cname='edge_value__set_float', argc_key='s_float'), ef('set', sel=r'^double v$', cname='edge_value__set_double', argc_key='s_double'),
        ef('setInt', sel=r'^const void \*p$'), ef('setLong', sel=r'^const void \*p$'), ef('setFloat', sel=r'^const void \*p$'), ef('setDouble', sel=r'^const void \*p$'),
        ef('setType'), ef('setRaw'),
        ef('set', sel=r'^edge_type et, const void\* p$', cname='edge_value__set_typed', argc_key=2),
        ef('isVoid'),
        ef('equals', sel=r'^int v$', cname='edge_value__equals_int', argc_key='args:^int$'),
        ef('equals', sel=r'^long v$', cname='edge_value__equals_long', argc_key='args:^long$'),
        ef('equals', sel=r'^float v$', cname='edge_value__equals_float', argc_key='args:^float$'),
        ef('equals', sel=r'^double v$', cname='edge_value__equals_double', argc_key='args:^double$'),
        ef('equals', sel=r'^const void\* p$', cname='edge_value__equals_ptr', argc_key='args:^ptr$'),
        ef('get', sel=r'^int &v$', cname='edge_value__get_int', argc_key=r'args:\(int\*\)'),
        ef('get', sel=r'^long &v$', cname='edge_value__get_long', argc_key=r'args:\(long\*\)'),
        ef('get', sel=r'^float &v$', cname='edge_value__get_float', argc_key=r'args:\(float\*\)'),
        ef('get', sel=r'^double &v$', cname='edge_value__get_double', argc_key=r'args:\(double\*\)'),
        ef('getInt', sel=r'^void \*p$'),
        ef('getLong', sel=r'^void \*p$'),
        ef('getFloat', sel=r'^void \*p$'),
        ef('getDouble', sel=r'^void \*p$'),
        ef('get', sel=r'^edge_type et, void\* p$', cname='edge_value__get_typed', argc_key='args:^typed$'),
    ],
    'may_throw_void': ['forest__unlinkNode'],
    'stubs': ['executable stubs (bodies in units/codecb/spec.h): one-chunk memory manager (grants the requested slots plus a symbolic padding), forest with transparent node 0 and a zero transparent edge value'],
    'assumptions': ['fillUnpacked is called on a scratch node sized to the level (as unpacked_node::initFromNode does)', 'BOUNDED: unpacked nodes with at most %d entries and indexes below %d; multi-terminal and EV(long) layouts; not counted as proved' % (NB, NB + 1)],
    'jobs': [
        job('unpack_roundtrip_mt', ['C02', 'C12']),
        job('unpack_roundtrip_ev', ['C02', 'C12'], defines=['CB_EV'], tier='thorough', timeout=7200),     # ~3 min
    ],
}
