/* U-ctitem */
/* after set(t, ci) the item has type t and the typed getter returns exactly the member of ci that type t names */
int lemma_ct_item_set_raw(struct ct_item *it, ct_typeID t, struct ct_entry_item ci)
__CPROVER_requires(__CPROVER_is_fresh(it, sizeof(*it)))
__CPROVER_requires(t == ct_typeID__NODE || t == ct_typeID__INTEGER || t == ct_typeID__LONG || t == ct_typeID__FLOAT || t == ct_typeID__DOUBLE || t == ct_typeID__GENERIC)
__CPROVER_requires(!__CPROVER_isnanf(ci.F) && !__CPROVER_isnand(ci.D))
__CPROVER_assigns(__CPROVER_object_whole(it))
ENSURES(a_stored_item_reads_back_as_stored, __CPROVER_return_value == 1)
;
