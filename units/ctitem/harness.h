int lemma_ct_item_set_raw(struct ct_item *it, ct_typeID t, struct ct_entry_item ci)
{
    ct_item__set_raw(it, t, ci);
    if (ct_item__getType(it) != t) return 0;
    switch (t) {
        case ct_typeID__NODE:    return ct_item__getN(it) == ci.N;
        case ct_typeID__INTEGER: return ct_item__getI(it) == ci.I;
        case ct_typeID__LONG:    return ct_item__getL(it) == ci.L;
        case ct_typeID__FLOAT:   return ct_item__getF(it) == ci.F;
        case ct_typeID__DOUBLE:  return ct_item__getD(it) == ci.D;
        case ct_typeID__GENERIC: return ct_item__getG(it) == ci.G;
        default: return 0;
    }
}
void h_ct_item_set_raw(void) { struct ct_item *it; ct_typeID t; struct ct_entry_item ci; lemma_ct_item_set_raw(it, t, ci); CANARY(); }
