# U-ctitem: the compute-table item (C07: "the result a cache hit hands back is the result that was stored"): ct_item::set(ct_typeID, ct_entry_item)
# is how every hit of an uncompressed table copies a stored result out (storage/ct_styles.cc isDead / equal_sw); the typed setters and getters.
V = 'src/ct_vector.h'
T = 'src/ct_entry_type.h'
def job(name, enforce, replace=(), props=('C07',), **kw):
    d = dict(name=name, entry='h_' + name, enforce=enforce, replace=list(replace), props=list(props))
    d.update(kw)
    return d
def cf(name, **kw):
    d = dict(cls='ct_item', name=name, file=V)
    d.update(kw)
    return d
UNIT = {
    'name': 'ctitem',
    'typedefs': [('src/defines.h', 'node_handle')],
    'enums': [(T, 'ct_typeID')],
    'classes': {
        'ct_object': {'opaque': True},
        'ct_entry_item': {'file': T},
        'ct_item': {'file': V},
    },
    'functions': [
        cf('setNext'), cf('setN'), cf('setI'), cf('setL'), cf('setF'), cf('setD'), cf('setG'),
        cf('getN'), cf('getI'), cf('getL'), cf('getF'), cf('getD'), cf('getG'), cf('getType'),
        cf('set', sel=r'^ct_typeID t, ct_entry_item ci$', cname='ct_item__set_raw'),
    ],
    'stubs': ['none'],
    'assumptions': ['union ct_entry_item is emitted with its members as separate fields (the overlay of the members is not modelled): only the member named by the type tag is meaningful, which is what the contract pins down'],
    'unverified_surroundings': {'C07': ['storage/ct_styles.cc (the hash table itself, its chains, stale-entry removal)', 'the compressed entry layout (ct_item::set(ct_typeID, const unsigned*))']},
    'jobs': [
        job('ct_item_set_raw', 'lemma_ct_item_set_raw'),
    ],
}
