/* U-index: the index-set lookup descent (C15; FOREST/DOMAIN mismatch raises: C16) */
#define IX_MAXSZ 100000
size_t ghost_g;
/* ghost configuration */
struct forest *g_fp; _Bool g_is_index_set, g_f_rel, g_m_rel; struct domain *g_fdom, *g_mdom; unsigned g_nvars;
struct unpacked_node *g_U;
/* ghost content of the scratch node */
size_t g_cap; unsigned g_usize; long *g_ev; int *g_idx; node_handle *g_down; unsigned g_ulevel;
unsigned g_init_calls; node_handle g_init_arg;
/* ghost result: chosen index per level, remaining index after the last choice */
unsigned g_choices; long g_remaining;
/* level of the node the descent currently holds (0 for a terminal); levels it passed without a node */
int g_cur_level; unsigned g_skips;

struct forest *forest__getForestWithID(unsigned id) __CPROVER_requires(1) __CPROVER_assigns() __CPROVER_ensures(__CPROVER_return_value == g_fp);
_Bool forest__isIndexSet(const struct forest *f) __CPROVER_requires(f != NULL) __CPROVER_assigns() __CPROVER_ensures(__CPROVER_return_value == g_is_index_set);
const struct domain *forest__getDomain(const struct forest *f) __CPROVER_requires(f != NULL) __CPROVER_assigns() __CPROVER_ensures(__CPROVER_return_value == g_fdom);
const struct domain *minterm__getDomain(const struct minterm *m) __CPROVER_requires(m != NULL) __CPROVER_assigns() __CPROVER_ensures(__CPROVER_return_value == g_mdom);
_Bool forest__isForRelations(const struct forest *f) __CPROVER_requires(f != NULL) __CPROVER_assigns() __CPROVER_ensures(__CPROVER_return_value == g_f_rel);
_Bool minterm__isForRelations(const struct minterm *m) __CPROVER_requires(m != NULL) __CPROVER_assigns() __CPROVER_ensures(__CPROVER_return_value == g_m_rel);
unsigned forest__getNumVariables(const struct forest *f) __CPROVER_requires(f != NULL) __CPROVER_assigns() __CPROVER_ensures(__CPROVER_return_value == g_nvars);
struct unpacked_node *unpacked_node__New(struct forest *f, node_storage_flags fl) __CPROVER_requires(f != NULL && fl == SPARSE_ONLY) __CPROVER_assigns() __CPROVER_ensures(__CPROVER_return_value == g_U);
void unpacked_node__Recycle(struct unpacked_node *u) __CPROVER_requires(u == g_U) __CPROVER_assigns() __CPROVER_ensures(1);

void unpacked_node__initFromNode(struct unpacked_node *u, node_handle p)
__CPROVER_requires(u == g_U)
REQUIRES(only_real_nodes_are_unpacked, p >= 1)
__CPROVER_assigns(g_usize, g_ulevel, g_init_calls, g_init_arg, __CPROVER_object_whole(g_ev), __CPROVER_object_whole(g_idx), __CPROVER_object_whole(g_down))
__CPROVER_ensures(1 <= g_usize && g_usize <= g_cap && g_init_calls == __CPROVER_old(g_init_calls) + 1 && g_init_arg == p)
__CPROVER_ensures(g_cur_level >= 1 && g_ulevel == (unsigned)g_cur_level)      /* the scratch node is at the level of the node unpacked */
;
/* forest::getNodeLevel(p): the level of the node the descent holds (0 for terminals) */
int forest__getNodeLevel(const struct forest *f, node_handle p) __CPROVER_requires(f != NULL) __CPROVER_assigns() __CPROVER_ensures(__CPROVER_return_value == g_cur_level);
unsigned unpacked_node__getSize(const struct unpacked_node *u) __CPROVER_requires(u == g_U) __CPROVER_assigns() __CPROVER_ensures(__CPROVER_return_value == g_usize);
long unpacked_node__edgeval_as_long(const struct unpacked_node *u, unsigned z)
__CPROVER_requires(u == g_U)
REQUIRES(offset_position_in_bounds, z < g_usize)
__CPROVER_assigns() __CPROVER_ensures(__CPROVER_return_value == g_ev[z])
#ifdef IX_INT_EV
__CPROVER_ensures(-2147483648L <= __CPROVER_return_value && __CPROVER_return_value <= 2147483647L)     /* getElemInt serves forests whose edge values are ints */
#endif
;
node_handle unpacked_node__down(const struct unpacked_node *u, unsigned z)
__CPROVER_requires(u == g_U)
REQUIRES(child_position_in_bounds, z < g_usize)
/* children lie strictly below their parent (C02, assumed here); a fully reduced index set MAY skip levels (a variable with a single value): the child's level is any lower one */
__CPROVER_assigns(g_cur_level) __CPROVER_ensures(__CPROVER_return_value == g_down[z] && 0 <= g_cur_level && (unsigned)g_cur_level < g_ulevel && ((__CPROVER_return_value >= 1) == (g_cur_level >= 1)));

/* ghost call standing for "m.from(k) = U->index(zmax);": its precondition is the postcondition of the backward search */
void verif_choose_child(struct minterm *m, unsigned k, struct unpacked_node *u, unsigned zmax, long index)
__CPROVER_requires(u == g_U)
REQUIRES(chosen_position_in_bounds, zmax < g_usize)
REQUIRES(assigns_the_level_being_visited, k == g_ulevel)
REQUIRES(chosen_offset_not_larger_than_index, zmax == 0 || g_ev[zmax] <= index)
REQUIRES(chosen_is_the_largest_such_position, !(zmax < ghost_g && ghost_g < g_usize) || g_ev[ghost_g] > index)
__CPROVER_assigns(g_choices, g_remaining)
__CPROVER_ensures(g_choices == __CPROVER_old(g_choices) + 1 && g_remaining == index - g_ev[zmax])
;
#define VERIF_CHOOSE_CHILD(m, k, U, zmax, index) verif_choose_child(&(m), k, U, zmax, index)
/* ghost call standing for "m.from(k) = 0;": a level without a node of the index set (the node held lies below it) */
void verif_skip_level(struct minterm *m, unsigned k)
REQUIRES(a_level_is_skipped_only_above_the_node_held, g_cur_level >= 0 && (unsigned)g_cur_level < k)
__CPROVER_assigns(g_skips)
__CPROVER_ensures(g_skips == __CPROVER_old(g_skips) + 1)
;
#define VERIF_SKIP_LEVEL(m, k) verif_skip_level(&(m), k)

#define GETELEM_CONTRACT(fn) \
_Bool fn(const struct dd_edge *self, long index, struct minterm *m) \
__CPROVER_requires(__CPROVER_is_fresh(self, sizeof(*self)) && __CPROVER_is_fresh(m, 1)) \
__CPROVER_requires(g_fp == NULL || g_U != NULL) \
/* the root is the empty set (OMEGA_INFINITY = 0), a terminal (every variable has one value) or a node at some level <= the number of variables */ \
__CPROVER_requires(0 <= g_cur_level && (unsigned)g_cur_level <= g_nvars && ((self->node >= 1) == (g_cur_level >= 1))) \
__CPROVER_requires(g_nvars >= 1 && g_nvars <= 1000 && g_init_calls == 0 && g_choices == 0 && g_skips == 0) \
__CPROVER_requires(verif_exc == 0) \
__CPROVER_assigns(verif_exc, g_usize, g_ulevel, g_init_calls, g_init_arg, g_choices, g_remaining, g_cur_level, g_skips, __CPROVER_object_whole(g_ev), __CPROVER_object_whole(g_idx), __CPROVER_object_whole(g_down)) \
ENSURES(detached_edge_rejected, (g_fp == NULL) ==> verif_exc == ERR_FOREST_MISMATCH) \
ENSURES(not_an_index_set_rejected, (g_fp != NULL && !g_is_index_set) ==> verif_exc == ERR_INVALID_OPERATION) \
ENSURES(other_domain_rejected, (g_fp != NULL && g_is_index_set && g_fdom != g_mdom) ==> verif_exc == ERR_DOMAIN_MISMATCH) \
ENSURES(accepted_otherwise, (g_fp != NULL && g_is_index_set && g_fdom == g_mdom && !g_f_rel && !g_m_rel) ==> verif_exc == 0) \
ENSURES(negative_index_fails, (verif_exc == 0 && index < 0) ==> (__CPROVER_return_value == 0 && g_init_calls == 0)) \
ENSURES(empty_set_has_no_elements, (verif_exc == 0 && self->node == 0) ==> (__CPROVER_return_value == 0 && g_init_calls == 0)) \
ENSURES(one_choice_per_level, (verif_exc == 0 && index >= 0 && self->node != 0) ==> (g_choices + g_skips == g_nvars && g_init_calls == g_choices)) \
ENSURES(a_node_root_is_unpacked, (verif_exc == 0 && index >= 0 && self->node >= 1) ==> g_choices >= 1) \
ENSURES(found_iff_index_exhausted, (verif_exc == 0 && index >= 0 && self->node >= 1) ==> (__CPROVER_return_value == (g_remaining <= 0)))

GETELEM_CONTRACT(dd_edge__getElemLong);
GETELEM_CONTRACT(dd_edge__getElemInt);
