#define H_IX(name, fn) void h_##name(void) { struct dd_edge *e; struct minterm *m; long w_index = nondet_long(); ghost_g = nondet_size_t(); \
    g_is_index_set = nondet_bool(); g_f_rel = nondet_bool(); g_m_rel = nondet_bool(); g_nvars = nondet_unsigned(); \
    size_t n_ = nondet_size_t(); __CPROVER_assume(1 <= n_ && n_ <= IX_MAXSZ); g_cap = n_; \
    g_ev = malloc(sizeof(long) * n_); g_idx = malloc(sizeof(int) * n_); g_down = malloc(sizeof(node_handle) * n_); __CPROVER_assume(g_ev && g_idx && g_down); \
    g_init_calls = 0; g_choices = 0; fn(e, w_index, m); CANARY(); }
H_IX(getElemLong, dd_edge__getElemLong)
H_IX(getElemInt, dd_edge__getElemInt)
