#define IX_OUTER \
    __CPROVER_assigns(k, index, p, g_usize, g_ulevel, g_init_calls, g_init_arg, g_choices, g_remaining, g_cur_level, g_skips, __CPROVER_object_whole(g_ev), __CPROVER_object_whole(g_idx), __CPROVER_object_whole(g_down)) \
    __CPROVER_loop_invariant(k <= g_nvars && g_init_calls <= g_nvars - k && g_skips == g_nvars - k - g_init_calls && g_choices == g_init_calls) \
    __CPROVER_loop_invariant(0 <= g_cur_level && (unsigned)g_cur_level <= k && ((p >= 1) == (g_cur_level >= 1))) \
    __CPROVER_loop_invariant(g_choices >= 1 || p == self->node) \
    __CPROVER_loop_invariant(g_choices == 0 || g_remaining == index) \
    __CPROVER_decreases(k)
#define IX_INNER \
    __CPROVER_assigns(zmax) \
    __CPROVER_loop_invariant(zmax < g_usize) \
    __CPROVER_loop_invariant(!(zmax < ghost_g && ghost_g < g_usize) || g_ev[ghost_g] > index) \
    __CPROVER_decreases(zmax)
#define LOOP_dd_edge__getElemLong_1 IX_OUTER
#define LOOP_dd_edge__getElemLong_2 IX_INNER
#define LOOP_dd_edge__getElemInt_1 IX_OUTER
#define LOOP_dd_edge__getElemInt_2 IX_INNER
