#define IX_OUTER \
    __CPROVER_assigns(k, index, p, g_usize, g_ulevel, g_init_calls, g_init_arg, g_choices, g_remaining, __CPROVER_object_whole(g_ev), __CPROVER_object_whole(g_idx), __CPROVER_object_whole(g_down)) \
    __CPROVER_loop_invariant(k <= g_nvars && g_init_calls == g_nvars - k && g_choices == g_nvars - k) \
    __CPROVER_loop_invariant(k == 0 || p >= 1) \
    __CPROVER_loop_invariant(k == g_nvars || g_remaining == index) \
    __CPROVER_decreases(k)
#define IX_INNER \
    __CPROVER_assigns(zmax) \
    __CPROVER_loop_invariant(zmax < g_usize) \
    __CPROVER_loop_invariant(!(zmax < ghost_g && ghost_g < g_usize) || g_ev[ghost_g] > index) \
    __CPROVER_decreases(zmax)
#define LOOP_dd_edge__getElemLong_1 IX_OUTER
#define LOOP_dd_edge__getElemLong_2 IX_INNER
#define LOOP_dd_edge__getElemInt_1 IX_OUTER
#define LOOP_dd_edge__getElemInt_2 IX_INNER
