// Native replay for U-index: drive dd_edge::getElement through the public API of the tree under test.
#include "src/meddly.h"
#include "replay_util.h"
#include <csignal>
#include <unistd.h>
#include <sys/wait.h>
using namespace MEDDLY;
// run the lookup in a child process: a crash (signal) is the reproduction of a violated callee precondition
static int lookup_in_child(bool empty_set, long index)
{
    fflush(stdout);
    pid_t pid = fork();
    if (pid == 0) {
        initialize();
        int bounds[] = {2, 3, 2};
        domain* d = domain::createBottomUp(bounds, 3);
        forest* mdd = forest::create(d, SET, range_type::BOOLEAN, edge_labeling::MULTI_TERMINAL);
        forest* ix = forest::create(d, SET, range_type::INTEGER, edge_labeling::INDEX_SET);
        dd_edge e(mdd), x(ix);
        mdd->createConstant(!empty_set, e);
        apply(CONVERT_TO_INDEX_SET, e, x);
        minterm m(d, SET);
        bool r = false;
        try { r = x.getElement(index, m); } catch (error er) { _exit(10); }
        _exit(r ? 1 : 0);
    }
    int st = 0; waitpid(pid, &st, 0);
    if (WIFSIGNALED(st)) return -WTERMSIG(st);
    return WEXITSTATUS(st);
}
int main(int argc, char** argv)
{
    replay_args a(argc, argv);
    long index = a.has("w_index") ? a.i("w_index") : 0;
    if (a.obligation == "only_real_nodes_are_unpacked") {
        // the obligation fails for a terminal root: the index set of the empty set
        int r = lookup_in_child(true, index < 0 ? 0 : index);
        printf("getElement(%ld) on the index set of the empty set -> %d\n", index < 0 ? 0 : index, r);
        REPRO(r < 0, "the library crashed with signal %d instead of reporting 'no such element'", -r);
        REPRO(r == 1, "an element was reported for the empty set");
        NOREPRO();
    }
    // full set of 12 elements: every index 0..11 must be found, everything else not
    int r = lookup_in_child(false, index);
    printf("getElement(%ld) on the full set of 12 elements -> %d\n", index, r);
    REPRO(r < 0, "crash (signal %d)", -r);
    REPRO((index >= 0 && index < 12) != (r == 1), "wrong answer for index %ld", index);
    NOREPRO();
}
