D = 'src/dd_edge.cc'
DH = 'src/dd_edge.h'
FOREIGN = {
    'isIndexSet': {'*': 'forest'}, 'getDomain': {'fp': 'forest', 'm': 'minterm'},
    'isForRelations': {'fp': 'forest', 'm': 'minterm'}, 'getEdgeType': {'*': 'forest'},
    'getNumVariables': {'*': 'forest'}, 'getNodeLevel': {'*': 'forest'},
    'initFromNode': {'*': 'unpacked_node'}, 'getSize': {'*': 'unpacked_node'},
    'down': {'*': 'unpacked_node'}, 'index': {'*': 'unpacked_node'},
}
def subst(T):
    # long(ev) reads the stored offset; int(ev) reads it narrowed to 32 bits (edge_value::operator int() of the release build) - the narrowing is kept
    return [
        (T + r'\(U->edgeval\(zmax\)\)', 'unpacked_node__edgeval_as_long(U, zmax)' if T == 'long' else '((long)(int)unpacked_node__edgeval_as_long(U, zmax))', D),
    ] + ([
        (r'm\.from\(k\) = U->index\(zmax\);', 'VERIF_CHOOSE_CHILD(m, k, U, zmax, index);', D),
        (r'm\.from\(k\) = 0;', 'VERIF_SKIP_LEVEL(m, k);', D),
    ] if T == 'long' else [])
def job(name, enforce, replace=(), props=('C15', 'C16'), **kw):
    d = dict(name=name, entry='h_' + name, enforce=enforce, replace=list(replace), props=list(props))
    d.update(kw)
    return d
STUBS = ['forest__getForestWithID', 'forest__isIndexSet', 'forest__getDomain', 'minterm__getDomain', 'forest__isForRelations',
         'minterm__isForRelations', 'forest__getNumVariables', 'unpacked_node__New', 'unpacked_node__Recycle',
         'unpacked_node__initFromNode', 'forest__getNodeLevel', 'verif_skip_level', 'unpacked_node__getSize', 'unpacked_node__edgeval_as_long', 'unpacked_node__down',
         'verif_choose_child']
UNIT = {
    'name': 'index',
    'typedefs': [('src/defines.h', 'node_handle')],
    'extra_typedefs': [('node_storage_flags', 'unsigned')],
    'enums': [('src/edge_value.h', 'edge_type')],
    'consts': [('src/policies.h', ['SPARSE_ONLY']), ('src/terminal.h', ['OMEGA_NORMAL', 'OMEGA_ZERO', 'OMEGA_INFINITY'])],
    'classes': {
        'forest': {'opaque': True}, 'minterm': {'opaque': True}, 'unpacked_node': {'opaque': True}, 'domain': {'opaque': True},
        'dd_edge': {'file': DH, 'fields': ['parentFID', 'node']},
    },
    'foreign': FOREIGN,
    'text_subst': subst('long') + subst('int'),
    'extra_methods': [],
    'extra_free': {},
    'functions': [
        dict(cls='dd_edge', name='getElemLong', file=D, loops=2, fires={'R1': 5}),
        dict(cls='dd_edge', name='getElemInt', file=D, loops=2, fires={'R1': 5}),
    ],
    'replay_full_library': True, 'replay_link': ['-lgmp'],
    'stubs': [
        'forest::getForestWithID / isIndexSet / getDomain / isForRelations / getNumVariables, minterm::getDomain / isForRelations: return ghost values',
        'unpacked_node::New/Recycle: one scratch node object',
        'unpacked_node::initFromNode(p): PRECONDITION p >= 1 (it reads the node level and address of p, unpacked_node.cc:347); yields a sparse node with 1 <= size, children and offsets in ghost arrays',
        'unpacked_node::down(z): the child lies at some level strictly below its parent (C02, assumed) - a fully reduced index set MAY skip a level (a variable with one value); forest::getNodeLevel(p) returns that ghost level',
        'the statement "m.from(k) = 0;" of a skipped level is mapped (text_subst, must fire) to a ghost call whose PRECONDITION is that the node held lies below level k',
        'the statement "m.from(k) = U->index(zmax);" is mapped (text_subst, must fire) to a ghost call whose PRECONDITION is the search postcondition: zmax is the largest position whose offset is <= the remaining index',
    ],
    'assumptions': ['the conversion mdd2index (offsets = number of members below, stored cardinalities) is not covered: only the lookup descent'],
    'unverified_surroundings': {'C15': ['operations/mdd2index.cc (conversion, cardinalities)', 'forests/evmdd_pluslong.cc', 'dd_edge::getElement dispatch']},
    'jobs': [
        job('getElemLong', 'dd_edge__getElemLong', STUBS, loops=2, object_bits=11),
        job('getElemInt', 'dd_edge__getElemInt', STUBS, loops=2, object_bits=11, defines=['IX_INT_EV']),      # forests with int edge values: the offsets fit an int
    ],
}
