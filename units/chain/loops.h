#define LOOP_forest___makeRedundantsTo_1 __CPROVER_assigns(K, p, U, check_singleton, g_D) __CPROVER_loop_invariant(g_D == 1 && -1000000 < K && K < 1000000)
#define LOOP_forest___makeRedundantsTo_2 __CPROVER_assigns(i, g_D) __CPROVER_loop_invariant(g_D == 1)
#define LOOP_forest___makeIdentitiesTo_1 __CPROVER_assigns(K, p, Uun, Upr, g_D) __CPROVER_loop_invariant(g_D == 1)
#define LOOP_forest___makeIdentitiesTo_2 __CPROVER_assigns(i, Upr, g_D) __CPROVER_loop_invariant(g_D == 1)
