void h_makeRedundantsTo_balance(void) { struct forest *f; node_handle p; int K, L; forest___makeRedundantsTo(f, p, K, L); CANARY(); }
void h_makeIdentitiesTo_balance(void) { struct forest *f; node_handle p; int K, L, in; forest___makeIdentitiesTo(f, p, K, L, in); CANARY(); }
