/* U-chain: reference balance of the chain builders */
long g_D;                 /* references held by the builder minus pointers written into scratch nodes that are not stored yet */
unsigned g_size;          /* size of a level (arbitrary, fixed) */
struct unpacked_node { char x; };
static struct unpacked_node verif_the_scratch;    /* scratch nodes carry no state here (no allocation: loop contracts forbid it) */
static struct unpacked_node *verif_scratch(void) { return &verif_the_scratch; }
struct unpacked_node *verif_newWritable_full(struct forest *f, int k) { return verif_scratch(); }
struct unpacked_node *verif_newWritable_sparse1(struct forest *f, int k) { return verif_scratch(); }
struct unpacked_node *verif_newRedundant(struct forest *f, int k, node_handle p) { g_D -= g_size; return verif_scratch(); }     /* size pointers, all to p */
unsigned unpacked_node__getSize(const struct unpacked_node *u) { return g_size; }
void verif_setFull(struct unpacked_node *u, unsigned i, node_handle h) { __CPROVER_assert(i < g_size, "entry written inside the node"); g_D -= 1; }
void verif_setSparse(struct unpacked_node *u, unsigned i, node_handle h) { g_D -= 1; }
node_handle forest__linkNode(struct forest *f, node_handle h) { g_D += 1; return h; }
void forest__unlinkNode(struct forest *f, node_handle h) { g_D -= 1; }
void verif_linkAllDown(struct forest *f, struct unpacked_node *u, unsigned i) { __CPROVER_assert(i <= g_size, "first linked entry inside the node"); g_D += (long)(g_size - i); }
void verif_store(struct forest *f, struct unpacked_node *u, node_handle *p) { g_D += 1; *p = nondet_int(); }          /* createReducedNode: consumes the node, returns one reference to what is stored */
_Bool forest__isIdentityReduced(const struct forest *f) { return nondet_bool(); }
_Bool forest__isForRelations(const struct forest *f) { return nondet_bool(); }
_Bool forest__isFullyReduced(const struct forest *f) { return nondet_bool(); }
int forest__getNodeLevel(const struct forest *f, node_handle p) { return nondet_int(); }
_Bool forest__isSingletonNode(const struct forest *f, node_handle p, unsigned *sind, node_handle *sdwn) { return nondet_bool(); }      /* leaves *sind, *sdwn as they are: uninitialised locals, i.e. arbitrary (a write through the pointers is outside the loop frame CBMC tracks) */
int MXD_levels__upLevel(int k) { int r = nondet_int(); __CPROVER_assume(-1000000 < r && r < 1000000); return r; }
int MXD_levels__downLevel(int k) { int r = nondet_int(); __CPROVER_assume(-1000000 < r && r < 1000000); return r; }
int MDD_levels__upLevel(int k) { int r = nondet_int(); __CPROVER_assume(-1000000 < r && r < 1000000); return r; }

#define CHAIN_CONTRACT \
__CPROVER_requires(__CPROVER_is_fresh(self, 1)) \
__CPROVER_requires(g_D == 1 && 1 <= g_size && g_size <= 64 && -1000000 < K && K < 1000000 && -1000000 < L && L < 1000000) \
__CPROVER_assigns(g_D) \
ENSURES(the_builder_hands_back_exactly_the_one_reference_it_was_given, g_D == 1)
VERIF_RET_forest___makeRedundantsTo forest___makeRedundantsTo(struct forest *self, node_handle p, int K, int L) CHAIN_CONTRACT;
VERIF_RET_forest___makeIdentitiesTo forest___makeIdentitiesTo(struct forest *self, node_handle p, int K, int L, int in) CHAIN_CONTRACT;
