# U-chain: the chain builders forest::_makeRedundantsTo / _makeIdentitiesTo (C06: "every stored down pointer is backed by exactly one reference"): they put layers of
# nodes above a node the caller hands over WITH one reference, and must hand back the result with exactly one.  Reference balance as one ghost number.
FC = 'src/forest.cc'
def job(name, enforce, replace=(), props=('C06',), **kw):
    d = dict(name=name, entry='h_' + name, enforce=enforce, replace=list(replace), props=list(props))
    d.update(kw)
    return d
def fm(name, argc, **kw):
    d = dict(cls='forest', name=name, argc=argc, cname='forest__' + name)
    d.update(kw)
    return d
UNIT = {
    'name': 'chain',
    'typedefs': [('src/defines.h', 'node_handle')],
    'classes': {'forest': {'opaque': True}, 'unpacked_node': {'opaque': True}},
    'foreign': {'getSize': {'*': 'unpacked_node'}},
    'text_subst': [
        # scratch-node construction and the writes into it: mapped (each must match the source text) to ghost calls that keep the arguments that matter
        (r'unpacked_node::newWritable\(this, ([^,()]+), FULL_ONLY\)', r'verif_newWritable_full(this, \1)', FC),
        (r'unpacked_node::newWritable\(this, ([^,()]+), 1, SPARSE_ONLY\)', r'verif_newWritable_sparse1(this, \1)', FC),
        (r'unpacked_node::newRedundant\(this, ([^,()]+), noop_edge, p, FULL_ONLY\)', r'verif_newRedundant(this, \1, p)', FC),
        (r'(\w+)->setFull\(i, noop_edge, ', r'verif_setFull(\1, i, ', FC),
        (r'(\w+)->setSparse\(0, ([^,]+), noop_edge, ', r'verif_setSparse(\1, \2, ', FC),
        (r'createReducedNode\((\w+), ev, (\w+)\);', r'verif_store(this, \1, &\2);', FC),
        (r'edge_value ev;', ';', FC),
        (r'linkAllDown\(\*(\w+), (\w+)\)', r'verif_linkAllDown(this, \1, \2)', FC),
        (r'linkAllDown\(\*(\w+)\)', r'verif_linkAllDown(this, \1, 0)', FC),
        (r'MXD_levels::upLevel\(', 'MXD_levels__upLevel(', FC), (r'MXD_levels::downLevel\(', 'MXD_levels__downLevel(', FC), (r'MDD_levels::upLevel\(', 'MDD_levels__upLevel(', FC),
    ],
    'extra_free': {n: n for n in ['verif_newWritable_full', 'verif_newWritable_sparse1', 'verif_newRedundant', 'verif_setFull', 'verif_setSparse', 'verif_store',
                                  'verif_linkAllDown', 'MXD_levels__upLevel', 'MXD_levels__downLevel', 'MDD_levels__upLevel']},
    'extra_methods': [
        fm('isIdentityReduced', 0), fm('isForRelations', 0), fm('isFullyReduced', 0), fm('getNodeLevel', 1), fm('isSingletonNode', 3),
        fm('linkNode', 1), fm('unlinkNode', 1),
        dict(cls='unpacked_node', name='getSize', argc=0, cname='unpacked_node__getSize'),
    ],
    'ref_params': {'forest__isSingletonNode': [2, 3]},
    'functions': [
        dict(cls='forest', name='_makeRedundantsTo', file=FC, where='out', loops=2),
        dict(cls='forest', name='_makeIdentitiesTo', file=FC, where='out', loops=2),
    ],
    'stubs': ['executable ghost stubs (units/chain/spec.h): ONE number g_D = references held by the builder minus pointers written into nodes not yet stored; '
              'linkNode +1, unlinkNode -1, linkAllDown(U, i) +(size - i), newRedundant -size (a redundant node holds size pointers to p), every setFull / setSparse -1, '
              'createReducedNode +1 (it consumes as many references as pointers - proved for the real one in U-reduce - and returns one reference to the stored node); '
              'level arithmetic, reduction-rule getters, isSingletonNode return arbitrary values'],
    'assumptions': ['all levels have the same (arbitrary, 1..64) size; the balance is aggregated over nodes: an over-link of one node compensated by an under-link of another would go unnoticed'],
    'unverified_surroundings': {'C06': ['callers of makeRedundantsTo / makeIdentitiesTo (operations), unpacked_node::newRedundant']},
    'jobs': [
        job('makeRedundantsTo_balance', 'forest___makeRedundantsTo', [], loops=2),
        job('makeIdentitiesTo_balance', 'forest___makeIdentitiesTo', [], loops=2),
    ],
}
