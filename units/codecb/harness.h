/* abstract view of an unpacked node: child (and EV value) at index i, transparent where absent */
static node_handle u_down_at(const struct unpacked_node *u, unsigned i)
{
    if (u->is_full) return i < u->size ? u->_down[i] : 0;
    for (unsigned z = 0; z < u->size; z++) if (u->_index[z] == i) return u->_down[z];
    return 0;
}
static long u_ev_at(const struct unpacked_node *u, unsigned i)
{
    if (u->is_full) return i < u->size ? u->_edge[i].ev_long : 0;
    for (unsigned z = 0; z < u->size; z++) if (u->_index[z] == i) return u->_edge[z].ev_long;
    return 0;
}
static void cb_make_node(struct unpacked_node *u, node_handle *dn, unsigned *ix, struct edge_value *ev)
{
    u->_down = dn; u->_index = ix; u->_edge = ev;
    u->size = nondet_unsigned(); __CPROVER_assume(1 <= u->size && u->size <= NB);
    u->is_full = nondet_bool(); u->level = 1;
#ifdef CB_EV
    u->the_edge_type = edge_type__LONG;
#else
    u->the_edge_type = edge_type__VOID;
#endif
    for (unsigned z = 0; z < NB; z++) {
        dn[z] = nondet_int(); ix[z] = nondet_unsigned();
#ifdef CB_EV
        ev[z].mytype = edge_type__LONG; ev[z].ev_long = nondet_long();
        if (dn[z] == 0) ev[z].ev_long = 0;           /* transparent edge: value 0 (normalised nodes) */
#else
        ev[z].mytype = edge_type__VOID;
#endif
    }
    if (!u->is_full) {   /* sparse: sorted, distinct, in range, non-transparent entries */
        for (unsigned z = 0; z < NB; z++) if (z < u->size) {
            __CPROVER_assume(ix[z] <= NB && dn[z] != 0);
            if (z > 0) __CPROVER_assume(ix[z - 1] < ix[z]);
        }
    }
}
static void h_codec_roundtrip(void)
{
    struct simple_separated ss; struct forest *fp = (struct forest *)malloc(1); struct memory_manager *mm = (struct memory_manager *)malloc(1);
    __CPROVER_assume(fp && mm);
    ss.parent = fp; ss.MM = mm; ss.unhashed_start = header_slots; ss.unhashed_slots = 0; ss.hashed_start = header_slots; ss.hashed_slots = 0; ss.down_start = header_slots;
#ifdef CB_EV
    ss.slots_per_edge = 2; cb_transparent_edge.mytype = edge_type__LONG; cb_transparent_edge.ev_long = 0;
#else
    ss.slots_per_edge = 0; cb_transparent_edge.mytype = edge_type__VOID;
#endif
    node_handle dn[NB]; unsigned ix[NB]; struct edge_value ev[NB];
    struct unpacked_node u;
    cb_make_node(&u, dn, ix, ev);
    /* the node must have at least one non-transparent entry (createReducedNode never stores a transparent node) */
    _Bool some = 0; for (unsigned i = 0; i <= NB; i++) if (u_down_at(&u, i) != 0) some = 1;
    __CPROVER_assume(some);
    cb_pad = nondet_size_t(); __CPROVER_assume(cb_pad <= 2);
    node_storage_flags opt = nondet_uchar(); __CPROVER_assume(opt == FULL_ONLY || opt == SPARSE_ONLY || opt == FULL_OR_SPARSE);
    node_handle p = nondet_int(); __CPROVER_assume(p >= 1);
    verif_exc = 0;
    node_address addr = simple_separated__makeNode(&ss, p, &u, opt);
    __CPROVER_assert(verif_exc == 0 && addr == 1, "bounded: node stored");
    /* 1. the packed node is recognised as a duplicate of its source, whatever the storage form */
    __CPROVER_assert(simple_separated__areDuplicates(&ss, addr, &u), "bounded: packed node equals its source");
    /* 2. every child is read back at its index */
    for (unsigned i = 0; i <= NB; i++) {
        node_handle d = simple_separated__getDownPtr2(&ss, addr, (int)i);
        __CPROVER_assert(d == u_down_at(&u, i), "bounded: child read back at its index");
    }
    /* 3. a node that differs in one child (or one edge value) is not a duplicate */
    {
        node_handle dn2[NB]; unsigned ix2[NB]; struct edge_value ev2[NB]; struct unpacked_node u2;
        cb_make_node(&u2, dn2, ix2, ev2);
        _Bool same = 1;
        for (unsigned i = 0; i <= NB; i++) {
            if (u_down_at(&u, i) != u_down_at(&u2, i)) same = 0;
#ifdef CB_EV
            if (u_down_at(&u, i) != 0 && u_ev_at(&u, i) != u_ev_at(&u2, i)) same = 0;
#endif
        }
        /* a full node may carry trailing transparent entries; its size is not part of the denoted function */
        _Bool dup = simple_separated__areDuplicates(&ss, addr, &u2);
        __CPROVER_assert(dup == same, "bounded: duplicate test decides equality of the denoted nodes");
    }
    /* 4. singleton test agrees with the content */
    {
        unsigned ind = 0; node_handle dnn = 0; unsigned cnt = 0, last = 0;
        for (unsigned i = 0; i <= NB; i++) if (u_down_at(&u, i) != 0) { cnt++; last = i; }
        _Bool sing = simple_separated__isSingletonNode(&ss, addr, &ind, &dnn);
        __CPROVER_assert(sing == (cnt == 1), "bounded: singleton test");
        __CPROVER_assert(!sing || (ind == last && dnn == u_down_at(&u, last)), "bounded: singleton entry");
    }
    /* 5. deletion releases every stored child once and recycles exactly the granted extent */
    {
        unsigned before = cb_unlinks; unsigned stored = (unsigned)cb_chunk[size_slot] >> 1;
        simple_separated__unlinkDownAndRecycle(&ss, addr);
        __CPROVER_assert(cb_unlinks == before + stored && cb_recycles == 1 && cb_recycled_slots == cb_given, "bounded: release and recycle");
    }
    CANARY();
}
void h_codec_roundtrip_mt(void) { h_codec_roundtrip(); }
void h_codec_roundtrip_ev(void) { h_codec_roundtrip(); }
