#define LOOP_variable_order__is_compatible_with_order_1 \
    __CPROVER_assigns(i) \
    __CPROVER_loop_invariant(i <= self->ghost_n + 1 && self->ghost_n == order->ghost_n) \
    __CPROVER_loop_invariant(ghost_g >= i || self->level2var[ghost_g] == order->level2var[ghost_g]) \
    __CPROVER_decreases(self->ghost_n + 1 - i)
