/* U-vord: the two order maps stay mutually inverse (C13) */
/* allocation failure = std::bad_alloc: the path ends (not a MEDDLY error) */
#define VERIF_NEW_ZERO_ARRAY(T, n) ({ T *verif_p_ = (T *)calloc((size_t)(n), sizeof(T)); __CPROVER_assume(verif_p_ != NULL); verif_p_; })
#define VORD_MAXN 100000
size_t ghost_g;     /* arbitrary variable / level */

#define VORD_WF_REQ(o) \
    __CPROVER_requires(__CPROVER_is_fresh(o, sizeof(*(o)))) \
    __CPROVER_requires(1 <= (o)->ghost_n && (o)->ghost_n <= VORD_MAXN) \
    __CPROVER_requires(__CPROVER_is_fresh((o)->level2var, ((o)->ghost_n + 1) * sizeof(int))) \
    __CPROVER_requires(__CPROVER_is_fresh((o)->var2level, ((o)->ghost_n + 1) * sizeof(int)))
/* point-wise: the maps are inverse at v (a variable) */
#define INV_AT_VAR(o, v) (0 <= (o)->var2level[v] && (size_t)(o)->var2level[v] <= (o)->ghost_n && (o)->level2var[(o)->var2level[v]] == (int)(v))
#define INV_AT_LVL(o, l) (0 <= (o)->level2var[l] && (size_t)(o)->level2var[l] <= (o)->ghost_n && (o)->var2level[(o)->level2var[l]] == (int)(l))

void variable_order__exchange(struct variable_order *self, int var1, int var2)
VORD_WF_REQ(self)
__CPROVER_requires(1 <= var1 && (size_t)var1 <= self->ghost_n && 1 <= var2 && (size_t)var2 <= self->ghost_n)      /* MEDDLY_DCASSERT(var1 > 0 && var2 > 0) */
__CPROVER_requires(ghost_g <= self->ghost_n)
/* the maps are inverse at the two variables and at the ghost variable / ghost level */
__CPROVER_requires(INV_AT_VAR(self, var1) && INV_AT_VAR(self, var2) && INV_AT_VAR(self, ghost_g) && INV_AT_LVL(self, ghost_g))
__CPROVER_assigns(self->var2level[var1], self->var2level[var2], self->level2var[self->var2level[var1]], self->level2var[self->var2level[var2]])
ENSURES(levels_swapped, self->var2level[var1] == __CPROVER_old(self->var2level[var2]) && self->var2level[var2] == __CPROVER_old(self->var2level[var1]))
ENSURES(still_inverse_at_swapped, INV_AT_VAR(self, var1) && INV_AT_VAR(self, var2))
ENSURES(other_variables_keep_their_level, ghost_g == (size_t)var1 || ghost_g == (size_t)var2 || self->var2level[ghost_g] == __CPROVER_old(self->var2level[ghost_g]))
ENSURES(still_inverse_everywhere, INV_AT_VAR(self, ghost_g) && INV_AT_LVL(self, ghost_g))
;

int lemma_vord_getters(struct variable_order *o, int k)
VORD_WF_REQ(o)
__CPROVER_requires(0 <= k && (size_t)k <= o->ghost_n)
__CPROVER_assigns()
ENSURES(getters_read_the_maps, __CPROVER_return_value == 1)
;

int lemma_exchange_twice(struct variable_order *o, int v1, int v2)
VORD_WF_REQ(o)
__CPROVER_requires(1 <= v1 && (size_t)v1 <= o->ghost_n && 1 <= v2 && (size_t)v2 <= o->ghost_n && ghost_g <= o->ghost_n)
__CPROVER_requires(INV_AT_VAR(o, v1) && INV_AT_VAR(o, v2) && INV_AT_VAR(o, ghost_g) && INV_AT_LVL(o, ghost_g))
__CPROVER_assigns(__CPROVER_object_whole(o->var2level), __CPROVER_object_whole(o->level2var))
ENSURES(exchange_is_an_involution, o->var2level[ghost_g] == __CPROVER_old(o->var2level[ghost_g]) && o->level2var[ghost_g] == __CPROVER_old(o->level2var[ghost_g]))
;

/* "compatible" = the same order: a forest may only take over another forest's order object if every level holds the same variable */
_Bool variable_order__is_compatible_with_order(const struct variable_order *self, const struct variable_order *order)
__CPROVER_requires(__CPROVER_is_fresh(self, sizeof(*self)) && 1 <= self->ghost_n && self->ghost_n <= VORD_MAXN)
__CPROVER_requires(__CPROVER_is_fresh(self->level2var, (self->ghost_n + 1) * sizeof(int)) && __CPROVER_is_fresh(self->var2level, (self->ghost_n + 1) * sizeof(int)))
__CPROVER_requires(order == self || (__CPROVER_is_fresh(order, sizeof(*order)) && 1 <= order->ghost_n && order->ghost_n <= VORD_MAXN &&
                   __CPROVER_is_fresh(order->level2var, (order->ghost_n + 1) * sizeof(int)) && __CPROVER_is_fresh(order->var2level, (order->ghost_n + 1) * sizeof(int))))
__CPROVER_requires(ghost_g <= self->ghost_n)
__CPROVER_assigns()
ENSURES(an_order_is_compatible_with_itself, order != self || __CPROVER_return_value)
ENSURES(compatible_orders_have_the_same_number_of_variables, !__CPROVER_return_value || self->ghost_n == order->ghost_n)
ENSURES(compatible_orders_hold_the_same_variable_at_every_level, !__CPROVER_return_value || self->level2var[ghost_g] == order->level2var[ghost_g])
;
