int lemma_vord_getters(struct variable_order *o, int k)
{
    return variable_order__getVarByLevel(o, k) == o->level2var[k] && variable_order__getLevelByVar(o, k) == o->var2level[k];
}
int lemma_exchange_twice(struct variable_order *o, int v1, int v2)
{
    variable_order__exchange(o, v1, v2);
    variable_order__exchange(o, v1, v2);
    return 0;
}
void h_vord_exchange(void) { struct variable_order *o; int w_v1 = nondet_int(), w_v2 = nondet_int(); ghost_g = nondet_size_t(); variable_order__exchange(o, w_v1, w_v2); CANARY(); }
void h_vord_getters(void) { struct variable_order *o; int w_k = nondet_int(); lemma_vord_getters(o, w_k); CANARY(); }
void h_vord_exchange_twice_is_identity(void) { struct variable_order *o; int w_v1 = nondet_int(), w_v2 = nondet_int(); ghost_g = nondet_size_t(); lemma_exchange_twice(o, w_v1, w_v2); CANARY(); }
void h_vord_is_compatible_with(void) { struct variable_order *o, *p; _Bool w_same = nondet_bool(); ghost_g = nondet_size_t(); if (w_same) p = o; variable_order__is_compatible_with_order(o, p); CANARY(); }
