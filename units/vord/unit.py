H = 'src/varorder.h'
C = 'src/varorder.cc'
def job(name, enforce, replace=(), props=('C13',), **kw):
    d = dict(name=name, entry='h_' + name, enforce=enforce, replace=list(replace), props=list(props))
    d.update(kw)
    return d
UNIT = {
    'name': 'vord',
    'classes': {'variable_order': {'file': H, 'ghost_fields': ['size_t ghost_n /* number of variables: both vectors have ghost_n+1 cells */']}},
    # std::vector<int>::assign(n, 0) == fresh zero-filled array of n ints (the only vector operation in the constructor)
    'functions': [
        dict(cls='variable_order', name='getVarByLevel', file=H),
        dict(cls='variable_order', name='getLevelByVar', file=H),
        dict(cls='variable_order', name='exchange', file=C),
        dict(cls='variable_order', name='is_compatible_with', file=C, sel=r'^const variable_order& order$', where='out', loops=1, cname='variable_order__is_compatible_with_order'),
    ],
    'foreign': {'getVarByLevel': {'*': 'variable_order'}, 'getLevelByVar': {'*': 'variable_order'}},
    'text_subst': [
        # std::vector<int>::size() of the two maps == ghost_n + 1 (see 'stubs')
        (r'order\.level2var\.size\(\)', '(order.ghost_n + 1)', C),
        (r'(?<![\w.])level2var\.size\(\)', '(this->ghost_n + 1)', C),
    ],
    'stubs': ['std::vector<int> is modelled as a plain int array of ghost_n+1 cells; vector::assign(n,0) as a fresh zero-filled array (text_subst, must fire twice)'],
    'assumptions': ['the constructor loop (varorder.cc:29) is not covered: its memory safety needs "every order[i] is in range", a quantified precondition the SAT back end cannot take', 'the node rewriting of swapAdjacentVariables and the reordering heuristics are not covered: only the order bookkeeping every swap goes through'],
    'unverified_surroundings': {'C13': ['forests/mtmdd.cc swapAdjacentVariables, mtmxd.cc swaps, forest.cc modifyReducedNodeInPlace/swapNodes, reordering/*.h schedules']},
    'jobs': [
        job('vord_exchange', 'variable_order__exchange'),
        job('vord_getters', 'lemma_vord_getters'),
        job('vord_is_compatible_with', 'variable_order__is_compatible_with_order', loops=1),
        job('vord_exchange_twice_is_identity', 'lemma_exchange_twice'),
    ],
}
