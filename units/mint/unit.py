M = 'src/minterms.cc'
def job(name, enforce, replace=(), props=('C03',), **kw):
    d = dict(name=name, entry='h_' + name, enforce=enforce, replace=list(replace), props=list(props))
    d.update(kw)
    return d
ST = ['minterm_coll__unprimed', 'minterm_coll__primed', 'minterm_coll__swap']
def mf(name, **kw):
    d = dict(cls='fbuilder_common', name=name, file=M)
    d.update(kw)
    return d
UNIT = {
    'name': 'mint',
    'consts': [('src/minterms.h', ['DONT_CARE', 'DONT_CHANGE'])],
    'classes': {
        'minterm_coll': {'opaque': True}, 'binary_operation': {'opaque': True},
        'fbuilder_common': {'file': M, 'fields': ['mtc']},
    },
    'foreign': {'unprimed': {'*': 'minterm_coll'}, 'primed': {'*': 'minterm_coll'}, 'swap': {'*': 'minterm_coll'},
                'isForRelations': {'*': 'minterm_coll'}},
    'text_subst': [(r'std::numeric_limits<int>::max\(\)', 'INT_MAX', M)],
    'functions': [
        mf('pairLT'), mf('pairLE'),
        mf('getMinMax', sel=r'int &minV, int &maxV$', cname='fbuilder_common__getMinMax_set', argc_key=5, loops=1, fires={'R9subst': 1}),
        mf('getMinMax', sel=r'int &minU, int &minP', cname='fbuilder_common__getMinMax_rel', argc_key=7, loops=1, fires={'R9subst': 2}),
        mf('moveValuesToFront', where='out', loops=1, fires={'R9subst': 1}),
        mf('movePairsToFront', where='out', loops=1, fires={'R9subst': 2}),
    ],
    'stubs': [
        'minterm_coll::unprimed(i,L) / primed(i,L): read the level-L entry of minterm i (ghost key arrays); minterm_coll::swap(a,b): exchanges the two minterms and nothing else',
        'std::numeric_limits<int>::max() is mapped to INT_MAX (text_subst, must fire)',
    ],
    'assumptions': ['only the partition step the recursive builders rest on; createEdgeSet/createEdgeRel/accumulate, the single-minterm path builders and dd_edge::evaluate are not covered',
                    '"the new minimum is attained in [mid,high)" is not proved (needs an existential witness); proved: it is a lower bound of that range and every member of [low,mid) equals the front value'],
    'unverified_surroundings': {'C03': ['minterms.cc fbuilder::createEdgeSet / createEdgeRel / accumulate (recursion)', 'setPathToBottom / relPathToBottom', 'dd_edge.cc evaluator helpers']},
    'jobs': [
        job('pairLT_is_lexicographic', 'lemma_pairLT'),
        job('getMinMax_set', 'fbuilder_common__getMinMax_set', ST, loops=1),
        job('getMinMax_rel', 'fbuilder_common__getMinMax_rel', ST + ['fbuilder_common__pairLT'], loops=1),
        job('moveValuesToFront', 'fbuilder_common__moveValuesToFront', ST, loops=1),
        job('moveValuesToFront_back_part', 'fbuilder_common__moveValuesToFront', ST, loops=1, solver=['--z3'], defines=['MT_QUANT'], kind='bounded', unwind='capacity 1000 minterms (loop unbounded by quantified invariant)', entry='h_moveValuesToFront', timeout=600),
        job('movePairsToFront', 'fbuilder_common__movePairsToFront', ST + ['fbuilder_common__pairLT'], loops=1),
        job('movePairsToFront_back_part', 'fbuilder_common__movePairsToFront', ST + ['fbuilder_common__pairLT'], loops=1, solver=['--z3'], defines=['MT_QUANT'], kind='bounded', unwind='capacity 1000 minterms (loop unbounded by quantified invariant)', entry='h_movePairsToFront', timeout=600),
    ],
}
