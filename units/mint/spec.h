/* U-mint: partition step of the minterm-collection builders (C03) */
#define MT_MAXN 1000000
size_t ghost_g; size_t g_n; unsigned g_swaps; int g_level;
#ifdef MT_QUANT
/* capacity-bounded model for the two quantified obligations (z3 back end): see unit.py */
#define MT_CAP 1000
int g_unp[MT_CAP], g_pri[MT_CAP];
#else
#define MT_CAP MT_MAXN
int *g_unp, *g_pri;
#endif

int minterm_coll__unprimed(const struct minterm_coll *c, unsigned i, int L)
__CPROVER_requires(i < g_n && L == g_level) __CPROVER_assigns() __CPROVER_ensures(__CPROVER_return_value == g_unp[i]);
int minterm_coll__primed(const struct minterm_coll *c, unsigned i, int L)
__CPROVER_requires(i < g_n && L == g_level) __CPROVER_assigns() __CPROVER_ensures(__CPROVER_return_value == g_pri[i]);
void minterm_coll__swap(struct minterm_coll *c, unsigned a, unsigned b)
__CPROVER_requires(a < g_n && b < g_n)
__CPROVER_assigns(g_swaps, g_unp[a], g_unp[b], g_pri[a], g_pri[b])
__CPROVER_ensures(g_swaps == __CPROVER_old(g_swaps) + 1)
__CPROVER_ensures(g_unp[a] == __CPROVER_old(g_unp[b]) && g_unp[b] == __CPROVER_old(g_unp[a]) && g_pri[a] == __CPROVER_old(g_pri[b]) && g_pri[b] == __CPROVER_old(g_pri[a]))
;

#define LEXLT(a, b, c, d) ((a) < (c) || ((a) == (c) && (b) < (d)))
_Bool fbuilder_common__pairLT(int a, int b, int c, int d)
__CPROVER_assigns()
ENSURES(lexicographic_less, __CPROVER_return_value == LEXLT(a, b, c, d))
;
int lemma_pairLT(int a, int b, int c, int d)
__CPROVER_assigns()
ENSURES(strict_and_total, __CPROVER_return_value == 1)
;

#define MT_REQ(self) \
    __CPROVER_requires(__CPROVER_is_fresh(self, sizeof(*(self))) && __CPROVER_is_fresh((self)->mtc, 1)) \
    __CPROVER_requires(low <= high && high <= g_n && g_n <= MT_CAP && L == g_level && L > 0) \
    __CPROVER_requires(ghost_g < g_n)

void fbuilder_common__getMinMax_set(const struct fbuilder_common *self, int L, unsigned low, unsigned high, int *minV, int *maxV)
MT_REQ(self)
__CPROVER_requires(__CPROVER_is_fresh(minV, sizeof(int)) && __CPROVER_is_fresh(maxV, sizeof(int)))
__CPROVER_assigns(*minV, *maxV)
ENSURES(bounds_every_entry, !(low <= ghost_g && ghost_g < high) || (*minV <= g_unp[ghost_g] && (g_unp[ghost_g] <= *maxV)))
ENSURES(empty_range, low < high || (*minV == INT_MAX && *maxV == DONT_CHANGE))
;
void fbuilder_common__getMinMax_rel(const struct fbuilder_common *self, int L, unsigned low, unsigned high, int *minU, int *minP, int *maxU, int *maxP)
MT_REQ(self)
__CPROVER_requires(__CPROVER_is_fresh(minU, sizeof(int)) && __CPROVER_is_fresh(minP, sizeof(int)) && __CPROVER_is_fresh(maxU, sizeof(int)) && __CPROVER_is_fresh(maxP, sizeof(int)))
__CPROVER_requires(g_unp[ghost_g] >= -2 && g_pri[ghost_g] >= -2)      /* entries are values >= 0, DONT_CARE or DONT_CHANGE */
__CPROVER_assigns(*minU, *minP, *maxU, *maxP)
ENSURES(min_bounds_every_pair, !(low <= ghost_g && ghost_g < high) || !LEXLT(g_unp[ghost_g], g_pri[ghost_g], *minU, *minP))
ENSURES(max_bounds_every_pair, !(low <= ghost_g && ghost_g < high) || !LEXLT(*maxU, *maxP, g_unp[ghost_g], g_pri[ghost_g]))
;

void fbuilder_common__moveValuesToFront(struct fbuilder_common *self, int L, int *minV, unsigned low, unsigned high, unsigned *mid)
MT_REQ(self)
__CPROVER_requires(__CPROVER_is_fresh(minV, sizeof(int)) && __CPROVER_is_fresh(mid, sizeof(unsigned)))
__CPROVER_assigns(*minV, *mid, g_swaps, __CPROVER_object_whole(g_unp), __CPROVER_object_whole(g_pri))
ENSURES(split_point_in_range, low <= *mid && *mid <= high)
ENSURES(front_part_has_the_front_value, !(low <= ghost_g && ghost_g < *mid) || g_unp[ghost_g] == __CPROVER_old(*minV))
#ifdef MT_QUANT
ENSURES(back_part_has_other_values, __CPROVER_forall { unsigned q; (*mid <= q && q < high) ==> g_unp[q] != __CPROVER_old(*minV) })
#endif
ENSURES(outside_untouched, (low <= ghost_g && ghost_g < high) || (g_unp[ghost_g] == __CPROVER_old(g_unp[ghost_g]) && g_pri[ghost_g] == __CPROVER_old(g_pri[ghost_g])))
ENSURES(empty_back_part_gives_max, *mid < high || *minV == INT_MAX)
;
void fbuilder_common__movePairsToFront(struct fbuilder_common *self, int L, int *mU, int *mP, unsigned low, unsigned high, unsigned *mid)
MT_REQ(self)
__CPROVER_requires(__CPROVER_is_fresh(mU, sizeof(int)) && __CPROVER_is_fresh(mP, sizeof(int)) && __CPROVER_is_fresh(mid, sizeof(unsigned)))
__CPROVER_assigns(*mU, *mP, *mid, g_swaps, __CPROVER_object_whole(g_unp), __CPROVER_object_whole(g_pri))
ENSURES(split_point_in_range, low <= *mid && *mid <= high)
ENSURES(front_part_has_the_front_pair, !(low <= ghost_g && ghost_g < *mid) || (g_unp[ghost_g] == __CPROVER_old(*mU) && g_pri[ghost_g] == __CPROVER_old(*mP)))
#ifdef MT_QUANT
ENSURES(back_part_has_other_pairs, __CPROVER_forall { unsigned q; (*mid <= q && q < high) ==> !(g_unp[q] == __CPROVER_old(*mU) && g_pri[q] == __CPROVER_old(*mP)) })
ENSURES(new_minimum_bounds_back_part, __CPROVER_forall { unsigned r; (*mid <= r && r < high) ==> !LEXLT(g_unp[r], g_pri[r], *mU, *mP) })
#endif
ENSURES(outside_untouched, (low <= ghost_g && ghost_g < high) || (g_unp[ghost_g] == __CPROVER_old(g_unp[ghost_g]) && g_pri[ghost_g] == __CPROVER_old(g_pri[ghost_g])))
;
