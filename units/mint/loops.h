#ifdef MT_QUANT
#define MT_BACK_INV_V __CPROVER_loop_invariant(__CPROVER_forall { unsigned q; (*mid <= q && q < i) ==> (g_unp[q] != frontV) })
#define MT_BACK_INV_P __CPROVER_loop_invariant(__CPROVER_forall { unsigned q; (*mid <= q && q < i) ==> (!(g_unp[q] == frontU && g_pri[q] == frontP) && !LEXLT(g_unp[q], g_pri[q], *mU, *mP)) })
#else
#define MT_BACK_INV_V
#define MT_BACK_INV_P
#endif
#define LOOP_fbuilder_common__getMinMax_set_1 \
    __CPROVER_assigns(i, *minV, *maxV) \
    __CPROVER_loop_invariant(low <= i && i <= hi) \
    __CPROVER_loop_invariant(!(low <= ghost_g && ghost_g < i) || (*minV <= g_unp[ghost_g] && g_unp[ghost_g] <= *maxV)) \
    __CPROVER_loop_invariant(i > low || (*minV == INT_MAX && *maxV == DONT_CHANGE)) \
    __CPROVER_decreases(hi - i)
#define LOOP_fbuilder_common__getMinMax_rel_1 \
    __CPROVER_assigns(i, *minU, *minP, *maxU, *maxP) \
    __CPROVER_loop_invariant(low <= i && i <= hi) \
    __CPROVER_loop_invariant(!(low <= ghost_g && ghost_g < i) || !LEXLT(g_unp[ghost_g], g_pri[ghost_g], *minU, *minP)) \
    __CPROVER_loop_invariant(!(low <= ghost_g && ghost_g < i) || !LEXLT(*maxU, *maxP, g_unp[ghost_g], g_pri[ghost_g])) \
    __CPROVER_decreases(hi - i)
#define LOOP_fbuilder_common__moveValuesToFront_1 \
    __CPROVER_assigns(i, *minV, *mid, g_swaps, __CPROVER_object_whole(g_unp), __CPROVER_object_whole(g_pri)) \
    __CPROVER_loop_invariant(low <= *mid && *mid <= i && i <= high) \
    __CPROVER_loop_invariant(!(low <= ghost_g && ghost_g < *mid) || g_unp[ghost_g] == frontV) \
    MT_BACK_INV_V \
    __CPROVER_loop_invariant((low <= ghost_g && ghost_g < high) || (g_unp[ghost_g] == __CPROVER_loop_entry(g_unp[ghost_g]) && g_pri[ghost_g] == __CPROVER_loop_entry(g_pri[ghost_g]))) \
    __CPROVER_loop_invariant(*mid < i || *minV == INT_MAX) \
    __CPROVER_decreases(high - i)
#define LOOP_fbuilder_common__movePairsToFront_1 \
    __CPROVER_assigns(i, *mU, *mP, *mid, g_swaps, __CPROVER_object_whole(g_unp), __CPROVER_object_whole(g_pri)) \
    __CPROVER_loop_invariant(low <= *mid && *mid <= i && i <= high) \
    __CPROVER_loop_invariant(!(low <= ghost_g && ghost_g < *mid) || (g_unp[ghost_g] == frontU && g_pri[ghost_g] == frontP)) \
    MT_BACK_INV_P \
    __CPROVER_loop_invariant((low <= ghost_g && ghost_g < high) || (g_unp[ghost_g] == __CPROVER_loop_entry(g_unp[ghost_g]) && g_pri[ghost_g] == __CPROVER_loop_entry(g_pri[ghost_g]))) \
    __CPROVER_decreases(high - i)
