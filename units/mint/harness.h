int lemma_pairLT(int a, int b, int c, int d)
{
    _Bool lt = fbuilder_common__pairLT(a, b, c, d), gt = fbuilder_common__pairLT(c, d, a, b), le = fbuilder_common__pairLE(a, b, c, d);
    /* trichotomy, irreflexivity, and pairLE is "not greater" */
    return !(lt && gt) && (lt || gt || (a == c && b == d)) && (le == !gt);
}
#ifdef MT_QUANT
#define H_MT_SETUP() ghost_g = nondet_size_t(); g_n = nondet_size_t(); __CPROVER_assume(1 <= g_n && g_n <= MT_CAP); \
    __CPROVER_havoc_object(g_unp); __CPROVER_havoc_object(g_pri); g_level = nondet_int(); g_swaps = nondet_unsigned();
#else
#define H_MT_SETUP() ghost_g = nondet_size_t(); g_n = nondet_size_t(); __CPROVER_assume(1 <= g_n && g_n <= MT_MAXN); \
    g_unp = malloc(sizeof(int) * g_n); g_pri = malloc(sizeof(int) * g_n); __CPROVER_assume(g_unp && g_pri); g_level = nondet_int(); g_swaps = nondet_unsigned();
#endif
void h_pairLT_is_lexicographic(void) { int a = nondet_int(), b = nondet_int(), c = nondet_int(), d = nondet_int(); lemma_pairLT(a, b, c, d); CANARY(); }
void h_getMinMax_set(void) { struct fbuilder_common *f; int *a, *b; unsigned w_low = nondet_unsigned(), w_high = nondet_unsigned(); int w_L = nondet_int(); H_MT_SETUP(); fbuilder_common__getMinMax_set(f, w_L, w_low, w_high, a, b); CANARY(); }
void h_getMinMax_rel(void) { struct fbuilder_common *f; int *a, *b, *c, *d; unsigned w_low = nondet_unsigned(), w_high = nondet_unsigned(); int w_L = nondet_int(); H_MT_SETUP(); fbuilder_common__getMinMax_rel(f, w_L, w_low, w_high, a, b, c, d); CANARY(); }
void h_moveValuesToFront(void) { struct fbuilder_common *f; int *mv; unsigned *mid; unsigned w_low = nondet_unsigned(), w_high = nondet_unsigned(); int w_L = nondet_int(); H_MT_SETUP(); fbuilder_common__moveValuesToFront(f, w_L, mv, w_low, w_high, mid); CANARY(); }
void h_movePairsToFront(void) { struct fbuilder_common *f; int *mu, *mp; unsigned *mid; unsigned w_low = nondet_unsigned(), w_high = nondet_unsigned(); int w_L = nondet_int(); H_MT_SETUP(); fbuilder_common__movePairsToFront(f, w_L, mu, mp, w_low, w_high, mid); CANARY(); }
