/* U-edge: user-edge link discipline, dead/stale predicates, edge equality (C06, C07, C01) */
/* ghost event log of the node_headers stubs */
unsigned g_links, g_unlinks, g_caches, g_uncaches; node_handle g_link_arg, g_unlink_arg, g_cache_arg, g_uncache_arg;
_Bool g_deleted_p; unsigned long g_incount_p; node_handle g_query_p;
struct forest *g_fp; unsigned g_registered;

node_handle node_headers__linkNode(struct node_headers *h, node_handle p)
__CPROVER_requires(verif_exc == 0) __CPROVER_assigns(verif_exc, g_links, g_link_arg)
__CPROVER_ensures(g_links == __CPROVER_old(g_links) + 1 && g_link_arg == p && (verif_exc != 0 || __CPROVER_return_value == p));   /* hdr: returns_argument */
void node_headers__unlinkNode(struct node_headers *h, node_handle p)
__CPROVER_requires(verif_exc == 0) __CPROVER_assigns(verif_exc, g_unlinks, g_unlink_arg)
__CPROVER_ensures(g_unlinks == __CPROVER_old(g_unlinks) + 1 && g_unlink_arg == p);
void node_headers__cacheNode(struct node_headers *h, node_handle p)
__CPROVER_requires(verif_exc == 0) __CPROVER_assigns(verif_exc, g_caches, g_cache_arg)
__CPROVER_ensures(g_caches == __CPROVER_old(g_caches) + 1 && g_cache_arg == p);
void node_headers__uncacheNode(struct node_headers *h, node_handle p)
__CPROVER_requires(verif_exc == 0) __CPROVER_assigns(verif_exc, g_uncaches, g_uncache_arg)
__CPROVER_ensures(g_uncaches == __CPROVER_old(g_uncaches) + 1 && g_uncache_arg == p);
_Bool node_headers__isDeleted(const struct node_headers *h, node_handle p)
REQUIRES(only_real_nodes_are_queried, p > 0)                      /* MEDDLY_DCASSERT(p>0) in node_headers::isDeleted */
__CPROVER_assigns() __CPROVER_ensures(p != g_query_p || __CPROVER_return_value == g_deleted_p);
unsigned long node_headers__getIncomingCount(const struct node_headers *h, node_handle p)
REQUIRES(only_real_nodes_are_queried, p > 0)
__CPROVER_assigns() __CPROVER_ensures(p != g_query_p || __CPROVER_return_value == g_incount_p);

#define F_REQ(f) __CPROVER_requires(__CPROVER_is_fresh(f, sizeof(*(f))) && verif_exc == 0)
#define NO_HDR_CALLS (g_links == __CPROVER_old(g_links) && g_unlinks == __CPROVER_old(g_unlinks) && g_caches == __CPROVER_old(g_caches) && g_uncaches == __CPROVER_old(g_uncaches))

node_handle forest__linkNode(struct forest *self, node_handle p)
F_REQ(self)
__CPROVER_assigns(verif_exc, g_links, g_link_arg)
ENSURES(returns_argument, verif_exc != 0 || __CPROVER_return_value == p)
ENSURES(one_header_link_when_counting, !self->deflt.useReferenceCounts || (g_links == __CPROVER_old(g_links) + 1 && g_link_arg == p))
ENSURES(no_call_when_not_counting, self->deflt.useReferenceCounts || g_links == __CPROVER_old(g_links))
;
void forest__unlinkNode(struct forest *self, node_handle p)
F_REQ(self)
__CPROVER_assigns(verif_exc, g_unlinks, g_unlink_arg)
ENSURES(one_header_unlink_when_counting, !self->deflt.useReferenceCounts || (g_unlinks == __CPROVER_old(g_unlinks) + 1 && g_unlink_arg == p))
ENSURES(no_call_when_not_counting, self->deflt.useReferenceCounts || g_unlinks == __CPROVER_old(g_unlinks))
;
void forest__cacheNode(struct forest *self, node_handle p)
F_REQ(self)
__CPROVER_assigns(verif_exc, g_caches, g_cache_arg)
ENSURES(one_header_cache_when_counting, !self->deflt.useReferenceCounts || (g_caches == __CPROVER_old(g_caches) + 1 && g_cache_arg == p))
ENSURES(no_call_when_not_counting, self->deflt.useReferenceCounts || g_caches == __CPROVER_old(g_caches))
;
void forest__uncacheNode(struct forest *self, node_handle p)
F_REQ(self)
__CPROVER_assigns(verif_exc, g_uncaches, g_uncache_arg)
ENSURES(one_header_uncache_when_counting, !self->deflt.useReferenceCounts || (g_uncaches == __CPROVER_old(g_uncaches) + 1 && g_uncache_arg == p))
ENSURES(no_call_when_not_counting, self->deflt.useReferenceCounts || g_uncaches == __CPROVER_old(g_uncaches))
;
_Bool forest__isDeadEntry(const struct forest *self, node_handle p)
F_REQ(self)
__CPROVER_requires(p == g_query_p)
__CPROVER_assigns()
ENSURES(dead_iff_forest_dying_or_node_deleted, __CPROVER_return_value == (self->is_marked_for_deletion || (p >= 1 && g_deleted_p)))
;
_Bool forest__isStaleEntry(const struct forest *self, node_handle p)
F_REQ(self)
__CPROVER_requires(p == g_query_p)
__CPROVER_assigns()
ENSURES(stale_iff_dying_deleted_or_unreferenced, __CPROVER_return_value == (self->is_marked_for_deletion || (p >= 1 && (g_deleted_p || (self->deflt.useReferenceCounts && g_incount_p == 0)))))
;

/* ------------------------------------------------------------------ dd_edge */
struct forest *forest__getForestWithID(unsigned id) __CPROVER_requires(1) __CPROVER_assigns() __CPROVER_ensures(__CPROVER_return_value == g_fp);
void forest__registerEdge(struct forest *f, struct dd_edge *e) __CPROVER_requires(f != NULL && e != NULL) __CPROVER_assigns(g_registered) __CPROVER_ensures(g_registered == __CPROVER_old(g_registered) + 1);

#define E_REQ(e) __CPROVER_requires(__CPROVER_is_fresh(e, sizeof(*(e))) && verif_exc == 0) \
    __CPROVER_requires(g_fp == NULL || __CPROVER_is_fresh(g_fp, sizeof(struct forest)))
#define CNT(f) (g_fp != NULL && g_fp->deflt.useReferenceCounts)

void dd_edge__set(struct dd_edge *self, node_handle n)
E_REQ(self)
__CPROVER_assigns(verif_exc, g_unlinks, g_unlink_arg, self->node)
ENSURES(old_target_released_once, !CNT() || (g_unlinks == __CPROVER_old(g_unlinks) + 1 && g_unlink_arg == __CPROVER_old(self->node)))
ENSURES(ownership_transfer_no_link, g_links == __CPROVER_old(g_links))
ENSURES(now_points_to_n, verif_exc != 0 || g_fp == NULL || self->node == n)
ENSURES(detached_edge_is_inert, g_fp != NULL || (self->node == 0 && g_unlinks == __CPROVER_old(g_unlinks)))
;
void dd_edge__set_and_link(struct dd_edge *self, node_handle n)
E_REQ(self)
__CPROVER_assigns(verif_exc, g_unlinks, g_unlink_arg, g_links, g_link_arg, self->node)
ENSURES(same_target_is_a_noop, __CPROVER_old(self->node) != n || (g_links == __CPROVER_old(g_links) && g_unlinks == __CPROVER_old(g_unlinks) && self->node == n))
ENSURES(old_released_new_acquired_once, __CPROVER_old(self->node) == n || !CNT() || verif_exc != 0 || (g_unlinks == __CPROVER_old(g_unlinks) + 1 && g_unlink_arg == __CPROVER_old(self->node) && g_links == __CPROVER_old(g_links) + 1 && g_link_arg == n))
ENSURES(now_points_to_n, verif_exc != 0 || g_fp == NULL || self->node == n)
ENSURES(detached_edge_is_inert, g_fp != NULL || __CPROVER_old(self->node) == n || (self->node == 0 && g_unlinks == __CPROVER_old(g_unlinks) && g_links == __CPROVER_old(g_links)))
;
void dd_edge__init(struct dd_edge *self, const struct dd_edge *e)
E_REQ(self)
__CPROVER_requires(__CPROVER_is_fresh(e, sizeof(*e)))
__CPROVER_assigns(verif_exc, g_links, g_link_arg, g_registered, self->node, self->edgeval, self->parentFID)
ENSURES(copy_acquires_one_reference, !CNT() || (g_links == __CPROVER_old(g_links) + 1 && g_link_arg == e->node))
ENSURES(copy_is_registered, g_fp == NULL || g_registered == __CPROVER_old(g_registered) + 1)
ENSURES(copy_points_to_same_node, g_fp == NULL || verif_exc != 0 || self->node == e->node)
ENSURES(copy_of_detached_is_inert, g_fp != NULL || (self->node == 0 && self->parentFID == 0 && g_links == __CPROVER_old(g_links)))
;
_Bool dd_edge__equals(const struct dd_edge *self, struct dd_edge e)
__CPROVER_requires(__CPROVER_is_fresh(self, sizeof(*self)) && verif_exc == 0)
__CPROVER_requires(self->edgeval.mytype == edge_type__VOID || self->edgeval.mytype == edge_type__INT || self->edgeval.mytype == edge_type__LONG)
__CPROVER_requires(e.edgeval.mytype == self->edgeval.mytype)          /* edges of one forest carry the same edge type */
__CPROVER_assigns(verif_exc)
ENSURES(no_error, verif_exc == 0)
ENSURES(equal_iff_same_forest_node_and_value, __CPROVER_return_value == (self->parentFID == e.parentFID && self->node == e.node &&
    (self->edgeval.mytype == edge_type__VOID || (self->edgeval.mytype == edge_type__INT ? self->edgeval.ev_int == e.edgeval.ev_int : self->edgeval.ev_long == e.edgeval.ev_long))))
;
