#define H_GHOST() g_links = nondet_unsigned(); g_unlinks = nondet_unsigned(); g_caches = nondet_unsigned(); g_uncaches = nondet_unsigned(); \
    g_deleted_p = nondet_bool(); g_incount_p = nondet_ulong(); g_query_p = nondet_int(); g_registered = nondet_unsigned();
#define H_F(name, call) void h_##name(void) { struct forest *f; node_handle w_p = nondet_int(); H_GHOST(); call; CANARY(); }
H_F(forest_linkNode, forest__linkNode(f, w_p))
H_F(forest_unlinkNode, forest__unlinkNode(f, w_p))
H_F(forest_cacheNode, forest__cacheNode(f, w_p))
H_F(forest_uncacheNode, forest__uncacheNode(f, w_p))
H_F(isDeadEntry, forest__isDeadEntry(f, w_p))
H_F(isStaleEntry, forest__isStaleEntry(f, w_p))
#define H_E(name, call) void h_##name(void) { struct dd_edge *e; struct dd_edge *o; struct forest *fp; node_handle w_n = nondet_int(); H_GHOST(); g_fp = nondet_bool() ? fp : NULL; call; CANARY(); }
H_E(dd_edge_set, dd_edge__set(e, w_n))
H_E(dd_edge_set_and_link, dd_edge__set_and_link(e, w_n))
H_E(dd_edge_init, dd_edge__init(e, o))
void h_dd_edge_equals(void) { struct dd_edge *e; struct dd_edge o; dd_edge__equals(e, o); CANARY(); }
