F = 'src/forest.h'
D = 'src/dd_edge.cc'
DH = 'src/dd_edge.h'
E = 'src/edge_value.h'
def job(name, enforce, replace=(), props=('C06', 'C07'), **kw):
    d = dict(name=name, entry='h_' + name, enforce=enforce, replace=list(replace), props=list(props))
    d.update(kw)
    return d
HDR = ['node_headers__linkNode', 'node_headers__unlinkNode', 'node_headers__cacheNode', 'node_headers__uncacheNode',
       'node_headers__isDeleted', 'node_headers__getIncomingCount']
FW = ['forest__linkNode', 'forest__unlinkNode', 'forest__getForestWithID', 'forest__registerEdge']
def ef(name, **kw):
    d = dict(cls='edge_value', name=name, file=E)
    d.update(kw)
    return d
UNIT = {
    'name': 'edge',
    'typedefs': [('src/defines.h', 'node_handle')],
    'enums': [('src/edge_value.h', 'edge_type')],
    'classes': {
        'node_headers': {'file': 'src/node_headers.h', 'fields': ['a_last']},
        'policies': {'file': 'src/policies.h', 'fields': ['useReferenceCounts']},
        'edge_value': {'file': E},
        'forest': {'file': F, 'fields': ['nodeHeaders', 'deflt', 'is_marked_for_deletion'],
                   'override': {'nodeHeaders': 'struct node_headers nodeHeaders', 'deflt': 'struct policies deflt'}},
        'dd_edge': {'file': DH, 'fields': ['parentFID', 'node', 'edgeval', 'prev', 'next']},
    },
    'foreign': {
        'linkNode': {'nodeHeaders': 'node_headers', 'efp': 'forest'},
        'unlinkNode': {'nodeHeaders': 'node_headers', 'efp': 'forest'},
        'cacheNode': {'nodeHeaders': 'node_headers'}, 'uncacheNode': {'nodeHeaders': 'node_headers'},
        'isDeleted': {'nodeHeaders': 'node_headers'}, 'getIncomingCount': {'nodeHeaders': 'node_headers'},
        'registerEdge': {'efp': 'forest'},
        'equals': {'*': {'args:^ev_int$': 'edge_value__equals_int', 'args:^ev_long$': 'edge_value__equals_long',
                         'args:^ev_float$': 'edge_value__equals_float', 'args:^ev_double$': 'edge_value__equals_double'}},
        'isVoid': {'*': 'edge_value'},
        'set': {'edgeval': {0: 'edge_value__set_void'}},
    },
    'text_subst': [
        (r'label = e\.label;', ';', D),
        (r'\(edgeval == e\.edgeval\)', 'edge_value__op_eq(&(edgeval), e.edgeval)', DH),
        (r'efp->registerEdge\(\*this\)', 'efp->registerEdge(this)', D),
    ],
    'extra_free': {},
    'functions': [
        dict(cls='forest', name='isTerminalNode', file=F),
        dict(cls='forest', name='isDeletedNode', file=F),
        dict(cls='forest', name='isMarkedForDeletion', file=F),
        dict(cls='forest', name='getNodeInCount', file=F),
        dict(cls='forest', name='isDeadEntry', file=F),
        dict(cls='forest', name='isStaleEntry', file=F),
        dict(cls='forest', name='linkNode', file=F, sel=r'^node_handle p$'),
        dict(cls='forest', name='unlinkNode', file=F, sel=r'^node_handle p$'),
        dict(cls='forest', name='cacheNode', file=F), dict(cls='forest', name='uncacheNode', file=F),
        ef('isVoid'),
        ef('set', sel=r'^$', cname='edge_value__set_void', argc_key=0),
        ef('equals', sel=r'^int v$', cname='edge_value__equals_int', argc_key='args:^int$'),
        ef('equals', sel=r'^long v$', cname='edge_value__equals_long', argc_key='args:^long$'),
        ef('equals', sel=r'^float v$', cname='edge_value__equals_float', argc_key='args:^float$'),
        ef('equals', sel=r'^double v$', cname='edge_value__equals_double', argc_key='args:^double$'),
        ef('operator==', cname='edge_value__op_eq', fires={'R1': 1}),
        dict(cls='dd_edge', name='equals', file=DH, fires={'R9subst': 1}),
        dict(cls='dd_edge', name='set', file=D, sel=r'^node_handle n$'),
        dict(cls='dd_edge', name='set_and_link', file=D),
        dict(cls='dd_edge', name='init', file=D, fires={'R9subst': 2}),
    ],
    'may_throw_value': ['node_headers__linkNode', 'forest__linkNode'],
    'may_throw_void': ['node_headers__unlinkNode', 'node_headers__cacheNode', 'node_headers__uncacheNode', 'forest__unlinkNode'],
    'stubs': [
        'node_headers::linkNode/unlinkNode/cacheNode/uncacheNode/isDeleted/getIncomingCount: ghost-recording stubs here; their real bodies are under contract in U-hdr',
        'forest::getForestWithID(id): returns the registered forest or null (ghost); forest::registerEdge: list insertion, not modelled',
        'dd_edge::label (std::string, display only) is not modelled: the statement "label = e.label;" is dropped by text_subst',
    ],
    'assumptions': ['float/double edge values compare with the relative tolerance of edge_value::equals: EV* edge equality is not an equivalence relation, no canonicity claim is made for EV*'],
    'unverified_surroundings': {
        'C06': ['dd_edge constructors/destructor/attach/operator= (call init/set), forest root-edge registry'],
        'C07': ['storage/ct_styles.cc compute-table templates (callers of isDeadEntry/isStaleEntry/cacheNode/uncacheNode)'],
        'C01': ['all operations that produce edges'],
    },
    'jobs': [
        job('forest_linkNode', 'forest__linkNode', HDR),
        job('forest_unlinkNode', 'forest__unlinkNode', HDR),
        job('forest_cacheNode', 'forest__cacheNode', HDR, props=['C07']),
        job('forest_uncacheNode', 'forest__uncacheNode', HDR, props=['C07']),
        job('isDeadEntry', 'forest__isDeadEntry', HDR, props=['C07']),
        job('isStaleEntry', 'forest__isStaleEntry', HDR, props=['C07']),
        job('dd_edge_set', 'dd_edge__set', FW, props=['C06']),
        job('dd_edge_set_and_link', 'dd_edge__set_and_link', FW, props=['C06']),
        job('dd_edge_init', 'dd_edge__init', FW, props=['C06']),
        job('dd_edge_equals', 'dd_edge__equals', [], props=['C01']),
    ],
}
