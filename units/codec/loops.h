#define LOOP_simple_separated__findSparseIndex3_1 \
    __CPROVER_assigns(low, high) \
    __CPROVER_loop_invariant(0 <= low && low <= high && high <= N) \
    __CPROVER_decreases(high - low)
#define LOOP_simple_separated__unlinkDownAndRecycle_1 \
    __CPROVER_assigns(i, verif_exc, g_unlinks, g_last_unlinked) \
    __CPROVER_loop_invariant(i <= size && verif_exc == 0 && g_unlinks == __CPROVER_loop_entry(g_unlinks) + i) \
    __CPROVER_decreases(size - i)
/* makeFullNode loops: 1,2,3 = EV layouts (not covered), 4 = fill with transparent (sparse source), 5 = scatter sparse source, 6 = copy full source */
#define LOOP_simple_separated__makeFullNode_1 __CPROVER_assigns(i, __CPROVER_object_whole(g_chunk)) __CPROVER_loop_invariant(1)
#define LOOP_simple_separated__makeFullNode_2 __CPROVER_assigns(z, __CPROVER_object_whole(g_chunk)) __CPROVER_loop_invariant(1)
#define LOOP_simple_separated__makeFullNode_3 __CPROVER_assigns(i, __CPROVER_object_whole(g_chunk)) __CPROVER_loop_invariant(1)
#define LOOP_simple_separated__makeFullNode_4 \
    __CPROVER_assigns(i, __CPROVER_object_whole(g_chunk)) \
    __CPROVER_loop_invariant(0 <= i && i <= size && chunk[size_slot] == (node_handle)(((unsigned)size) << 1)) \
    __CPROVER_decreases(size - i)
#define LOOP_simple_separated__makeFullNode_5 \
    __CPROVER_assigns(z, __CPROVER_object_whole(g_chunk)) \
    __CPROVER_loop_invariant(0 <= z && (unsigned)z <= nb->size && chunk[size_slot] == (node_handle)(((unsigned)size) << 1)) \
    __CPROVER_decreases(nb->size - z)
#define LOOP_simple_separated__makeFullNode_6 \
    __CPROVER_assigns(i, __CPROVER_object_whole(g_chunk)) \
    __CPROVER_loop_invariant(0 <= i && i <= size && chunk[size_slot] == (node_handle)(((unsigned)size) << 1)) \
    __CPROVER_loop_invariant(ghost_g >= (size_t)i || down[ghost_g] == nb->_down[ghost_g]) \
    __CPROVER_decreases(size - i)
/* makeSparseNode loops: 1,2 = EV layouts (not covered), 3 = copy sparse source, 4 = compress full source */
#define LOOP_simple_separated__makeSparseNode_1 __CPROVER_assigns(z, __CPROVER_object_whole(g_chunk)) __CPROVER_loop_invariant(1)
#define LOOP_simple_separated__makeSparseNode_2 __CPROVER_assigns(i, z, __CPROVER_object_whole(g_chunk)) __CPROVER_loop_invariant(1)
#define LOOP_simple_separated__makeSparseNode_3 \
    __CPROVER_assigns(z, __CPROVER_object_whole(g_chunk)) \
    __CPROVER_loop_invariant(0 <= z && z <= size && chunk[size_slot] == (node_handle)((((unsigned)size) << 1) | 1u)) \
    __CPROVER_loop_invariant(ghost_g >= (size_t)z || (down[ghost_g] == nb->_down[ghost_g] && index[ghost_g] == (node_handle)nb->_index[ghost_g])) \
    __CPROVER_decreases(size - z)
#define LOOP_simple_separated__makeSparseNode_4 \
    __CPROVER_assigns(i, z, __CPROVER_object_whole(g_chunk)) \
    __CPROVER_loop_invariant(0 <= i && (unsigned)i <= nb->size && 0 <= z && z <= i && chunk[size_slot] == (node_handle)((((unsigned)size) << 1) | 1u)) \
    __CPROVER_decreases(nb->size - i)
#define LOOP_simple_separated__isSingletonNode_1 \
    __CPROVER_assigns(i) \
    __CPROVER_loop_invariant(i <= size - 1) \
    __CPROVER_loop_invariant(!(i <= ghost_g && ghost_g < size - 1) || dnptr[ghost_g] == tv) \
    __CPROVER_decreases(i)
