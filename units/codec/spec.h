/* U-codec: packed node storage (C02, C12; padding/tail bookkeeping also C18) */
#define CD_MAXSZ 100000
size_t ghost_g;
struct forest *g_parent;
node_handle *g_chunk; size_t g_cap; node_address g_addr; size_t g_given;
unsigned g_requests, g_recycles_mm, g_unlinks; node_address g_recycle_addr; size_t g_recycle_slots, g_request_slots;
node_handle g_last_unlinked;

#define SS_REQ(s) \
    __CPROVER_requires(__CPROVER_is_fresh(s, sizeof(*(s))) && __CPROVER_is_fresh((s)->MM, 1) && __CPROVER_is_fresh((s)->parent, 1)) \
    __CPROVER_requires((s)->unhashed_start == header_slots && (s)->unhashed_slots == 0 && (s)->hashed_start == header_slots && (s)->hashed_slots == 0 && (s)->down_start == header_slots) \
    __CPROVER_requires((s)->slots_per_edge == 0)

struct forest *simple_separated__getParent(const struct simple_separated *s) __CPROVER_requires(s != NULL) __CPROVER_assigns() __CPROVER_ensures(__CPROVER_return_value == s->parent);
node_handle forest__getTransparentNode(const struct forest *f) __CPROVER_requires(f != NULL) __CPROVER_assigns() __CPROVER_ensures(__CPROVER_return_value == 0);
void forest__unlinkNode(struct forest *f, node_handle p) __CPROVER_requires(f != NULL && verif_exc == 0) __CPROVER_assigns(verif_exc, g_unlinks, g_last_unlinked)
__CPROVER_ensures(g_unlinks == __CPROVER_old(g_unlinks) + 1 && g_last_unlinked == p && verif_exc == 0);
int verif_bytesForSlots(int s) __CPROVER_requires(1) __CPROVER_assigns() __CPROVER_ensures(__CPROVER_return_value == s * (int)sizeof(node_handle));

int simple_separated__slotsForNode(const struct simple_separated *self, int sz, _Bool sparse)
__CPROVER_requires(__CPROVER_is_fresh(self, sizeof(*self)))
__CPROVER_requires(0 <= sz && sz <= CD_MAXSZ && 0 <= self->slots_per_edge && self->slots_per_edge <= 2 && 0 <= self->unhashed_slots && self->unhashed_slots <= 8 && 0 <= self->hashed_slots && self->hashed_slots <= 8)
__CPROVER_assigns()
ENSURES(header_tail_and_per_entry_slots, __CPROVER_return_value == 3 + self->unhashed_slots + self->hashed_slots + (sparse ? 2 + self->slots_per_edge : 1 + self->slots_per_edge) * sz)
;

int lemma_raw_size(int size, _Bool sparse)
__CPROVER_requires(0 <= size)
__CPROVER_assigns()
ENSURES(size_and_form_survive_the_header_word, __CPROVER_return_value == 1)
;

/* binary search in a strictly increasing index array */
int simple_separated__findSparseIndex3(int i, const node_handle *index, int N)
__CPROVER_requires(0 <= N && N <= CD_MAXSZ)
WITNESS(simple_separated__findSparseIndex3, __CPROVER_is_fresh(index, (N > 0 ? (size_t)N : 1) * sizeof(node_handle)))   /* allocates the array in the job that proves this function */
__CPROVER_requires(__CPROVER_r_ok(index, (size_t)N * sizeof(node_handle)))
__CPROVER_assigns()
ENSURES(result_in_range, -1 <= __CPROVER_return_value && __CPROVER_return_value < N)
ENSURES(found_position_holds_the_index, __CPROVER_return_value < 0 || index[__CPROVER_return_value] == i)
;
const struct edge_value *forest__getTransparentEdge(const struct forest *f) __CPROVER_requires(0) __CPROVER_assigns() __CPROVER_ensures(1);   /* EV layouts not covered */
_Bool forest__isTransparentEdge(const struct forest *f, const struct edge_value *ev, node_handle p) __CPROVER_requires(0) __CPROVER_assigns() __CPROVER_ensures(1);
edge_type forest__getEdgeType(const struct forest *f) __CPROVER_requires(0) __CPROVER_assigns() __CPROVER_ensures(1);
void edge_value__get_typed(const struct edge_value *e, edge_type t, void *p) __CPROVER_requires(0) __CPROVER_assigns() __CPROVER_ensures(1);
void unpacked_node__getUHdata(const struct unpacked_node *u, void *p) __CPROVER_requires(0) __CPROVER_assigns() __CPROVER_ensures(1);
void unpacked_node__getHHdata(const struct unpacked_node *u, void *p) __CPROVER_requires(0) __CPROVER_assigns() __CPROVER_ensures(1);

void verif_chunk_lookup(node_address a)
REQUIRES(address_of_a_live_chunk, a == g_addr && a != 0)
__CPROVER_assigns() __CPROVER_ensures(1);
#define VERIF_CHUNK_AT(a) (verif_chunk_lookup(a), g_chunk)

/* ---- memory manager stubs (contracts proved per manager in U-mm) ---------------------------- */
node_address memory_manager__requestChunk(struct memory_manager *m, size_t *numSlots)
__CPROVER_requires(m != NULL && __CPROVER_rw_ok(numSlots, sizeof(size_t)) && *numSlots >= 1)
__CPROVER_assigns(*numSlots, g_requests, g_request_slots)
__CPROVER_ensures(g_requests == __CPROVER_old(g_requests) + 1 && g_request_slots == __CPROVER_old(*numSlots))
__CPROVER_ensures(__CPROVER_return_value == 0 || (__CPROVER_return_value == g_addr && *numSlots == g_given && g_given >= __CPROVER_old(*numSlots)))
;
void *memory_manager__getChunkAddress(const struct memory_manager *m, node_address a)
__CPROVER_requires(m != NULL)
REQUIRES(address_of_a_live_chunk, a == g_addr && a != 0)
__CPROVER_assigns() __CPROVER_ensures(__CPROVER_return_value == (void *)g_chunk);
void memory_manager__recycleChunk(struct memory_manager *m, node_address a, size_t n)
__CPROVER_requires(m != NULL)
__CPROVER_assigns(g_recycles_mm, g_recycle_addr, g_recycle_slots)
__CPROVER_ensures(g_recycles_mm == __CPROVER_old(g_recycles_mm) + 1 && g_recycle_addr == a && g_recycle_slots == n);

/* the chunk of a stored MT node: header, down pointers, (indexes), optional padding marker, tail */
#define RAW(c)        ((unsigned)(c)[size_slot])
#define NSZ(c)        (RAW(c) >> 1)
#define NSPARSE(c)    ((RAW(c) & 1u) != 0)
#define NSLOTS(c)     (3 + (NSPARSE(c) ? 2 : 1) * (size_t)NSZ(c))          /* slotsForNode for the MT layout */
#define PADDED(c)     ((c)[NSLOTS(c) - 1] < 0)
#define TOTAL(c)      (NSLOTS(c) + (PADDED(c) ? (size_t)(-(long)(c)[NSLOTS(c) - 1]) : 0))
#define CHUNK_REQ() \
    __CPROVER_requires(g_addr != 0 && 3 <= g_cap && g_cap <= 3 + 2 * (size_t)CD_MAXSZ + 1024 && __CPROVER_is_fresh(g_chunk, g_cap * sizeof(node_handle)))

void simple_separated__unlinkDownAndRecycle(struct simple_separated *self, node_address addr)
SS_REQ(self)
CHUNK_REQ()
__CPROVER_requires(addr == g_addr && NSZ(g_chunk) <= CD_MAXSZ && NSLOTS(g_chunk) <= g_cap && verif_exc == 0)
__CPROVER_requires(!PADDED(g_chunk) || -(long)g_chunk[NSLOTS(g_chunk) - 1] < 1024)
__CPROVER_requires(g_unlinks < 1000000)
__CPROVER_assigns(verif_exc, g_unlinks, g_last_unlinked, g_recycles_mm, g_recycle_addr, g_recycle_slots)
ENSURES(every_child_released_exactly_once, g_unlinks == __CPROVER_old(g_unlinks) + NSZ(g_chunk))
ENSURES(storage_recycled_once_with_its_true_extent, g_recycles_mm == __CPROVER_old(g_recycles_mm) + 1 && g_recycle_addr == addr && g_recycle_slots == TOTAL(g_chunk))
;

#define UNB_REQ(nb) \
    __CPROVER_requires(__CPROVER_is_fresh(nb, sizeof(*(nb)))) \
    __CPROVER_requires(1 <= (nb)->size && (nb)->size <= CD_MAXSZ && (nb)->the_edge_type == edge_type__VOID) \
    __CPROVER_requires(__CPROVER_is_fresh((nb)->_down, (nb)->size * sizeof(node_handle))) \
    __CPROVER_requires((nb)->is_full ==> (nb)->_index == NULL) \
    __CPROVER_requires(!(nb)->is_full ==> __CPROVER_is_fresh((nb)->_index, (nb)->size * sizeof(unsigned)))

node_address simple_separated__makeFullNode(struct simple_separated *self, node_handle p, int size, const struct unpacked_node *nb)
SS_REQ(self)
UNB_REQ(nb)
CHUNK_REQ()
__CPROVER_requires(p >= 1 && 1 <= size && size <= CD_MAXSZ && verif_exc == 0 && ghost_g < (size_t)size)
__CPROVER_requires(3 + (size_t)size <= g_given && g_given <= g_cap && g_given - (3 + (size_t)size) < 1024)
/* truncated-full size covers the source: a full source has at least 'size' entries, a sparse source only indexes below 'size' */
/* full source only: for a sparse source the scatter loop is memory-safe only if EVERY index is below 'size' (sortedness of the
 * source, a quantified fact the point-wise preconditions cannot carry) - that path is not covered */
__CPROVER_requires(nb->is_full && (size_t)size <= nb->size)
__CPROVER_assigns(verif_exc, g_requests, g_request_slots, __CPROVER_object_whole(g_chunk))
ENSURES(oom_only, verif_exc == 0 || verif_exc == ERR_INSUFFICIENT_MEMORY)
ENSURES(asks_for_exactly_the_node_size, g_requests == __CPROVER_old(g_requests) + 1 && g_request_slots == 3 + (size_t)size)
ENSURES(returns_the_chunk_address, verif_exc != 0 || __CPROVER_return_value == g_addr)
ENSURES(header_records_size_and_form, verif_exc != 0 || (NSZ(g_chunk) == (unsigned)size && !NSPARSE(g_chunk)))
ENSURES(tail_records_padding_and_owner, verif_exc != 0 || (g_chunk[g_given - 1] == p && TOTAL(g_chunk) == g_given))
ENSURES(full_source_copied, verif_exc != 0 || !nb->is_full || g_chunk[header_slots + ghost_g] == nb->_down[ghost_g])
;

node_address simple_separated__makeSparseNode(struct simple_separated *self, node_handle p, int size, const struct unpacked_node *nb)
SS_REQ(self)
UNB_REQ(nb)
CHUNK_REQ()
__CPROVER_requires(p >= 1 && 1 <= size && size <= CD_MAXSZ && verif_exc == 0 && ghost_g < (size_t)size)
__CPROVER_requires(3 + 2 * (size_t)size <= g_given && g_given <= g_cap && g_given - (3 + 2 * (size_t)size) < 1024)
/* sparse source only: compressing a full source needs 'exactly size entries are non-transparent' (a counting fact) - not covered */
__CPROVER_requires(!nb->is_full && (size_t)size <= nb->size)
__CPROVER_assigns(verif_exc, g_requests, g_request_slots, __CPROVER_object_whole(g_chunk))
ENSURES(oom_only, verif_exc == 0 || verif_exc == ERR_INSUFFICIENT_MEMORY)
ENSURES(asks_for_exactly_the_node_size, g_requests == __CPROVER_old(g_requests) + 1 && g_request_slots == 3 + 2 * (size_t)size)
ENSURES(returns_the_chunk_address, verif_exc != 0 || __CPROVER_return_value == g_addr)
ENSURES(header_records_size_and_form, verif_exc != 0 || (NSZ(g_chunk) == (unsigned)size && NSPARSE(g_chunk)))
ENSURES(tail_records_padding_and_owner, verif_exc != 0 || (g_chunk[g_given - 1] == p && TOTAL(g_chunk) == g_given))
ENSURES(sparse_source_copied, verif_exc != 0 || nb->is_full || (g_chunk[header_slots + ghost_g] == nb->_down[ghost_g] && g_chunk[header_slots + size + ghost_g] == (node_handle)nb->_index[ghost_g]))
;

/* what the pair make / recycle guarantees to the memory manager (C18, C12): the extent handed back is the extent handed out */
int lemma_make_then_recycle_full(struct simple_separated *self, node_handle p, int size, const struct unpacked_node *nb)
SS_REQ(self)
UNB_REQ(nb)
CHUNK_REQ()
__CPROVER_requires(p >= 1 && 1 <= size && size <= CD_MAXSZ && verif_exc == 0 && ghost_g < (size_t)size && g_unlinks < 1000000)
__CPROVER_requires(3 + (size_t)size <= g_given && g_given <= g_cap && g_given - (3 + (size_t)size) < 1024)
/* full source only: for a sparse source the scatter loop is memory-safe only if EVERY index is below 'size' (sortedness of the
 * source, a quantified fact the point-wise preconditions cannot carry) - that path is not covered */
__CPROVER_requires(nb->is_full && (size_t)size <= nb->size)
__CPROVER_assigns(verif_exc, g_requests, g_request_slots, __CPROVER_object_whole(g_chunk), g_unlinks, g_last_unlinked, g_recycles_mm, g_recycle_addr, g_recycle_slots)
ENSURES(recycled_extent_equals_granted_extent, verif_exc != 0 || (g_recycle_addr == g_addr && g_recycle_slots == g_given && g_unlinks == __CPROVER_old(g_unlinks) + (unsigned)size))
;

_Bool simple_separated__isSingletonNode(const struct simple_separated *self, node_address addr, unsigned *ind, node_handle *down)
SS_REQ(self)
CHUNK_REQ()
__CPROVER_requires(addr == g_addr && 1 <= NSZ(g_chunk) && NSZ(g_chunk) <= CD_MAXSZ && NSLOTS(g_chunk) <= g_cap)     /* MEDDLY_DCASSERT(size) */
__CPROVER_requires(__CPROVER_is_fresh(ind, sizeof(unsigned)) && __CPROVER_is_fresh(down, sizeof(node_handle)) && ghost_g < NSZ(g_chunk))
__CPROVER_assigns(*ind, *down)
ENSURES(sparse_singleton_iff_one_entry, !NSPARSE(g_chunk) || __CPROVER_return_value == (NSZ(g_chunk) == 1))
ENSURES(sparse_singleton_reports_its_entry, !NSPARSE(g_chunk) || !__CPROVER_return_value || ((node_handle)*ind == g_chunk[header_slots + 1] && *down == g_chunk[header_slots]))
ENSURES(full_singleton_has_only_its_last_child, NSPARSE(g_chunk) || !__CPROVER_return_value || (*ind == NSZ(g_chunk) - 1 && *down == g_chunk[header_slots + *ind] && (ghost_g == *ind || g_chunk[header_slots + ghost_g] == 0)))
ENSURES(full_non_singleton_has_another_child, NSPARSE(g_chunk) || __CPROVER_return_value || NSZ(g_chunk) >= 2)
;

node_handle simple_separated__getDownPtr2(const struct simple_separated *self, node_address addr, int i)
SS_REQ(self)
CHUNK_REQ()
__CPROVER_requires(addr == g_addr && NSZ(g_chunk) <= CD_MAXSZ && NSLOTS(g_chunk) <= g_cap && verif_exc == 0)
__CPROVER_assigns(verif_exc)
ENSURES(negative_index_rejected, (verif_exc != 0) == (i < 0))
ENSURES(rejection_code, verif_exc == 0 || verif_exc == ERR_INVALID_VARIABLE)
ENSURES(full_node_child_or_transparent, verif_exc != 0 || NSPARSE(g_chunk) || __CPROVER_return_value == ((unsigned)i < NSZ(g_chunk) ? g_chunk[header_slots + i] : 0))
;
