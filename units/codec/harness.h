int lemma_raw_size(int size, _Bool sparse)
{
    unsigned raw = simple_separated__getRawSize_enc(size, sparse);
    return simple_separated__getSize(raw) == (unsigned)size && simple_separated__isSparse(raw) == sparse;
}
void h_raw_size_roundtrip(void) { int w_size = nondet_int(); _Bool w_sp = nondet_bool(); lemma_raw_size(w_size, w_sp); CANARY(); }
void h_slotsForNode(void) { struct simple_separated *s; int w_sz = nondet_int(); _Bool w_sp = nondet_bool(); simple_separated__slotsForNode(s, w_sz, w_sp); CANARY(); }
void h_findSparseIndex(void) { node_handle *ix; int w_i = nondet_int(), w_n = nondet_int(); ghost_g = nondet_size_t(); simple_separated__findSparseIndex3(w_i, ix, w_n); CANARY(); }
int lemma_make_then_recycle_full(struct simple_separated *self, node_handle p, int size, const struct unpacked_node *nb)
{
    node_address a = simple_separated__makeFullNode(self, p, size, nb);
    if (verif_exc) return 0;
    simple_separated__unlinkDownAndRecycle(self, a);
    return 0;
}
#define H_CD_SETUP() ghost_g = nondet_size_t(); g_cap = nondet_size_t(); g_addr = nondet_ulong(); g_given = nondet_size_t(); \
    g_requests = nondet_unsigned(); g_recycles_mm = nondet_unsigned(); g_unlinks = nondet_unsigned();
void h_unlinkDownAndRecycle(void) { struct simple_separated *s; node_address w_a = nondet_ulong(); H_CD_SETUP(); simple_separated__unlinkDownAndRecycle(s, w_a); CANARY(); }
void h_makeFullNode(void) { struct simple_separated *s; struct unpacked_node *nb; node_handle w_p = nondet_int(); int w_size = nondet_int(); H_CD_SETUP(); simple_separated__makeFullNode(s, w_p, w_size, nb); CANARY(); }
void h_makeSparseNode(void) { struct simple_separated *s; struct unpacked_node *nb; node_handle w_p = nondet_int(); int w_size = nondet_int(); H_CD_SETUP(); simple_separated__makeSparseNode(s, w_p, w_size, nb); CANARY(); }
void h_make_then_recycle_full(void) { struct simple_separated *s; struct unpacked_node *nb; node_handle w_p = nondet_int(); int w_size = nondet_int(); H_CD_SETUP(); lemma_make_then_recycle_full(s, w_p, w_size, nb); CANARY(); }
void h_isSingletonNode(void) { struct simple_separated *s; unsigned *ind; node_handle *dn; node_address w_a = nondet_ulong(); H_CD_SETUP(); simple_separated__isSingletonNode(s, w_a, ind, dn); CANARY(); }
void h_getDownPtr(void) { struct simple_separated *s; node_address w_a = nondet_ulong(); int w_i = nondet_int(); H_CD_SETUP(); simple_separated__getDownPtr2(s, w_a, w_i); CANARY(); }
