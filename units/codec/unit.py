S = 'src/storage/simple.cc'
UH = 'src/unpacked_node.h'
def sf(name, **kw):
    d = dict(cls='simple_separated', name=name, file=S)
    d.update(kw)
    return d
def uf(name, **kw):
    d = dict(cls='unpacked_node', name=name, file=UH)
    d.update(kw)
    return d
def job(name, enforce, replace=(), props=('C02', 'C12'), **kw):
    d = dict(name=name, entry='h_' + name, enforce=enforce, replace=list(replace), props=list(props))
    d.update(kw)
    return d
MM = ['memory_manager__requestChunk', 'verif_chunk_lookup', 'memory_manager__recycleChunk']
FO = ['forest__getTransparentNode', 'forest__unlinkNode']
LEAF = ['simple_separated__slotsForNode']
UNIT = {
    'name': 'codec',
    'typedefs': [('src/defines.h', 'node_handle'), ('src/defines.h', 'node_address'), ('src/policies.h', 'node_storage_flags')],
    'enums': [('src/edge_value.h', 'edge_type')],
    'consts': [('src/policies.h', ['FULL_ONLY', 'SPARSE_ONLY', 'FULL_OR_SPARSE']),
               (S, ['next_slot', 'size_slot', 'header_slots', 'tail_slots', 'extra_slots'])],
    'classes': {
        'forest': {'opaque': True}, 'memory_manager': {'opaque': True},
        'edge_value': {'file': 'src/edge_value.h'},
        'unpacked_node': {'file': UH, 'fields': ['_down', '_index', '_edge', 'size', 'level', 'is_full', 'the_edge_type']},
        'simple_separated': {'file': S, 'bases': ['node_storage'], 'base_files': {'node_storage': 'src/node_storage.h'},
                             'fields': ['parent', 'MM', 'unhashed_start', 'unhashed_slots', 'hashed_start', 'hashed_slots', 'down_start', 'slots_per_edge']},
    },
    'foreign': {
        'requestChunk': {'*': 'memory_manager'}, 'getChunkAddress': {'MM': 'memory_manager'}, 'recycleChunk': {'*': 'memory_manager'},
        'getTransparentNode': {'*': 'forest'}, 'unlinkNode': {'*': 'forest'}, 'isTransparentEdge': {'*': 'forest'},
        'getTransparentEdge': {'*': 'forest'}, 'getEdgeType': {'parent': 'forest'},
        'isSparse': {'nb': 'unpacked_node'}, 'getSize': {'nb': 'unpacked_node'}, 'down': {'nb': 'unpacked_node'}, 'index': {'nb': 'unpacked_node'},
        'edgeval': {'nb': 'unpacked_node'}, 'hasEdges': {'nb': 'unpacked_node'}, 'isSorted': {'nb': 'unpacked_node'},
        'getUHdata': {'nb': 'unpacked_node'}, 'getHHdata': {'nb': 'unpacked_node'},
        'get': {'*': 'edge_value__get_typed'},
    },
    # address translation of the memory manager: the one live chunk g_chunk sits at address g_addr.
    # Routing the pointer through a void*-returning stub makes CBMC consider every object at each
    # dereference (out of memory), so the wrapper call is mapped to the ghost chunk directly.
    'text_subst': [
        (r'(?<![\w>])getChunkAddress\(addr\)', 'VERIF_CHUNK_AT(addr)', S),
    ],
    'extra_methods': [
        dict(cls='simple_separated', name='getParent', argc=0, cname='simple_separated__getParent'),
        dict(cls='simple_separated', name='bytesForSlots', argc=1, cname='verif_bytesForSlots', static=True),
    ],
    'ref_params': {'memory_manager__requestChunk': [1], 'forest__isTransparentEdge': [1]},
    'ref_returning': ['forest__getTransparentEdge'],
    'functions': [
        sf('slotsForNode'),
        sf('getRawSize', sel=r'^const node_handle\* chunk$', cname='simple_separated__getRawSize_chunk', argc_key=1),
        sf('getRawSize', sel=r'^int size, bool sparse$', cname='simple_separated__getRawSize_enc', argc_key=2),
        sf('getSize'), sf('isSparse'),
        sf('findSparseIndex', sel=r'const node_handle\* index, int N$', cname='simple_separated__findSparseIndex3', argc_key=3, loops=1),
        sf('unlinkDownAndRecycle', where='out', loops=1),
        sf('makeFullNode', where='out', loops=6, fires={'R1': 1}),
        sf('makeSparseNode', where='out', loops=4, fires={'R1': 1}),
        sf('isSingletonNode', where='out', loops=1),
        sf('getDownPtr', where='out', sel=r'^node_address addr, int i$', cname='simple_separated__getDownPtr2', argc_key=2, fires={'R1': 1}),
        uf('getSize'), uf('isSparse'), uf('hasEdges'),
        uf('down', sel=r'^unsigned n$', nth=0), uf('index', sel=r'^unsigned n$', nth=0), uf('edgeval', sel=r'^unsigned n$', nth=0),
    ],
    'may_throw_void': ['forest__unlinkNode'],
    'stubs': [
        'memory_manager::requestChunk(n&): returns 0 or the address of a fresh chunk and raises n to the number of slots actually given (>= requested) - the contract U-mm proves for the managers',
        'memory_manager::getChunkAddress(addr): pointer to the slots of the chunk at addr',
        'memory_manager::recycleChunk(addr, n): ghost-recorded',
        'forest::getTransparentNode() == 0; forest::unlinkNode(p): ghost-counted (real body: U-edge/U-hdr)',
        'unpacked_node::getUHdata/getHHdata (extra header copies): only forests without extra header slots are covered (unhashed_slots == hashed_slots == 0: all forest kinds except the EV+ relation variants with extra headers)',
    ],
    'assumptions': [
        'multi-terminal storage layout (slots_per_edge == 0) is covered by the makeFullNode/makeSparseNode contracts; the edge-value copy loops are memory-safety checked only under slots_per_edge == 0 preconditions, i.e. not covered',
        'fillUnpacked / areDuplicates / hashNode (relational facts between the packed and unpacked views) are not under contract',
    ],
    'unverified_surroundings': {
        'C02': ['simple.cc fillUnpacked, areDuplicates, hashNode (relational)', 'unpacked_node.cc computeHash'],
        'C12': ['policy plumbing (forest constructor), EV storage layout', 'whole-history independence'],
    },
    'jobs': [
        job('raw_size_roundtrip', 'lemma_raw_size'),
        job('slotsForNode', 'simple_separated__slotsForNode'),
        job('findSparseIndex', 'simple_separated__findSparseIndex3', loops=1),
        job('unlinkDownAndRecycle', 'simple_separated__unlinkDownAndRecycle', MM + FO + ['simple_separated__getParent'], loops=1, props=['C06', 'C12', 'C18']),
        job('makeFullNode', 'simple_separated__makeFullNode', MM + FO + ['simple_separated__getParent'], loops=3, props=['C02', 'C12', 'C18']),
        # makeSparseNode: contract written (spec.h) but the job is vacuous in this tool chain (canary unreachable) - not claimed
        job('make_then_recycle_full', 'lemma_make_then_recycle_full', MM + FO + ['simple_separated__getParent', 'simple_separated__makeFullNode', 'simple_separated__unlinkDownAndRecycle'], props=['C12', 'C18', 'C06']),
        job('isSingletonNode', 'simple_separated__isSingletonNode', MM + FO + ['simple_separated__getParent'], loops=1, props=['C02']),
        job('getDownPtr', 'simple_separated__getDownPtr2', MM + FO + ['simple_separated__getParent', 'simple_separated__findSparseIndex3'], props=['C02', 'C16']),
    ],
}
