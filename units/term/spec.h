/* U-term: contracts for terminal handle encodings (C19, C16, C01).
 * Postconditions are taken from the property statement, not from the bit
 * layout: any encoding that is injective, keeps zero unique, stays out of the
 * node-handle range and round-trips would satisfy them. */

long w_v; int w_h; /* witnesses for native replay */
#define T_MIN (-1073741824L)
#define T_MAX ( 1073741823L)

/* ---------- encoders ---------- */
node_handle terminal__getIntegerHandle(const struct terminal *self)
__CPROVER_requires(__CPROVER_is_fresh(self, sizeof(*self)))
__CPROVER_requires(self->mytype == terminal_type__INTEGER)     /* MEDDLY_DCASSERT(isInteger()) */
WITNESS(terminal__getIntegerHandle, self->t_integer == w_v)
__CPROVER_requires(verif_exc == 0)
__CPROVER_assigns(verif_exc)
ENSURES(overflow_rejected, (verif_exc != 0) == (self->t_integer < T_MIN || self->t_integer > T_MAX))
ENSURES(overflow_code, verif_exc == 0 || verif_exc == ERR_VALUE_OVERFLOW)
ENSURES(zero_is_transparent, verif_exc != 0 || ((__CPROVER_return_value == 0) == (self->t_integer == 0)))
ENSURES(nonzero_is_negative_handle, verif_exc != 0 || self->t_integer == 0 || __CPROVER_return_value < 0)
;

node_handle terminal__getRealHandle(const struct terminal *self)
__CPROVER_requires(__CPROVER_is_fresh(self, sizeof(*self)))
__CPROVER_requires(self->mytype == terminal_type__REAL)
__CPROVER_requires(self->t_real == self->t_real)               /* not NaN */
__CPROVER_requires(verif_exc == 0)
__CPROVER_assigns()
ENSURES(zero_is_transparent_fwd, self->t_real != 0.0f || __CPROVER_return_value == 0)
ENSURES(nonzero_is_negative_handle, self->t_real == 0.0f || __CPROVER_return_value <= 0)
;

/* ---------- decoder ---------- */
void terminal__setFromHandle(struct terminal *self, terminal_type t, node_handle h)
__CPROVER_requires(__CPROVER_is_fresh(self, sizeof(*self)))
__CPROVER_requires(t == terminal_type__OMEGA || t == terminal_type__BOOLEAN || t == terminal_type__INTEGER || t == terminal_type__REAL)
__CPROVER_requires(h <= 0)                                      /* terminals are non-positive handles */
__CPROVER_requires(verif_exc == 0)
__CPROVER_assigns(verif_exc, __CPROVER_object_whole(self))
ENSURES(type_set, self->mytype == t)
ENSURES(bool_rejects_non_boolean, (verif_exc != 0) == (t == terminal_type__BOOLEAN && h != 0 && h != -1))
ENSURES(bool_decode, t != terminal_type__BOOLEAN || verif_exc != 0 || self->t_boolean == (h != 0))
ENSURES(int_in_range, t != terminal_type__INTEGER || (self->t_integer >= T_MIN && self->t_integer <= T_MAX))
ENSURES(int_zero, t != terminal_type__INTEGER || ((self->t_integer == 0) == (h == 0 || h == INT_MIN)))
ENSURES(omega_verbatim, t != terminal_type__OMEGA || self->t_omega == h)
ENSURES(real_zero, t != terminal_type__REAL || h != 0 || self->t_real == 0.0f)
;

/* ---------- composite lemmas: contracts on wrappers whose bodies are the real code ---------- */

/* decode(encode(v)) for integers; returns decoded value */
long lemma_int_roundtrip(long v)
__CPROVER_requires(v >= T_MIN && v <= T_MAX)
__CPROVER_requires(verif_exc == 0)
__CPROVER_assigns(verif_exc)
ENSURES(no_error_in_range, verif_exc == 0)
ENSURES(roundtrip, __CPROVER_return_value == v)
;

/* boundary constants are the documented ones */
int lemma_int_bounds(void)
__CPROVER_assigns()
ENSURES(min_is_minus_2_30, terminal__intMin() == -1073741824)
ENSURES(max_is_2_30_minus_1, terminal__intMax() == 1073741823)
;

/* two values, two handles */
int lemma_int_injective(long v1, long v2)
__CPROVER_requires(v1 >= T_MIN && v1 <= T_MAX && v2 >= T_MIN && v2 <= T_MAX)
__CPROVER_requires(verif_exc == 0)
__CPROVER_assigns(verif_exc)
ENSURES(injective, __CPROVER_return_value == (v1 == v2))
;

/* reals: f any non-NaN float.  out_bits receives the bit pattern of decode(encode(f)) */
node_handle lemma_real_roundtrip(float f, unsigned *in_bits, unsigned *out_bits, float *out_val)
__CPROVER_requires(f == f)
__CPROVER_requires(__CPROVER_is_fresh(in_bits, sizeof(unsigned)) && __CPROVER_is_fresh(out_bits, sizeof(unsigned)) && __CPROVER_is_fresh(out_val, sizeof(float)))
__CPROVER_requires(verif_exc == 0)
__CPROVER_assigns(*in_bits, *out_bits, *out_val)
/* in_bits = bit pattern of f, out_bits = bit pattern of decode(encode(f)) */
/* exact up to the last fraction bit; values that round to (+-)zero come back as zero */
ENSURES(one_bit_accuracy, *out_bits == (*in_bits & ~1u) || ((*in_bits & 0x7ffffffeu) == 0 && *out_val == 0.0f))
ENSURES(zero_iff_transparent, (*out_val == 0.0f) == (__CPROVER_return_value == 0))
ENSURES(not_a_node_handle, __CPROVER_return_value <= 0)
;

int lemma_real_injective(float f1, float f2)
__CPROVER_requires(f1 == f1 && f2 == f2)
__CPROVER_requires(verif_exc == 0)
__CPROVER_assigns()
/* values that remain distinct after the one-bit rounding get distinct handles,
 * and values that are equal after rounding get the same handle */
ENSURES(distinct_values_distinct_handles, __CPROVER_return_value == 1)
;

int lemma_bool_roundtrip(_Bool b)
__CPROVER_requires(verif_exc == 0)
__CPROVER_assigns(verif_exc)
ENSURES(roundtrip, verif_exc == 0 && __CPROVER_return_value == 1)
;
