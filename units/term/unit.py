T = 'src/terminal.h'
def tf(name, **kw):
    d = dict(cls='terminal', name=name, file=T)
    d.update(kw)
    return d

UNIT = {
    'name': 'term',
    'typedefs': [('src/defines.h', 'node_handle')],
    'enums': [('src/terminal.h', 'terminal_type')],
    'consts': [('src/terminal.h', ['OMEGA_NORMAL', 'OMEGA_ZERO', 'OMEGA_INFINITY'])],
    'classes': {
        'terminal': {'file': T},
    },
    'functions': [
        tf('isOmega'), tf('isBoolean'), tf('isInteger'), tf('isReal'),
        tf('intMin'), tf('intMax'), tf('msb'),
        tf('getIntegerHandle', fires={'R1': 1}),
        tf('getRealHandle'),
        tf('getHandle'),
        tf('setOmega', fires={'R1': 1}), tf('setBoolean'), tf('setInteger'), tf('setReal'),
        tf('setFromHandle', fires={'R1': 1}),
        tf('getOmega'), tf('getBoolean'), tf('getInteger'), tf('getReal'),
    ] + [
        tf('setFromValue', subst={'T': ty}, cname='terminal__setFromValue_' + ty) for ty in ('bool', 'int', 'long', 'float', 'double')
    ] + [
        tf('getValue', subst={'T': ty}, cname='terminal__getValue_' + ty, fires={'R1': 1}) for ty in ('bool', 'int', 'long', 'float', 'double')
    ],
    'flags': ['--no-standard-checks', '--bounds-check', '--pointer-check', '--div-by-zero-check',
              '--unwinding-assertions'],
    'replay_sources': ['src/error.cc'],
    'unverified_surroundings': {'C19': ['edge_value get/set/setRaw payload copies, rangeval conversions, forest::getEdgeForValue/getValueForEdge (EV+ infinity) are not under contract'], 'C16': ['all other error raises'], 'C01': ['see U-reduce']},
    'jobs': [
        dict(name='getIntegerHandle', entry='h_getIntegerHandle', enforce='terminal__getIntegerHandle', props=['C19', 'C16']),
        dict(name='getRealHandle', entry='h_getRealHandle', enforce='terminal__getRealHandle', props=['C19']),
        dict(name='setFromHandle', entry='h_setFromHandle', enforce='terminal__setFromHandle', props=['C19', 'C16']),
        dict(name='lemma_int_roundtrip', entry='h_lemma_int_roundtrip', enforce='lemma_int_roundtrip', props=['C19']),
        dict(name='lemma_int_bounds', entry='h_lemma_int_bounds', enforce='lemma_int_bounds', props=['C19', 'C16']),
        dict(name='lemma_int_injective', entry='h_lemma_int_injective', enforce='lemma_int_injective', props=['C19', 'C01']),
        dict(name='lemma_real_roundtrip', entry='h_lemma_real_roundtrip', enforce='lemma_real_roundtrip', props=['C19', 'C01']),
        dict(name='lemma_real_injective', entry='h_lemma_real_injective', enforce='lemma_real_injective', props=['C19', 'C01']),
        dict(name='lemma_bool_roundtrip', entry='h_lemma_bool_roundtrip', enforce='lemma_bool_roundtrip', props=['C19']),
    ],
}
