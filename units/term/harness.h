static unsigned verif_float_bits(float f) { union { float f; unsigned u; } x; x.f = f; return x.u; }

long lemma_int_roundtrip(long v)
{
    struct terminal t, u;
    terminal__setInteger(&t, v);
    node_handle h = terminal__getHandle(&t);
    if (verif_exc) return 0;
    terminal__setFromHandle(&u, terminal_type__INTEGER, h);
    return terminal__getInteger(&u);
}

int lemma_int_bounds(void) { return 0; }

int lemma_int_injective(long v1, long v2)
{
    struct terminal t1, t2;
    terminal__setInteger(&t1, v1);
    terminal__setInteger(&t2, v2);
    node_handle h1 = terminal__getHandle(&t1);
    node_handle h2 = terminal__getHandle(&t2);
    return h1 == h2;
}

node_handle lemma_real_roundtrip(float f, unsigned *in_bits, unsigned *out_bits, float *out_val)
{
    *in_bits = verif_float_bits(f);
    struct terminal t, u;
    terminal__setReal(&t, f);
    node_handle h = terminal__getHandle(&t);
    terminal__setFromHandle(&u, terminal_type__REAL, h);
    float g = (float)terminal__getReal(&u);
    *out_bits = verif_float_bits(g);
    *out_val = g;
    return h;
}

int lemma_real_injective(float f1, float f2)
{
    struct terminal t1, t2, u1, u2;
    terminal__setReal(&t1, f1);
    terminal__setReal(&t2, f2);
    node_handle h1 = terminal__getHandle(&t1);
    node_handle h2 = terminal__getHandle(&t2);
    terminal__setFromHandle(&u1, terminal_type__REAL, h1);
    terminal__setFromHandle(&u2, terminal_type__REAL, h2);
    float g1 = (float)terminal__getReal(&u1);
    float g2 = (float)terminal__getReal(&u2);
    /* same handle  <=>  same decoded value */
    return (h1 == h2) == (g1 == g2);
}

int lemma_bool_roundtrip(_Bool b)
{
    struct terminal t, u;
    terminal__setBoolean(&t, b);
    node_handle h = terminal__getHandle(&t);
    terminal__setFromHandle(&u, terminal_type__BOOLEAN, h);
    return terminal__getBoolean(&u) == b && ((h == 0) == (b == 0)) && h <= 0;
}

/* ------------------------------------------------------------------ harnesses */
void h_getIntegerHandle(void) { struct terminal *t; w_v = nondet_long(); terminal__getIntegerHandle(t); CANARY(); }
void h_getRealHandle(void) { struct terminal *t; terminal__getRealHandle(t); CANARY(); }
void h_setFromHandle(void) { struct terminal *t; terminal_type ty; node_handle h = nondet_int();
    terminal__setFromHandle(t, ty, h); CANARY(); }
void h_lemma_int_roundtrip(void) { w_v = nondet_long(); lemma_int_roundtrip(w_v); CANARY(); }
void h_lemma_int_bounds(void) { lemma_int_bounds(); CANARY(); }
void h_lemma_int_injective(void) { long w_v1 = nondet_long(), w_v2 = nondet_long(); lemma_int_injective(w_v1, w_v2); CANARY(); }
void h_lemma_real_roundtrip(void) { float w_f = nondet_float(); unsigned *ib, *ob; float *ov; lemma_real_roundtrip(w_f, ib, ob, ov); CANARY(); }
void h_lemma_real_injective(void) { float w_f1 = nondet_float(), w_f2 = nondet_float(); lemma_real_injective(w_f1, w_f2); CANARY(); }
void h_lemma_bool_roundtrip(void) { _Bool w_b = nondet_bool(); lemma_bool_roundtrip(w_b); CANARY(); }
