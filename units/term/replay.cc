// Native replay for U-term: evaluates the same predicates on the real terminal.h
#include "src/defines.h"
#include "src/error.h"
#include "src/terminal.h"
#include "replay_util.h"
using namespace MEDDLY;
static unsigned fbits(float f) { unsigned u; memcpy(&u, &f, 4); return u; }
int main(int argc, char** argv)
{
    replay_args a(argc, argv);
    try {
        if (a.job == "lemma_real_roundtrip") {
            float f = a.f("w_f");
            terminal t(f);
            node_handle h = t.getHandle();
            terminal u(terminal_type::REAL, h);
            float g = (float)u.getReal();
            printf("f=%a bits=%08x handle=%08x decoded=%a bits=%08x\n", f, fbits(f), (unsigned)h, g, fbits(g));
            if (a.obligation == "one_bit_accuracy")
                REPRO(!(fbits(g) == (fbits(f) & ~1u) || ((fbits(f) & 0x7ffffffeu) == 0 && g == 0.0f)), "decode(encode(f)) lost more than one bit");
            if (a.obligation == "zero_iff_transparent")
                REPRO((g == 0.0f) != (h == 0), "value %a decodes to %a but its handle is %d: zero has a second, non-transparent handle", f, g, h);
            if (a.obligation == "not_a_node_handle")
                REPRO(h > 0, "terminal handle %d is positive", h);
            NOREPRO();
        }
        if (a.job == "lemma_real_injective") {
            float f1 = a.f("w_f1"), f2 = a.f("w_f2");
            terminal t1(f1), t2(f2);
            node_handle h1 = t1.getHandle(), h2 = t2.getHandle();
            terminal u1(terminal_type::REAL, h1), u2(terminal_type::REAL, h2);
            float g1 = (float)u1.getReal(), g2 = (float)u2.getReal();
            printf("f1=%a h1=%08x g1=%a | f2=%a h2=%08x g2=%a\n", f1, (unsigned)h1, g1, f2, (unsigned)h2, g2);
            REPRO((h1 == h2) != (g1 == g2), "handles %s but decoded values %s", h1 == h2 ? "equal" : "differ", g1 == g2 ? "equal" : "differ");
            NOREPRO();
        }
        if (a.job == "lemma_int_roundtrip" || a.job == "getIntegerHandle") {
            long v = a.has("w_v") ? a.i("w_v") : 0;
            bool threw = false; node_handle h = 0; long back = 0;
            try { terminal t(v); h = t.getHandle(); terminal u(terminal_type::INTEGER, h); back = u.getInteger(); }
            catch (error e) { threw = true; printf("threw %s\n", e.getName()); }
            printf("v=%ld handle=%d decoded=%ld threw=%d\n", v, h, back, (int)threw);
            bool inrange = v >= -1073741824L && v <= 1073741823L;
            REPRO(inrange && threw, "in-range value rejected");
            REPRO(!inrange && !threw, "out-of-range value accepted");
            REPRO(inrange && back != v, "round trip changed the value");
            REPRO(inrange && ((h == 0) != (v == 0)), "zero/transparent mismatch");
            REPRO(inrange && v != 0 && h > 0, "handle is positive");
            NOREPRO();
        }
        if (a.job == "lemma_int_injective") {
            long v1 = a.i("w_v1"), v2 = a.i("w_v2");
            terminal t1(v1), t2(v2);
            node_handle h1 = t1.getHandle(), h2 = t2.getHandle();
            printf("v1=%ld h1=%d v2=%ld h2=%d\n", v1, h1, v2, h2);
            REPRO((h1 == h2) != (v1 == v2), "injectivity broken");
            NOREPRO();
        }
        if (a.job == "lemma_int_bounds") {
            REPRO(terminal::intMin() != -1073741824 || terminal::intMax() != 1073741823, "bounds are %d..%d", terminal::intMin(), terminal::intMax());
            NOREPRO();
        }
        if (a.job == "lemma_bool_roundtrip") {
            bool b = a.i("w_b") != 0;
            terminal t(b); node_handle h = t.getHandle(); terminal u(terminal_type::BOOLEAN, h);
            REPRO(u.getBoolean() != b || ((h == 0) != (!b)) || h > 0, "boolean %d -> handle %d -> %d", (int)b, h, (int)u.getBoolean());
            NOREPRO();
        }
    } catch (error e) {
        printf("unexpected MEDDLY error %s\n", e.getName());
        return 2;
    }
    printf("no native replay for job %s\n", a.job.c_str());
    return 0;
}
