#define H_HDR(name, call) void h_##name(void) { struct node_headers *h; node_handle w_p = nondet_int(), w_q = nondet_int(); _Bool w_b = nondet_bool(); ghost_g = nondet_size_t(); g_hdr = h; \
    g_lvl_min = nondet_int(); g_lvl_max = nondet_int(); \
    g_n = nondet_size_t(); __CPROVER_assume(2 <= g_n && g_n <= HDR_N); \
    g_in = malloc(sizeof(unsigned) * g_n); g_cc = malloc(sizeof(unsigned) * g_n); g_lvl = malloc(sizeof(int) * g_n); g_adr = malloc(sizeof(unsigned long) * g_n); \
    __CPROVER_assume(g_in && g_cc && g_lvl && g_adr); \
    g_delete_calls = nondet_unsigned(); g_shrink_calls = nondet_unsigned(); g_expand_calls = nondet_unsigned(); call; CANARY(); }
void h_bytesRequiredForDown(void) { int w_a = nondet_int(); bytesRequiredForDown(w_a); CANARY(); }
H_HDR(lastUnlink, node_headers__lastUnlink(h, w_p))
H_HDR(unlinkNode, node_headers__unlinkNode(h, w_p))
H_HDR(linkNode, node_headers__linkNode(h, w_p))
H_HDR(cacheNode, node_headers__cacheNode(h, w_p))
H_HDR(lastUncache, node_headers__lastUncache(h, w_p))
H_HDR(uncacheNode, node_headers__uncacheNode(h, w_p))
H_HDR(recycleNodeHandle, node_headers__recycleNodeHandle(h, w_p))
H_HDR(getFreeNodeHandle, node_headers__getFreeNodeHandle(h))
H_HDR(swapNodes, node_headers__swapNodes(h, w_p, w_q, w_b))
