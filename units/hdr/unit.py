H = 'src/node_headers.h'
C = 'src/node_headers.cc'
A = 'src/arrays.h'
B = 'src/storage/bytepack.h'

def nf(name, file=H, **kw):
    d = dict(cls='node_headers', name=name, file=file)
    d.update(kw)
    return d

ARR = {
    'get': {'levels': 'level_array', 'addresses': 'address_array', 'cache_counts|incoming_counts': 'counter_array',
            'is_in_cache|is_reachable|implicit_bits': 'bitvector'},
    'set': {'levels': 'level_array', 'addresses': 'address_array', 'is_in_cache|implicit_bits': 'bitvector'},
    'swap': {'levels': 'level_array', 'addresses': 'address_array', 'cache_counts|incoming_counts': 'counter_array',
             'implicit_bits': 'bitvector'},
    'increment': {'*': 'counter_array'}, 'decrement': {'*': 'counter_array'},
    'isZeroBeforeIncrement': {'*': 'counter_array'}, 'isPositiveAfterDecrement': {'*': 'counter_array'},
    'firstZero': {'*': 'bitvector'},
    'expand': {'levels': 'level_array', 'addresses': 'address_array', 'cache_counts|incoming_counts': 'counter_array',
               'is_in_cache|is_reachable|implicit_bits': 'bitvector'},
    'shrink': {'levels': 'level_array', 'addresses': 'address_array', 'cache_counts|incoming_counts': 'counter_array',
               'is_in_cache|is_reachable|implicit_bits': 'bitvector'},
    'deleteNode': {'parent': 'forest'},
    'incMemUsed': {'*': 'memstats'}, 'decMemUsed': {'*': 'memstats'},
    'incMemAlloc': {'*': 'memstats'}, 'decMemAlloc': {'*': 'memstats'},
}

CNT = ['counter_array__get', 'counter_array__increment', 'counter_array__isZeroBeforeIncrement',
       'counter_array__isPositiveAfterDecrement', 'counter_array__swap']
LVL = ['level_array__get', 'level_array__set', 'level_array__swap']
ADR = ['address_array__get', 'address_array__set', 'address_array__swap']
ARRS = CNT + LVL + ADR
MS = ['memstats__incMemUsed', 'memstats__decMemUsed']
STUBS = ['forest__deleteNode', 'memstats__incMemUsed', 'memstats__decMemUsed',
         'node_headers__shrinkHandleList', 'node_headers__expandHandleList']

C07_JOBS = {'lastUnlink', 'uncacheNode', 'lastUncache', 'cacheNode', 'recycleNodeHandle', 'getFreeNodeHandle', 'swapNodes'}

def job(name, enforce, replace=(), props=None, **kw):
    props = props or (('C06', 'C07') if name in C07_JOBS else ('C06',))
    d = dict(name=name, entry='h_' + name, enforce=enforce, replace=list(replace), props=list(props))
    d.update(kw)
    return d

UNIT = {
    'name': 'hdr',
    'typedefs': [('src/defines.h', 'node_handle'), ('src/defines.h', 'node_address')],
    'classes': {
        'array_watcher': {'opaque': True},
        'forest': {'opaque': True},
        'memstats': {'opaque': True},
        'statset': {'file': 'src/statset.h'},
        'counter_array': {'opaque': True},
        'address_array': {'opaque': True},
        'level_array': {'opaque': True},
        'bitvector': {'opaque': True},
        'node_headers': {'file': H},
    },
    'foreign': ARR,
    'text_subst': [(r'bytesRequired<sizeof\(int\)>', 'bytesRequired4', B)],
    'functions': [
        nf('isDeleted'), nf('isActive'), nf('deactivate'),
        nf('getNodeAddress'), nf('setNodeAddress'), nf('getNodeLevel'), nf('setNodeLevel'),
        nf('getNodeCacheCount'), nf('getIncomingCount'),
        nf('cacheNode'), nf('uncacheNode'), nf('linkNode'), nf('unlinkNode'),
        nf('getNextOf'), nf('setNextOf'),
        nf('lastUnlink', C), nf('lastUncache', C), nf('reviveNode', C),
        nf('recycleNodeHandle', C, loops=1),
        nf('getFreeNodeHandle', C, loops=3),
        nf('swapNodes', C),
        dict(cls=None, name='bytesRequiredForDown', file=B, sel=r'^int a$'),
        dict(cls=None, name='stripDownEncodingForSizing', file=B, subst={'INT': 'int'}),
        dict(cls=None, name='bytesRequired4', file=B, subst={'INT': 'int'}),
    ],
    'extra_methods': [
        dict(cls='node_headers', name='shrinkHandleList', argc=0, cname='node_headers__shrinkHandleList'),
        dict(cls='node_headers', name='expandHandleList', argc=0, cname='node_headers__expandHandleList'),
    ],
    'may_throw_void': ['counter_array__increment', 'address_array__set',
                       'node_headers__expandHandleList', 'node_headers__shrinkHandleList'],
    'may_throw_value': ['counter_array__isZeroBeforeIncrement'],
    'spec': 'spec.h',
    'stubs': [
        'forest::deleteNode(p): requires p active with incoming count 0; sets level[p]=0 and address[p]=0, keeps cache count of p, keeps a_last >= p, never puts p on a free list; may change other nodes (recursive child release) -- text checked against forest.cc:927 in U-reduce',
        'memstats::incMemUsed/decMemUsed: statistics only',
        'node_headers::shrinkHandleList/expandHandleList: resize all arrays to the new a_size keeping elements <= a_last (array parts proved in U-cnt expand/shrink); free-list cleaning loop not verified',
        'array_watcher notification (node_headers::expandElementSize) changes only h_bits and memory statistics',
    ],
    'assumptions': [
        'reference-count mode (cache_counts and incoming_counts present, is_in_cache/is_reachable null) - the mark-and-sweep branches are not covered',
        'free-list shape: every handle on a_unused[] lists that is <= a_last is a deleted handle with cache count 0 (local footprint, precondition of getFreeNodeHandle); list acyclicity (termination of the discard loop) assumed',
    ],
    'unverified_surroundings': {'C06': ['node_headers::expandHandleList/shrinkHandleList (assumed stubs: array resizing proved in U-cnt, free-list cleaning loop not verified)', 'mark-and-sweep configuration (no reference counts)'], 'C07': ['storage/ct_styles.cc compute tables: find/addEntry/deleteEntry/removeStales call cacheNode/uncacheNode/isDeadEntry; not under contract']},
    'jobs': [
        job('bytesRequiredForDown', 'bytesRequiredForDown'),
        job('unlinkNode', 'node_headers__unlinkNode', ARRS + ['node_headers__lastUnlink']),
        job('lastUnlink', 'node_headers__lastUnlink', ARRS + ['forest__deleteNode', 'node_headers__recycleNodeHandle']),
        job('uncacheNode', 'node_headers__uncacheNode', ARRS + ['node_headers__lastUncache']),
        job('lastUncache', 'node_headers__lastUncache', ARRS + ['forest__deleteNode', 'node_headers__recycleNodeHandle']),
        job('linkNode', 'node_headers__linkNode', ARRS),
        job('cacheNode', 'node_headers__cacheNode', ARRS),
        job('recycleNodeHandle', 'node_headers__recycleNodeHandle', ARRS + MS + ['bytesRequiredForDown', 'node_headers__shrinkHandleList'], loops=1),
        job('getFreeNodeHandle', 'node_headers__getFreeNodeHandle', ARRS + MS + ['node_headers__expandHandleList'], loops=2, defines=['HDR_FREELIST_SHAPE'], object_bits=10),
        job('swapNodes', 'node_headers__swapNodes', ARRS),
    ],
}
