/* collapse loop of recycleNodeHandle */
#define LOOP_node_headers__recycleNodeHandle_1 \
    __CPROVER_assigns(self->a_last, self->a_freed) \
    __CPROVER_loop_invariant(self->a_last <= __CPROVER_loop_entry(self->a_last) && self->a_last < self->a_size) \
    __CPROVER_loop_invariant(!(self->a_last < ghost_g && ghost_g <= __CPROVER_loop_entry(self->a_last)) || (g_lvl[ghost_g] == 0 && g_cc[ghost_g] == 0)) \
    __CPROVER_decreases(self->a_last)
/* getFreeNodeHandle: scan of the eight lists, discard of heads beyond a_last */
#define LOOP_node_headers__getFreeNodeHandle_1 \
    __CPROVER_assigns(i, found, self->a_lowest_index, __CPROVER_object_upto(self->a_unused, sizeof(self->a_unused))) \
    __CPROVER_loop_invariant(i <= 8 && self->a_lowest_index <= 8 && found == 0) \
    __CPROVER_loop_invariant(FREE_OK(self, self->a_unused[0]) && FREE_OK(self, self->a_unused[1]) && FREE_OK(self, self->a_unused[2]) && FREE_OK(self, self->a_unused[3])) \
    __CPROVER_loop_invariant(FREE_OK(self, self->a_unused[4]) && FREE_OK(self, self->a_unused[5]) && FREE_OK(self, self->a_unused[6]) && FREE_OK(self, self->a_unused[7])) \
    __CPROVER_decreases(8 - i)
/* partial correctness: termination needs list acyclicity (assumed, not proved) */
#define LOOP_node_headers__getFreeNodeHandle_2 \
    __CPROVER_assigns(self->a_unused[i]) \
    __CPROVER_loop_invariant(i < 8 && FREE_OK(self, self->a_unused[i]))
#define LOOP_node_headers__getFreeNodeHandle_3
