/* U-hdr: node header state machine (C06, C07).
 *
 * The four per-node arrays are used through ABSTRACT contracts: each array object is
 * modelled by a ghost C array (g_in, g_cc, g_lvl, g_adr) holding its element values.
 * The abstract contract of every accessor is the U-cnt contract of that accessor
 * (units/cnt/spec.h, spec_arrays.h -- proved there on the real arrays.h/arrays.cc code)
 * with CNT_VAL(c,k) / LVL_VAL / ADR_VAL renamed to the model cell and the point-wise
 * "others_unchanged at an arbitrary ghost index" turned into the frame "assigns only
 * cell i".  That renaming step is not machine-checked (listed in the evidence).
 * Proving the header functions on the concrete arrays was tried first and is out of
 * reach: 51M variables / 224M clauses for lastUnlink, no result in 10 min on SAT, z3, cvc5. */

#define HDR_N 1048576
#define HDR_INF __CPROVER_constant_infinity_uint
unsigned *g_in;                     /* model of *incoming_counts */
unsigned *g_cc;                     /* model of *cache_counts    */
int *g_lvl;                         /* model of *levels          */
unsigned long *g_adr;               /* model of *addresses       */
size_t g_n;                       /* length of the model arrays */
int g_lvl_min, g_lvl_max;         /* value range the level array was constructed for */

struct node_headers *g_hdr;       /* the header object under test (the stubs act on it) */
size_t ghost_g;                   /* arbitrary other handle */

/* ghost event log of the forest stub */
unsigned g_delete_calls;
node_handle g_delete_arg;
unsigned g_shrink_calls, g_expand_calls;

#define IN(p)  g_in[(size_t)(p)]
#define CC(p)  g_cc[(size_t)(p)]
#define LVL(p) g_lvl[(size_t)(p)]
#define ADR(p) g_adr[(size_t)(p)]

#define IS_IN(c) ((c) == g_hdr->incoming_counts)
#define IS_CC(c) ((c) == g_hdr->cache_counts)
#define CM(c, k) (IS_IN(c) ? g_in[k] : g_cc[k])
#define CM_OLD(c, k) (IS_IN(c) ? __CPROVER_old(g_in[k]) : __CPROVER_old(g_cc[k]))
#define IND(b) ((b) ? 1 : 0)
/* every handle on a free list is deleted and uncached (also the stale ones beyond a_last:
 * a_last only grows when all lists have been emptied) */
#define FREE_OK(h, e) ((e) == 0 || ((e) < (h)->a_size && g_lvl[e] == 0 && g_cc[e] == 0))

/* ------------------------------------------------------------------ abstract array contracts */
#define CNT_ABS_REQ(c, i) \
    __CPROVER_requires(g_hdr != NULL && (IS_IN(c) || IS_CC(c)) && g_hdr->incoming_counts != g_hdr->cache_counts) \
    __CPROVER_requires((i) < g_hdr->a_size && g_hdr->a_size <= g_n) \
    __CPROVER_requires(verif_exc == 0)
#define CNT_ABS_ASSIGNS(c, i) \
    __CPROVER_assigns(verif_exc) \
    __CPROVER_assigns(IS_IN(c): g_in[i]) __CPROVER_assigns(IS_CC(c): g_cc[i])

unsigned int counter_array__get(const struct counter_array *self, size_t i)
CNT_ABS_REQ(self, i)
__CPROVER_assigns()
__CPROVER_ensures(__CPROVER_return_value == CM(self, i))                                   /* cnt: reads_current_width */
;
void counter_array__increment(struct counter_array *self, size_t i)
CNT_ABS_REQ(self, i)
__CPROVER_requires(CM(self, i) < 0xffffffffu)
CNT_ABS_ASSIGNS(self, i)
__CPROVER_ensures(verif_exc == 0 || verif_exc == ERR_INSUFFICIENT_MEMORY)                  /* cnt: oom_only */
__CPROVER_ensures(verif_exc != 0 || CM(self, i) == CM_OLD(self, i) + 1)                    /* cnt: plus_one */
;
_Bool counter_array__isZeroBeforeIncrement(struct counter_array *self, size_t i)
CNT_ABS_REQ(self, i)
__CPROVER_requires(CM(self, i) < 0xffffffffu)
CNT_ABS_ASSIGNS(self, i)
__CPROVER_ensures(verif_exc == 0 || verif_exc == ERR_INSUFFICIENT_MEMORY)
__CPROVER_ensures(verif_exc != 0 || __CPROVER_return_value == (CM_OLD(self, i) == 0))     /* cnt: reports_zero */
__CPROVER_ensures(verif_exc != 0 || CM(self, i) == CM_OLD(self, i) + 1)
;
_Bool counter_array__isPositiveAfterDecrement(struct counter_array *self, size_t i)
CNT_ABS_REQ(self, i)
REQUIRES(count_is_positive_before_decrement, CM(self, i) >= 1)                              /* MEDDLY_DCASSERT(dataN[i]) */
CNT_ABS_ASSIGNS(self, i)
__CPROVER_ensures(verif_exc == 0)
__CPROVER_ensures(__CPROVER_return_value == (CM_OLD(self, i) > 1))                         /* cnt: reports_positive */
__CPROVER_ensures(CM(self, i) == CM_OLD(self, i) - 1)                                      /* cnt: minus_one */
;
void counter_array__swap(struct counter_array *self, size_t i, size_t j)
CNT_ABS_REQ(self, i)
__CPROVER_requires(j < g_hdr->a_size)
__CPROVER_assigns(IS_IN(self): g_in[i], g_in[j]) __CPROVER_assigns(IS_CC(self): g_cc[i], g_cc[j])
__CPROVER_ensures(CM(self, i) == CM_OLD(self, j) && CM(self, j) == CM_OLD(self, i))
;

#define LVL_ABS_REQ(c, i) \
    __CPROVER_requires(g_hdr != NULL && (c) == g_hdr->levels && (i) < g_hdr->a_size && g_hdr->a_size <= g_n)
int level_array__get(const struct level_array *self, size_t i)
LVL_ABS_REQ(self, i)
__CPROVER_assigns()
__CPROVER_ensures(__CPROVER_return_value == g_lvl[i])
;
void level_array__set(struct level_array *self, size_t i, int v)
LVL_ABS_REQ(self, i)
REQUIRES(level_fits_array_width, g_lvl_min <= v && v <= g_lvl_max)                          /* MEDDLY_CHECK_RANGE in level_array::set */
__CPROVER_assigns(g_lvl[i])
__CPROVER_ensures(g_lvl[i] == v)
;
void level_array__swap(struct level_array *self, size_t i, size_t j)
LVL_ABS_REQ(self, i)
__CPROVER_requires(j < g_hdr->a_size)
__CPROVER_assigns(g_lvl[i], g_lvl[j])
__CPROVER_ensures(g_lvl[i] == __CPROVER_old(g_lvl[j]) && g_lvl[j] == __CPROVER_old(g_lvl[i]))
;

#define ADR_ABS_REQ(c, i) \
    __CPROVER_requires(g_hdr != NULL && (c) == g_hdr->addresses && (i) < g_hdr->a_size && g_hdr->a_size <= g_n)
unsigned long address_array__get(const struct address_array *self, size_t i)
ADR_ABS_REQ(self, i)
__CPROVER_assigns()
__CPROVER_ensures(__CPROVER_return_value == g_adr[i])
#ifdef HDR_FREELIST_SHAPE
/* ASSUMED free-list shape (local footprint): the next pointer stored in a deleted handle is 0
 * or a handle inside the arrays that is deleted and uncached */
__CPROVER_ensures(g_lvl[i] != 0 || FREE_OK(g_hdr, __CPROVER_return_value))
#endif
;
void address_array__set(struct address_array *self, size_t i, unsigned long v)
ADR_ABS_REQ(self, i)
__CPROVER_requires(verif_exc == 0)
__CPROVER_assigns(verif_exc, g_adr[i])
__CPROVER_ensures(verif_exc == 0 || verif_exc == ERR_INSUFFICIENT_MEMORY)
__CPROVER_ensures(verif_exc != 0 || g_adr[i] == v)                                         /* cnt: stored_exactly */
;
void address_array__swap(struct address_array *self, size_t i, size_t j)
ADR_ABS_REQ(self, i)
__CPROVER_requires(j < g_hdr->a_size)
__CPROVER_assigns(g_adr[i], g_adr[j])
__CPROVER_ensures(g_adr[i] == __CPROVER_old(g_adr[j]) && g_adr[j] == __CPROVER_old(g_adr[i]))
;


/* ------------------------------------------------------------------ header well-formedness */
#define HDR_REQUIRES_WF(h) \
    __CPROVER_requires(__CPROVER_is_fresh(h, sizeof(*(h)))) \
    __CPROVER_requires(2 <= (h)->a_size && (h)->a_size <= g_n && g_n <= HDR_N && (h)->a_last < (h)->a_size) \
    __CPROVER_requires((h)->is_in_cache == NULL && (h)->is_reachable == NULL && (h)->implicit_bits == NULL) \
    __CPROVER_requires(__CPROVER_is_fresh((h)->incoming_counts, 1) && __CPROVER_is_fresh((h)->cache_counts, 1)) \
    __CPROVER_requires(__CPROVER_is_fresh((h)->levels, 1) && __CPROVER_is_fresh((h)->addresses, 1)) \
    __CPROVER_requires(__CPROVER_is_fresh((h)->parent, 1) && __CPROVER_is_fresh((h)->mstats, 1) && __CPROVER_is_fresh((h)->stats, sizeof(struct statset))) \
    __CPROVER_requires(g_hdr == (h)) \
    __CPROVER_requires(g_lvl_min <= 0 && 0 <= g_lvl_max) \
    __CPROVER_requires(verif_exc == 0)

#define HDR_FREELIST_TARGETS(h) \
    __CPROVER_assigns((h)->a_last, (h)->a_freed, (h)->a_lowest_index, __CPROVER_object_upto((h)->a_unused, sizeof((h)->a_unused)))

unsigned bytesRequiredForDown(int a)
__CPROVER_assigns()
ENSURES(between_1_and_4, 1 <= __CPROVER_return_value && __CPROVER_return_value <= 4)
;

/* ------------------------------------------------------------------ stubs (assumed) */
void memstats__incMemUsed(struct memstats *m, size_t b) __CPROVER_requires(1) __CPROVER_ensures(1) __CPROVER_assigns();
void memstats__decMemUsed(struct memstats *m, size_t b) __CPROVER_requires(1) __CPROVER_ensures(1) __CPROVER_assigns();

/* forest::deleteNode (forest.cc:927).  Preconditions = its own sanity checks.
 * Frame: the node itself and -- standing for "any other node", because children are
 * released recursively -- the ghost element; free-list heads and a_last may move. */
void forest__deleteNode(struct forest *f, node_handle p)
__CPROVER_requires(g_hdr != NULL && 1 <= p && (size_t)p <= g_hdr->a_last && g_hdr->a_last < g_hdr->a_size && g_hdr->a_size <= g_n && ghost_g < g_hdr->a_size)
REQUIRES(deleted_node_is_active, LVL(p) != 0)                                  /* MEDDLY_DCASSERT(isActiveNode(p)) */
REQUIRES(deleted_node_is_unreferenced, IN(p) == 0)                             /* MEDDLY_DCASSERT(getNodeInCount(p) == 0) */
__CPROVER_requires(verif_exc == 0)
__CPROVER_assigns(g_delete_calls, g_delete_arg, g_lvl[(size_t)p], g_adr[(size_t)p])
__CPROVER_assigns(ghost_g != (size_t)p: g_in[ghost_g], g_lvl[ghost_g], g_adr[ghost_g])
HDR_FREELIST_TARGETS(g_hdr)
__CPROVER_ensures(g_delete_calls == __CPROVER_old(g_delete_calls) + 1 && g_delete_arg == p)
__CPROVER_ensures(LVL(p) == 0 && ADR(p) == 0)
__CPROVER_ensures((size_t)p <= g_hdr->a_last && g_hdr->a_last < g_hdr->a_size && g_hdr->a_lowest_index <= 8)
__CPROVER_ensures(FREE_OK(g_hdr, g_hdr->a_unused[0]) && FREE_OK(g_hdr, g_hdr->a_unused[1]) && FREE_OK(g_hdr, g_hdr->a_unused[2]) && FREE_OK(g_hdr, g_hdr->a_unused[3]))
/* p itself is never pushed on a free list by its own deletion */
__CPROVER_ensures(g_hdr->a_unused[0] != (size_t)p && g_hdr->a_unused[1] != (size_t)p && g_hdr->a_unused[2] != (size_t)p && g_hdr->a_unused[3] != (size_t)p)
;

void node_headers__shrinkHandleList(struct node_headers *self)
__CPROVER_requires(self == g_hdr && verif_exc == 0)
__CPROVER_assigns(verif_exc, g_shrink_calls, self->a_size, self->a_next_shrink, __CPROVER_object_upto(self->a_unused, sizeof(self->a_unused)))
__CPROVER_ensures(g_shrink_calls == __CPROVER_old(g_shrink_calls) + 1)
__CPROVER_ensures(verif_exc == 0 || verif_exc == ERR_INSUFFICIENT_MEMORY)
__CPROVER_ensures(self->a_last < self->a_size && self->a_size <= __CPROVER_old(self->a_size))
__CPROVER_ensures(FREE_OK(self, self->a_unused[0]) && FREE_OK(self, self->a_unused[1]) && FREE_OK(self, self->a_unused[2]) && FREE_OK(self, self->a_unused[3]))
;
void node_headers__expandHandleList(struct node_headers *self)
__CPROVER_requires(self == g_hdr && verif_exc == 0)
__CPROVER_assigns(verif_exc, g_expand_calls, self->a_size, self->a_next_shrink)
__CPROVER_ensures(g_expand_calls == __CPROVER_old(g_expand_calls) + 1)
__CPROVER_ensures(verif_exc == 0 || verif_exc == ERR_INSUFFICIENT_MEMORY)
__CPROVER_ensures(verif_exc != 0 || (self->a_last + 1 < self->a_size && self->a_size <= g_n && self->a_size >= __CPROVER_old(self->a_size)))
;

#define HEADS_OK(h) (FREE_OK(h, (h)->a_unused[0]) && FREE_OK(h, (h)->a_unused[1]) && FREE_OK(h, (h)->a_unused[2]) && FREE_OK(h, (h)->a_unused[3]))
/* ------------------------------------------------------------------ the recycling gate */
/* every caller must establish the two named preconditions: this is the gating lemma of
 * C06 ("handles are reused only after that") and C07 ("a handle is not reused while a
 * cache entry mentions it") */
#define RECYCLED(h, p) ((h)->a_last < (size_t)(p) || (h)->a_unused[0] == (size_t)(p) || (h)->a_unused[1] == (size_t)(p) || (h)->a_unused[2] == (size_t)(p) || (h)->a_unused[3] == (size_t)(p))
void node_headers__recycleNodeHandle(struct node_headers *self, node_handle p)
HDR_REQUIRES_WF(self)
__CPROVER_requires(1 <= p && (size_t)p <= self->a_last)
REQUIRES(recycled_handle_not_in_any_cache, CC(p) == 0)          /* MEDDLY_DCASSERT(0==getNodeCacheCount(p)) */
REQUIRES(recycled_handle_is_deleted, LVL(p) == 0)               /* MEDDLY_DCASSERT(isDeleted(p)) in setNextOf */
__CPROVER_requires(HEADS_OK(self))                              /* free-list shape at the heads (preserved, see ensures) */
__CPROVER_requires(self->a_lowest_index <= 8 && HEADS_OK(self))
__CPROVER_assigns(verif_exc, g_shrink_calls, g_adr[(size_t)p], self->a_size, self->a_next_shrink)
HDR_FREELIST_TARGETS(self)
ENSURES(arrays_never_grow, self->a_size <= __CPROVER_old(self->a_size))
ENSURES(oom_only, verif_exc == 0 || verif_exc == ERR_INSUFFICIENT_MEMORY)
ENSURES(handle_is_free, verif_exc != 0 || RECYCLED(self, p))
#define PUSHED(h, p, k) ((h)->a_unused[k] == (size_t)(p) && ADR(p) == __CPROVER_old((h)->a_unused[k]) && (h)->a_lowest_index <= (k))
ENSURES(pushed_on_a_free_list, verif_exc != 0 || g_shrink_calls != __CPROVER_old(g_shrink_calls) || PUSHED(self, p, 0) || PUSHED(self, p, 1) || PUSHED(self, p, 2) || PUSHED(self, p, 3))
ENSURES(free_list_shape_preserved, verif_exc != 0 || (HEADS_OK(self) && (g_shrink_calls != __CPROVER_old(g_shrink_calls) || FREE_OK(self, ADR(p)))))
ENSURES(a_last_never_grows, self->a_last <= __CPROVER_old(self->a_last) && self->a_last < self->a_size)
/* handles dropped from the end are all deleted and uncached */
ENSURES(collapsed_handles_are_dead, verif_exc != 0 || !(self->a_last < ghost_g && ghost_g <= __CPROVER_old(self->a_last)) || (LVL(ghost_g) == 0 && CC(ghost_g) == 0))
;

#define NOT_A_HEAD(h, p) ((h)->a_unused[0] != (size_t)(p) && (h)->a_unused[1] != (size_t)(p) && (h)->a_unused[2] != (size_t)(p) && (h)->a_unused[3] != (size_t)(p))
/* ------------------------------------------------------------------ link / unlink */
void node_headers__lastUnlink(struct node_headers *self, node_handle p)
HDR_REQUIRES_WF(self)
__CPROVER_requires(1 <= p && (size_t)p <= self->a_last && ghost_g < self->a_size)
__CPROVER_requires(LVL(p) != 0 && IN(p) == 0)             /* reached only when the count hit zero on an active node */
__CPROVER_requires(NOT_A_HEAD(self, p))                     /* free-list shape: heads <= a_last are deleted handles, p is active */
__CPROVER_requires(self->a_lowest_index <= 8 && HEADS_OK(self))
__CPROVER_assigns(verif_exc, g_delete_calls, g_delete_arg, g_shrink_calls, g_lvl[(size_t)p], g_adr[(size_t)p], self->a_size, self->a_next_shrink)
__CPROVER_assigns(ghost_g != (size_t)p: g_in[ghost_g], g_lvl[ghost_g], g_adr[ghost_g])
HDR_FREELIST_TARGETS(self)
ENSURES(oom_only, verif_exc == 0 || verif_exc == ERR_INSUFFICIENT_MEMORY)
ENSURES(uncached_node_is_deleted_once, __CPROVER_old(CC(p)) != 0 || (g_delete_calls == __CPROVER_old(g_delete_calls) + 1 && g_delete_arg == p && LVL(p) == 0))
ENSURES(uncached_node_handle_is_recycled, __CPROVER_old(CC(p)) != 0 || verif_exc != 0 || RECYCLED(self, p))
ENSURES(pessimistic_deletes_cached_node, __CPROVER_old(CC(p)) == 0 || !self->pessimistic || (g_delete_calls == __CPROVER_old(g_delete_calls) + 1 && g_delete_arg == p && LVL(p) == 0))
ENSURES(cached_node_handle_is_kept, __CPROVER_old(CC(p)) == 0 || ((size_t)p <= self->a_last && NOT_A_HEAD(self, p)))
ENSURES(optimistic_keeps_cached_node, __CPROVER_old(CC(p)) == 0 || self->pessimistic || (g_delete_calls == __CPROVER_old(g_delete_calls) && LVL(p) == __CPROVER_old(LVL(p))))
ENSURES(cache_count_untouched, CC(p) == __CPROVER_old(CC(p)))
;

void node_headers__unlinkNode(struct node_headers *self, node_handle p)
HDR_REQUIRES_WF(self)
__CPROVER_requires(p < 1 || ((size_t)p <= self->a_last && ghost_g < self->a_size))
__CPROVER_requires(p < 1 || LVL(p) != 0)                   /* MEDDLY_DCASSERT(isActive(p)) */
__CPROVER_requires(p < 1 || NOT_A_HEAD(self, p))
REQUIRES(unlinked_node_has_a_reference, p < 1 || IN(p) >= 1)
__CPROVER_requires(self->a_lowest_index <= 8 && HEADS_OK(self))
__CPROVER_assigns(verif_exc, g_delete_calls, g_delete_arg, g_shrink_calls, self->a_size, self->a_next_shrink)
__CPROVER_assigns(p >= 1: g_in[(size_t)p], g_lvl[(size_t)p], g_adr[(size_t)p])
__CPROVER_assigns(p >= 1 && ghost_g != (size_t)p: g_in[ghost_g], g_lvl[ghost_g], g_adr[ghost_g])
HDR_FREELIST_TARGETS(self)
ENSURES(terminals_are_not_counted, p >= 1 || (g_delete_calls == __CPROVER_old(g_delete_calls) && self->a_last == __CPROVER_old(self->a_last) && verif_exc == 0))
ENSURES(count_drops_by_exactly_one, p < 1 || IN(p) == __CPROVER_old(IN(p)) - 1)
ENSURES(still_referenced_node_untouched, p < 1 || __CPROVER_old(IN(p)) == 1 || (g_delete_calls == __CPROVER_old(g_delete_calls) && LVL(p) == __CPROVER_old(LVL(p)) && self->a_last == __CPROVER_old(self->a_last) && verif_exc == 0))
ENSURES(last_reference_uncached_node_reclaimed, p < 1 || __CPROVER_old(IN(p)) != 1 || __CPROVER_old(CC(p)) != 0 || (g_delete_calls == __CPROVER_old(g_delete_calls) + 1 && g_delete_arg == p && LVL(p) == 0 && (verif_exc != 0 || RECYCLED(self, p))))
ENSURES(last_reference_cached_node_handle_kept, p < 1 || __CPROVER_old(IN(p)) != 1 || __CPROVER_old(CC(p)) == 0 || ((size_t)p <= self->a_last && NOT_A_HEAD(self, p)))
ENSURES(cache_count_untouched, p < 1 || CC(p) == __CPROVER_old(CC(p)))
;

node_handle node_headers__linkNode(struct node_headers *self, node_handle p)
HDR_REQUIRES_WF(self)
__CPROVER_requires(p < 1 || (size_t)p <= self->a_last)
__CPROVER_requires(p < 1 || (LVL(p) != 0 && IN(p) < 0xffffffffu))
__CPROVER_assigns(verif_exc, self->stats->reclaimed_nodes)
__CPROVER_assigns(p >= 1: g_in[(size_t)p])
ENSURES(returns_argument, verif_exc != 0 || __CPROVER_return_value == p)
ENSURES(count_rises_by_exactly_one, verif_exc != 0 || p < 1 || IN(p) == __CPROVER_old(IN(p)) + 1)
ENSURES(oom_only, verif_exc == 0 || verif_exc == ERR_INSUFFICIENT_MEMORY)
;

/* ------------------------------------------------------------------ cache / uncache */
void node_headers__cacheNode(struct node_headers *self, node_handle p)
HDR_REQUIRES_WF(self)
__CPROVER_requires(p < 1 || (size_t)p <= self->a_last)
__CPROVER_requires(p < 1 || (LVL(p) != 0 && CC(p) < 0xffffffffu))     /* MEDDLY_DCASSERT(isActive(p)): only live nodes enter a cache */
__CPROVER_assigns(verif_exc)
__CPROVER_assigns(p >= 1: g_cc[(size_t)p])
ENSURES(count_rises_by_exactly_one, verif_exc != 0 || p < 1 || CC(p) == __CPROVER_old(CC(p)) + 1)
ENSURES(oom_only, verif_exc == 0 || verif_exc == ERR_INSUFFICIENT_MEMORY)
;

void node_headers__lastUncache(struct node_headers *self, node_handle p)
HDR_REQUIRES_WF(self)
__CPROVER_requires(1 <= p && (size_t)p <= self->a_last && ghost_g < self->a_size)
__CPROVER_requires(CC(p) == 0)
__CPROVER_requires(self->a_lowest_index <= 8 && HEADS_OK(self))
__CPROVER_assigns(verif_exc, g_delete_calls, g_delete_arg, g_shrink_calls, g_lvl[(size_t)p], g_adr[(size_t)p], self->a_size, self->a_next_shrink)
__CPROVER_assigns(ghost_g != (size_t)p: g_in[ghost_g], g_lvl[ghost_g], g_adr[ghost_g])
HDR_FREELIST_TARGETS(self)
ENSURES(oom_only, verif_exc == 0 || verif_exc == ERR_INSUFFICIENT_MEMORY)
ENSURES(dead_handle_is_recycled, __CPROVER_old(LVL(p)) != 0 || (verif_exc != 0 || RECYCLED(self, p)) && g_delete_calls == __CPROVER_old(g_delete_calls))
ENSURES(unreferenced_live_node_reclaimed, __CPROVER_old(LVL(p)) == 0 || __CPROVER_old(IN(p)) != 0 || (g_delete_calls == __CPROVER_old(g_delete_calls) + 1 && g_delete_arg == p && LVL(p) == 0 && (verif_exc != 0 || RECYCLED(self, p))))
ENSURES(referenced_live_node_untouched, __CPROVER_old(LVL(p)) == 0 || __CPROVER_old(IN(p)) == 0 || (g_delete_calls == __CPROVER_old(g_delete_calls) && LVL(p) == __CPROVER_old(LVL(p)) && self->a_last == __CPROVER_old(self->a_last) && verif_exc == 0))
;

void node_headers__uncacheNode(struct node_headers *self, node_handle p)
HDR_REQUIRES_WF(self)
__CPROVER_requires(p < 1 || ((size_t)p <= self->a_last && ghost_g < self->a_size))
REQUIRES(uncached_node_has_an_entry, p < 1 || CC(p) >= 1)
__CPROVER_requires(self->a_lowest_index <= 8 && HEADS_OK(self))
__CPROVER_assigns(verif_exc, g_delete_calls, g_delete_arg, g_shrink_calls, self->a_size, self->a_next_shrink)
__CPROVER_assigns(p >= 1: g_cc[(size_t)p], g_lvl[(size_t)p], g_adr[(size_t)p])
__CPROVER_assigns(p >= 1 && ghost_g != (size_t)p: g_in[ghost_g], g_lvl[ghost_g], g_adr[ghost_g])
HDR_FREELIST_TARGETS(self)
ENSURES(terminals_are_not_counted, p >= 1 || (g_delete_calls == __CPROVER_old(g_delete_calls) && self->a_last == __CPROVER_old(self->a_last) && verif_exc == 0))
ENSURES(count_drops_by_exactly_one, p < 1 || CC(p) == __CPROVER_old(CC(p)) - 1)
ENSURES(still_cached_handle_is_kept, p < 1 || __CPROVER_old(CC(p)) == 1 || (g_delete_calls == __CPROVER_old(g_delete_calls) && LVL(p) == __CPROVER_old(LVL(p)) && self->a_last == __CPROVER_old(self->a_last) && verif_exc == 0 && self->a_unused[0] == __CPROVER_old(self->a_unused[0]) && self->a_unused[1] == __CPROVER_old(self->a_unused[1]) && self->a_unused[2] == __CPROVER_old(self->a_unused[2]) && self->a_unused[3] == __CPROVER_old(self->a_unused[3])))
ENSURES(last_entry_of_dead_handle_recycles_it, p < 1 || __CPROVER_old(CC(p)) != 1 || __CPROVER_old(LVL(p)) != 0 || verif_exc != 0 || RECYCLED(self, p))
ENSURES(last_entry_of_unreferenced_node_reclaims_it, p < 1 || __CPROVER_old(CC(p)) != 1 || __CPROVER_old(LVL(p)) == 0 || __CPROVER_old(IN(p)) != 0 || (g_delete_calls == __CPROVER_old(g_delete_calls) + 1 && g_delete_arg == p && LVL(p) == 0 && (verif_exc != 0 || RECYCLED(self, p))))
ENSURES(last_entry_of_referenced_node_keeps_it, p < 1 || __CPROVER_old(CC(p)) != 1 || __CPROVER_old(LVL(p)) == 0 || __CPROVER_old(IN(p)) == 0 || (g_delete_calls == __CPROVER_old(g_delete_calls) && LVL(p) == __CPROVER_old(LVL(p))))
;

/* ------------------------------------------------------------------ handle allocation */
node_handle node_headers__getFreeNodeHandle(struct node_headers *self)
HDR_REQUIRES_WF(self)
__CPROVER_requires(self->a_sweep == SIZE_MAX)                /* reference-count mode: never set by sweepAllInCacheBits */
__CPROVER_requires(self->a_lowest_index <= 8 && self->a_last + 2 < HDR_N)
/* ASSUMED free-list shape at the heads (local footprint) */
__CPROVER_requires(FREE_OK(self, self->a_unused[0]) && FREE_OK(self, self->a_unused[1]) && FREE_OK(self, self->a_unused[2]) && FREE_OK(self, self->a_unused[3]))
__CPROVER_requires(FREE_OK(self, self->a_unused[4]) && FREE_OK(self, self->a_unused[5]) && FREE_OK(self, self->a_unused[6]) && FREE_OK(self, self->a_unused[7]))
/* instance of "everything beyond a_last is dead": the next fresh handle */
__CPROVER_requires(self->a_last + 1 < self->a_size ==> (LVL(self->a_last + 1) == 0 && CC(self->a_last + 1) == 0))
__CPROVER_assigns(verif_exc, g_expand_calls, self->a_size, self->a_next_shrink)
HDR_FREELIST_TARGETS(self)
ENSURES(oom_only, verif_exc == 0 || verif_exc == ERR_INSUFFICIENT_MEMORY)
ENSURES(handle_in_range, verif_exc != 0 || (1 <= __CPROVER_return_value && (size_t)__CPROVER_return_value <= self->a_last && self->a_last < self->a_size))
ENSURES(fresh_or_recycled, verif_exc != 0 || (size_t)__CPROVER_return_value == __CPROVER_old(self->a_last) + 1 || (size_t)__CPROVER_return_value <= __CPROVER_old(self->a_last))
ENSURES(reused_handle_is_dead_and_uncached, verif_exc != 0 || g_expand_calls != __CPROVER_old(g_expand_calls) || (LVL(__CPROVER_return_value) == 0 && CC(__CPROVER_return_value) == 0))
ENSURES(a_last_grows_by_at_most_one, verif_exc != 0 || self->a_last == __CPROVER_old(self->a_last) || self->a_last == __CPROVER_old(self->a_last) + 1)
;

void node_headers__swapNodes(struct node_headers *self, node_handle p, node_handle q, _Bool swap_incounts)
HDR_REQUIRES_WF(self)
__CPROVER_requires(1 <= p && (size_t)p <= self->a_last && 1 <= q && (size_t)q <= self->a_last && p != q)
__CPROVER_assigns(g_lvl[(size_t)p], g_lvl[(size_t)q], g_adr[(size_t)p], g_adr[(size_t)q], g_cc[(size_t)p], g_cc[(size_t)q], g_in[(size_t)p], g_in[(size_t)q])
ENSURES(levels_swapped, LVL(p) == __CPROVER_old(LVL(q)) && LVL(q) == __CPROVER_old(LVL(p)))
ENSURES(addresses_swapped, ADR(p) == __CPROVER_old(ADR(q)) && ADR(q) == __CPROVER_old(ADR(p)))
ENSURES(cache_counts_swapped, CC(p) == __CPROVER_old(CC(q)) && CC(q) == __CPROVER_old(CC(p)))
ENSURES(incoming_swapped_on_request, swap_incounts ? (IN(p) == __CPROVER_old(IN(q)) && IN(q) == __CPROVER_old(IN(p))) : (IN(p) == __CPROVER_old(IN(p)) && IN(q) == __CPROVER_old(IN(q))))
;
