/* U-hash: the node hash is a function of the pushed word sequence only (C01, C02). */
unsigned __CPROVER_uninterpreted_mix_a(unsigned, unsigned, unsigned);
unsigned __CPROVER_uninterpreted_mix_b(unsigned, unsigned, unsigned);
unsigned __CPROVER_uninterpreted_mix_c(unsigned, unsigned, unsigned);

/* abstraction of the Jenkins mixing steps: some deterministic function of its three arguments */
void hash_stream__mix3(unsigned *a, unsigned *b, unsigned *c)
__CPROVER_requires(__CPROVER_rw_ok(a, sizeof(unsigned)) && __CPROVER_rw_ok(b, sizeof(unsigned)) && __CPROVER_rw_ok(c, sizeof(unsigned)))
__CPROVER_assigns(*a, *b, *c)
__CPROVER_ensures(*a == __CPROVER_uninterpreted_mix_a(__CPROVER_old(*a), __CPROVER_old(*b), __CPROVER_old(*c)))
__CPROVER_ensures(*b == __CPROVER_uninterpreted_mix_b(__CPROVER_old(*a), __CPROVER_old(*b), __CPROVER_old(*c)))
__CPROVER_ensures(*c == __CPROVER_uninterpreted_mix_c(__CPROVER_old(*a), __CPROVER_old(*b), __CPROVER_old(*c)))
;
void hash_stream__final_mix3(unsigned *a, unsigned *b, unsigned *c)
__CPROVER_requires(__CPROVER_rw_ok(a, sizeof(unsigned)) && __CPROVER_rw_ok(b, sizeof(unsigned)) && __CPROVER_rw_ok(c, sizeof(unsigned)))
__CPROVER_assigns(*a, *b, *c)
__CPROVER_ensures(*a == __CPROVER_uninterpreted_mix_a(__CPROVER_old(*a), __CPROVER_old(*b), ~__CPROVER_old(*c)))
__CPROVER_ensures(*b == __CPROVER_uninterpreted_mix_b(__CPROVER_old(*a), __CPROVER_old(*b), ~__CPROVER_old(*c)))
__CPROVER_ensures(*c == __CPROVER_uninterpreted_mix_c(__CPROVER_old(*a), __CPROVER_old(*b), ~__CPROVER_old(*c)))
;

#define HS_EQ(x, y) ((x)->z[0] == (y)->z[0] && (x)->z[1] == (y)->z[1] && (x)->z[2] == (y)->z[2] && (x)->slot == (y)->slot)
#define HS_REQ(s) __CPROVER_requires(__CPROVER_is_fresh(s, sizeof(*(s))) && 0 <= (s)->slot && (s)->slot <= 3)

int lemma_mix_deterministic(unsigned a, unsigned b, unsigned c)
__CPROVER_assigns()
ENSURES(result_depends_on_arguments_only, __CPROVER_return_value == 1)
;
int lemma_final_mix_deterministic(unsigned a, unsigned b, unsigned c)
__CPROVER_assigns()
ENSURES(result_depends_on_arguments_only, __CPROVER_return_value == 1)
;
/* s and t are two copies of the same stream state */
int lemma_push2(struct hash_stream *s, struct hash_stream *t, unsigned v1, unsigned v2)
HS_REQ(s) HS_REQ(t)
__CPROVER_requires(HS_EQ(s, t) && verif_exc == 0)
__CPROVER_assigns(verif_exc, __CPROVER_object_whole(s), __CPROVER_object_whole(t))
ENSURES(no_error, verif_exc == 0)
ENSURES(pair_push_equals_two_single_pushes, HS_EQ(s, t))
;
int lemma_start(struct hash_stream *s, struct hash_stream *t, unsigned init)
__CPROVER_requires(__CPROVER_is_fresh(s, sizeof(*s)) && __CPROVER_is_fresh(t, sizeof(*t)))
__CPROVER_assigns(__CPROVER_object_whole(s), __CPROVER_object_whole(t))
ENSURES(seeded_start_equals_start_then_push, HS_EQ(s, t))
;
int lemma_push_bytes4(struct hash_stream *s, struct hash_stream *t, const unsigned *w)
HS_REQ(s) HS_REQ(t)
__CPROVER_requires(HS_EQ(s, t) && verif_exc == 0 && __CPROVER_is_fresh(w, 4))
__CPROVER_assigns(verif_exc, __CPROVER_object_whole(s), __CPROVER_object_whole(t))
ENSURES(no_error, verif_exc == 0)
ENSURES(four_bytes_equal_one_word_push, HS_EQ(s, t))
;
int lemma_push_bytes8(struct hash_stream *s, struct hash_stream *t, const unsigned *w)
HS_REQ(s) HS_REQ(t)
__CPROVER_requires(HS_EQ(s, t) && verif_exc == 0 && __CPROVER_is_fresh(w, 8))
__CPROVER_assigns(verif_exc, __CPROVER_object_whole(s), __CPROVER_object_whole(t))
ENSURES(no_error, verif_exc == 0)
ENSURES(eight_bytes_equal_two_word_pushes, HS_EQ(s, t))
;
unsigned lemma_finish(struct hash_stream *s, struct hash_stream *t)
HS_REQ(s) HS_REQ(t)
__CPROVER_requires(s->z[0] == t->z[0] && s->z[1] == t->z[1] && s->z[2] == t->z[2])
__CPROVER_assigns(__CPROVER_object_whole(s), __CPROVER_object_whole(t))
ENSURES(hash_is_function_of_accumulators, __CPROVER_return_value == 1)
;
