H = 'src/hash_stream.h'
def hf(name, **kw):
    d = dict(cls='hash_stream', name=name, file=H)
    d.update(kw)
    return d

def job(name, enforce, replace=(), props=('C01', 'C02'), **kw):
    d = dict(name=name, entry='h_' + name, enforce=enforce, replace=list(replace), props=list(props))
    d.update(kw)
    return d

UNIT = {
    'name': 'hash',
    'classes': {'hash_stream': {'file': H}},
    'functions': [
        hf('rot'),
        hf('mix', sel=r'^unsigned &a', cname='hash_stream__mix3'),
        hf('final_mix', sel=r'^unsigned &a', cname='hash_stream__final_mix3'),
        hf('mix', sel=r'^$', cname='hash_stream__mix0'),
        hf('final_mix', sel=r'^$', cname='hash_stream__final_mix0'),
        hf('start', sel=r'^unsigned init$', cname='hash_stream__start1'),
        hf('start', sel=r'^$', cname='hash_stream__start0'),
        hf('finish'),
        hf('push', sel=r'^unsigned v$', cname='hash_stream__push1'),
        hf('push', sel=r'^unsigned v1, unsigned v2$', cname='hash_stream__push2', fires={'R1': 1}),
        hf('push', sel=r'^const void\* data', cname='hash_stream__push_bytes', argc_key='bytes', loops=1, fires={'R1': 1}),
    ],
    'extra_typedefs': [],
    'stubs': [
        'hash_stream::mix(a,b,c) / final_mix(a,b,c) in the grouping lemmas: replaced by an uninterpreted deterministic function of (a,b,c) '
        '(__CPROVER_uninterpreted_*); justified by the jobs mix_deterministic / final_mix_deterministic on the real bodies '
        '(result depends on the three arguments only, nothing else is written)',
    ],
    'assumptions': [
        'push(const void*, bytes) is covered for bytes in {4, 8} (int/float and long/double edge values and header words: the only sizes node hashing uses)',
    ],
    'unverified_surroundings': {
        'C01': ['unique_table chains and rehash on expand/shrink (unique_table.cc)'],
    },
    'jobs': [
        job('mix_deterministic', 'lemma_mix_deterministic'),
        job('final_mix_deterministic', 'lemma_final_mix_deterministic'),
        job('push2_is_two_pushes', 'lemma_push2', ['hash_stream__mix3']),
        job('start_init_is_start_then_push', 'lemma_start', ['hash_stream__mix3']),
        job('push_bytes4_is_one_push', 'lemma_push_bytes4', ['hash_stream__mix3'], unwindset=['hash_stream__push_bytes.0:3'], loop_contracts=False),
        job('push_bytes8_is_two_pushes', 'lemma_push_bytes8', ['hash_stream__mix3'], unwindset=['hash_stream__push_bytes.0:4'], loop_contracts=False),
        job('finish_is_function_of_state', 'lemma_finish', ['hash_stream__final_mix3']),
    ],
}
