int lemma_mix_deterministic(unsigned a, unsigned b, unsigned c)
{
    unsigned a1 = a, b1 = b, c1 = c, a2 = a, b2 = b, c2 = c;
    hash_stream__mix3(&a1, &b1, &c1);
    hash_stream__mix3(&a2, &b2, &c2);
    return a1 == a2 && b1 == b2 && c1 == c2;
}
int lemma_final_mix_deterministic(unsigned a, unsigned b, unsigned c)
{
    unsigned a1 = a, b1 = b, c1 = c, a2 = a, b2 = b, c2 = c;
    hash_stream__final_mix3(&a1, &b1, &c1);
    hash_stream__final_mix3(&a2, &b2, &c2);
    return a1 == a2 && b1 == b2 && c1 == c2;
}
int lemma_push2(struct hash_stream *s, struct hash_stream *t, unsigned v1, unsigned v2)
{
    hash_stream__push2(s, v1, v2);
    if (verif_exc) return 0;
    hash_stream__push1(t, v1);
    hash_stream__push1(t, v2);
    return 0;
}
int lemma_start(struct hash_stream *s, struct hash_stream *t, unsigned init)
{
    hash_stream__start1(s, init);
    hash_stream__start0(t);
    hash_stream__push1(t, init);
    return 0;
}
int lemma_push_bytes4(struct hash_stream *s, struct hash_stream *t, const unsigned *w)
{
    hash_stream__push_bytes(s, w, 4);
    if (verif_exc) return 0;
    hash_stream__push1(t, w[0]);
    return 0;
}
int lemma_push_bytes8(struct hash_stream *s, struct hash_stream *t, const unsigned *w)
{
    hash_stream__push_bytes(s, w, 8);
    if (verif_exc) return 0;
    hash_stream__push1(t, w[0]);
    hash_stream__push1(t, w[1]);
    return 0;
}
unsigned lemma_finish(struct hash_stream *s, struct hash_stream *t)
{
    return hash_stream__finish(s) == hash_stream__finish(t);
}
void h_mix_deterministic(void) { unsigned w_a = nondet_unsigned(), w_b = nondet_unsigned(), w_c = nondet_unsigned(); lemma_mix_deterministic(w_a, w_b, w_c); CANARY(); }
void h_final_mix_deterministic(void) { unsigned w_a = nondet_unsigned(), w_b = nondet_unsigned(), w_c = nondet_unsigned(); lemma_final_mix_deterministic(w_a, w_b, w_c); CANARY(); }
void h_push2_is_two_pushes(void) { struct hash_stream *s, *t; unsigned w_v1 = nondet_unsigned(), w_v2 = nondet_unsigned(); lemma_push2(s, t, w_v1, w_v2); CANARY(); }
void h_start_init_is_start_then_push(void) { struct hash_stream *s, *t; unsigned w_i = nondet_unsigned(); lemma_start(s, t, w_i); CANARY(); }
void h_push_bytes4_is_one_push(void) { struct hash_stream *s, *t; unsigned *w; lemma_push_bytes4(s, t, w); CANARY(); }
void h_push_bytes8_is_two_pushes(void) { struct hash_stream *s, *t; unsigned *w; lemma_push_bytes8(s, t, w); CANARY(); }
void h_finish_is_function_of_state(void) { struct hash_stream *s, *t; lemma_finish(s, t); CANARY(); }
