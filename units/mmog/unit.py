# U-mmog: original_grid<int>::requestChunk (C18, C12): which hole is handed out, and the re-insertion of the large-hole list when the maximum request grows.
A = 'src/memory_managers/orig_grid.cc'
H = 'src/memory_managers/hole_base.h'
M = 'src/memory.h'
def job(name, enforce, replace=(), props=('C18', 'C12'), **kw):
    d = dict(name=name, entry='h_' + name, enforce=enforce, replace=list(replace), props=list(props))
    d.update(kw)
    return d
def hf(name, **kw):
    d = dict(cls='original_grid', src_cls='hole_manager', name=name, file=H)
    d.update(kw)
    return d
def af(name, **kw):
    d = dict(cls='original_grid', name=name, file=A)
    d.update(kw)
    return d
ST = ['original_grid__incMemUsed', 'original_grid__Next_ro', 'original_grid__Up_ro', 'original_grid__Down_ro', 'original_grid__addToGrid', 'original_grid__removeFromGrid',
      'original_grid__recycleChunk', 'original_grid__allocateFromArray', 'original_grid__clearHole']
UNIT = {
    'name': 'mmog',
    'typedefs': [('src/defines.h', 'node_address')],
    'subst': {'INT': 'int'},
    'classes': {
        'original_grid': {'file': A, 'bases': ['memory_manager', 'hole_manager'], 'base_files': {'memory_manager': M, 'hole_manager': H},
                          'fields': ['data', 'data_alloc', 'last_used_slot', 'MSB', 'chunk_base', 'max_request', 'large_holes', 'holes_bottom', 'holes_top', 'holes_current']},
    },
    'text_subst': [
        (r'hole_manager<INT>::', '', A),
        (r'memory_manager::', '', A),
        (r'printf\([^;]*;', ';', A), (r'printf\([^;]*;', ';', H),
        # the read-only list / grid accessors of the hole index are used through assumed contracts (list shape); the overloads returning references are not used here
        (r'(?<![\w.])Next\(holes_current\)', 'Next_ro(holes_current)', A), (r'(?<![\w.])Up\(', 'Up_ro(', A), (r'(?<![\w.])Down\(', 'Down_ro(', A),
        # the links of the large list are READ from the arena (real accessor); the list shape is assumed at the point of the read - unless the hole has just been re-filed (ghost g_refiled)
        (r'INT next = Next\(curr\);', 'INT next = Next(curr); VERIF_LINK_OF(curr, next);', A),
    ],
    'forwarders': [
        (A, 'original_grid', 'isHole', r'^\{\s*return hole_manager<INT>::isHole\(h\);\s*\}$'),
        (A, 'original_grid', 'getHoleSize', r'^\{\s*return hole_manager<INT>::getHoleSize\(h\);\s*\}$'),
    ],
    'extra_methods': [
        dict(cls='original_grid', name='incMemUsed', argc=1, cname='original_grid__incMemUsed'),
        dict(cls='original_grid', name='Next_ro', argc=1, cname='original_grid__Next_ro'),
        dict(cls='original_grid', name='Up_ro', argc=1, cname='original_grid__Up_ro'),
        dict(cls='original_grid', name='Down_ro', argc=1, cname='original_grid__Down_ro'),
        dict(cls='original_grid', name='addToGrid', argc=1, cname='original_grid__addToGrid'),
        dict(cls='original_grid', name='removeFromGrid', argc=1, cname='original_grid__removeFromGrid'),
        dict(cls='original_grid', name='recycleChunk', argc=2, cname='original_grid__recycleChunk'),
        dict(cls='original_grid', name='allocateFromArray', argc=1, cname='original_grid__allocateFromArray'),
        dict(cls='original_grid', name='clearHole', argc=2, cname='original_grid__clearHole'),
    ],
    'extra_free': {'VERIF_LINK_OF': 'VERIF_LINK_OF'},
    'functions': [
        hf('isHole'), hf('getHoleSize'), hf('readSlot'), af('Next', sel=r'^node_address h$', nth=0),
        af('requestChunk', where='out', loops=3),
    ],
    'stubs': [
        'original_grid::Next / Up / Down (read-only uses): the hole index. ASSUMED list / grid shape: the successor in a row is 0 or another hole of the same size, disjoint from its predecessor; '
        'the row above / below is 0 or an index hole; the head of the large list is 0 or a hole larger than every request so far',
        'addToGrid(h): classifies h with the CURRENT max_request - larger goes to the head of the large list, the rest into the grid; writes only pointer slots of holes',
        'removeFromGrid, recycleChunk (leftover), allocateFromArray (U-mmag), clearHole, memory statistics: ghost-recorded',
    ],
    'assumptions': ['INT = int; hole sizes below 2^30'],
    'unverified_surroundings': {'C18': ['orig_grid.cc addToGrid, removeFromGrid, recycleChunk'], 'C12': ['orig_grid.cc addToGrid, removeFromGrid, recycleChunk']},
    'jobs': [
        job('og_requestChunk', 'original_grid__requestChunk', ST, loops=3, object_bits=12, tier='thorough', timeout=7200),      # ~11 min: thorough tier only
    ],
}
