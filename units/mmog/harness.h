void h_og_requestChunk(void)
{
    struct original_grid *m; size_t *n;
    g_request = nondet_size_t(); g_adds = nondet_unsigned(); g_removes = nondet_unsigned(); g_recycles = nondet_unsigned(); g_allocs = nondet_unsigned();
    g_alloc_result = nondet_ulong(); g_next = nondet_int(); g_up = nondet_int(); g_down = nondet_int(); ghost_g = nondet_size_t(); g_refiled = 0;
    original_grid__requestChunk(m, n);
    CANARY();
}
