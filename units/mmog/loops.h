/* re-insertion of the large list: whatever is put back at its head is larger than the maximum the manager knows */
#define LOOP_original_grid__requestChunk_1 \
    __CPROVER_assigns(curr, g_adds, g_refiled, self->large_holes, self->holes_bottom, self->holes_top, self->holes_current, __CPROVER_object_whole(self->data)) \
    __CPROVER_loop_invariant(curr >= 0 && HOLE_OR_0(self, curr) && self->data[0] == 0 && (curr == 0 || (size_t)curr != g_refiled)) \
    __CPROVER_loop_invariant(self->large_holes >= 0 && (self->large_holes == 0 || (HOLE_OK(self, self->large_holes) && TAGSIZE(self, self->large_holes) > self->max_request))) \
    __CPROVER_loop_invariant(GRID_OR_0(self, self->holes_bottom) && GRID_OR_0(self, self->holes_current) && self->holes_bottom >= 0 && self->holes_current >= 0)
#define LOOP_original_grid__requestChunk_2 \
    __CPROVER_assigns(self->holes_current) \
    __CPROVER_loop_invariant(self->holes_current >= 1 && GRID_OR_0(self, self->holes_current))
#define LOOP_original_grid__requestChunk_3 \
    __CPROVER_assigns(self->holes_current) \
    __CPROVER_loop_invariant(self->holes_current >= 1 && GRID_OR_0(self, self->holes_current))
