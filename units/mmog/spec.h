/* U-mmog: original_grid<int>::requestChunk (C18 / C12) */
#define OG_MAXALLOC (1ul << 30)
size_t g_request;                      /* witness: the number of slots asked for */
unsigned g_adds, g_removes, g_recycles, g_allocs; node_address g_remove_arg, g_recycle_at; size_t g_recycle_n;
node_address g_alloc_result;
int g_next, g_up, g_down;              /* what the hole index answers (assumed shape, see the contracts) */
size_t ghost_g;                        /* a slot of some live chunk */
node_address g_refiled;                /* ghost: the hole addToGrid was last called on (its pointer slots were overwritten) */
/* ASSUMED list shape, at the point where a link is read from the arena: the successor in the large list is 0 or another hole, disjoint from its predecessor -
 * unless the predecessor has just been re-filed: then its links are whatever addToGrid wrote */
#define VERIF_LINK_OF(curr, next) __CPROVER_assume((size_t)(curr) == g_refiled || ((next) >= 0 && ((next) == 0 || (HOLE_OK(self, next) && \
    ((size_t)(next) + TAGSIZE(self, next) <= (size_t)(curr) || (size_t)(next) >= (size_t)(curr) + TAGSIZE(self, curr))))))

#define MSBINT ((int)0x80000000)
#define TAGGED(m, k)   (((m)->data[k] & MSBINT) != 0)
#define TAGSIZE(m, k)  ((size_t)((m)->data[k] & ~MSBINT))
#define OG_REQ(m) \
    __CPROVER_requires(__CPROVER_is_fresh(m, sizeof(*(m)))) \
    __CPROVER_requires(1024 <= (m)->data_alloc && (m)->data_alloc <= OG_MAXALLOC && (m)->last_used_slot < (m)->data_alloc && (m)->MSB == MSBINT) \
    __CPROVER_requires(__CPROVER_is_fresh((m)->data, (m)->data_alloc * sizeof(int))) \
    __CPROVER_requires((m)->data[0] == 0 && verif_exc == 0)
/* x is 0 or a hole with matching tags inside the used part of the arena, large enough to carry its pointer slots */
#define HOLE_OK(m, x) (1 <= (x) && (size_t)(x) <= (m)->last_used_slot && TAGGED(m, x) && 5 <= TAGSIZE(m, x) && (size_t)(x) + TAGSIZE(m, x) - 1 <= (m)->last_used_slot && (m)->data[(x) + TAGSIZE(m, x) - 1] == (m)->data[x])
#define HOLE_OR_0(m, x) ((x) == 0 || HOLE_OK(m, x))
/* a hole filed in the grid (not in the large list) is not larger than the largest request so far */
#define GRID_OR_0(m, x) ((x) == 0 || (HOLE_OK(m, x) && TAGSIZE(m, x) <= (m)->max_request))

void original_grid__incMemUsed(struct original_grid *m, size_t b) __CPROVER_requires(1) __CPROVER_assigns() __CPROVER_ensures(1);
/* ---- the hole index: assumed contracts ---- */
int original_grid__Next_ro(const struct original_grid *self, node_address h)
__CPROVER_requires(self != NULL) REQUIRES(list_successor_is_asked_of_a_hole, HOLE_OK(self, h))
__CPROVER_assigns()
/* ASSUMED: the successor in a list / row is 0 or another hole of the same kind: same size inside the grid, and disjoint from h */
__CPROVER_ensures(__CPROVER_return_value == g_next && (g_next == 0 || (HOLE_OK(self, g_next) && ((size_t)g_next + TAGSIZE(self, g_next) <= h || (size_t)g_next >= h + TAGSIZE(self, h)))))
/* a row of the grid holds holes of one size */
__CPROVER_ensures(g_next == 0 || TAGSIZE(self, h) > self->max_request || TAGSIZE(self, g_next) == TAGSIZE(self, h));
int original_grid__Up_ro(const struct original_grid *self, node_address h)
__CPROVER_requires(self != NULL) REQUIRES(row_above_is_asked_of_a_hole, HOLE_OK(self, h))
__CPROVER_assigns() __CPROVER_ensures(__CPROVER_return_value == g_up && g_up >= 0 && GRID_OR_0(self, g_up));
int original_grid__Down_ro(const struct original_grid *self, node_address h)
__CPROVER_requires(self != NULL) REQUIRES(row_below_is_asked_of_a_hole, HOLE_OK(self, h))
__CPROVER_assigns() __CPROVER_ensures(__CPROVER_return_value == g_down && g_down >= 0 && GRID_OR_0(self, g_down));
void original_grid__addToGrid(struct original_grid *self, node_address h)
__CPROVER_requires(self != NULL) REQUIRES(a_hole_is_filed, HOLE_OK(self, h))
__CPROVER_assigns(g_adds, g_refiled, self->large_holes, self->holes_bottom, self->holes_top, self->holes_current)
__CPROVER_assigns(self->data[h + 1], self->data[h + 2], self->data[h + 3])
/* classification with the maximum request the manager knows NOW (orig_grid.cc isLargeHole) */
__CPROVER_ensures(g_adds == __CPROVER_old(g_adds) + 1 && g_refiled == h)
__CPROVER_ensures(TAGSIZE(self, h) > self->max_request ? (size_t)self->large_holes == h : self->large_holes == __CPROVER_old(self->large_holes))
/* ASSUMED: filing keeps the heads what they are - 0 or holes of their kind */
__CPROVER_ensures(self->holes_bottom >= 0 && self->holes_current >= 0 && self->large_holes >= 0 && GRID_OR_0(self, self->holes_bottom) && GRID_OR_0(self, self->holes_current))
__CPROVER_ensures(self->large_holes == 0 || (HOLE_OK(self, self->large_holes) && TAGSIZE(self, self->large_holes) > __CPROVER_old(self->max_request)) || (size_t)self->large_holes == h);
void original_grid__removeFromGrid(struct original_grid *self, node_address h)
__CPROVER_requires(self != NULL)
REQUIRES(the_hole_taken_for_a_request_is_a_hole, HOLE_OK(self, h))
REQUIRES(the_hole_taken_for_a_request_is_large_enough, TAGSIZE(self, h) >= g_request)
__CPROVER_assigns(g_removes, g_remove_arg, self->large_holes, self->holes_bottom, self->holes_top, self->holes_current)
__CPROVER_ensures(g_removes == __CPROVER_old(g_removes) + 1 && g_remove_arg == h);
void original_grid__clearHole(const struct original_grid *self, node_address h, size_t n) __CPROVER_requires(self != NULL) __CPROVER_assigns() __CPROVER_ensures(1);
void original_grid__recycleChunk(struct original_grid *self, node_address h, size_t n)
__CPROVER_requires(self != NULL)
__CPROVER_assigns(g_recycles, g_recycle_at, g_recycle_n)
__CPROVER_ensures(g_recycles == __CPROVER_old(g_recycles) + 1 && g_recycle_at == h && g_recycle_n == n);
node_address original_grid__allocateFromArray(struct original_grid *self, size_t n)
__CPROVER_requires(self != NULL) __CPROVER_assigns(g_allocs) __CPROVER_ensures(g_allocs == __CPROVER_old(g_allocs) + 1 && __CPROVER_return_value == g_alloc_result);

/* ---- the request ---- */
node_address original_grid__requestChunk(struct original_grid *self, size_t *numSlots)
OG_REQ(self)
__CPROVER_requires(__CPROVER_is_fresh(numSlots, sizeof(size_t)) && 1 <= *numSlots && *numSlots < (1ul << 28) && self->last_used_slot < (1ul << 30) && self->max_request < (1ul << 28))
WITNESS(original_grid__requestChunk, g_request == *numSlots)
__CPROVER_requires(g_request == *numSlots && g_refiled == 0)
/* ASSUMED shape of the hole index at entry: heads are 0 or holes; every hole in the large list is larger than every request so far */
__CPROVER_requires(self->large_holes >= 0 && self->holes_bottom >= 0 && self->holes_current >= 0 && self->holes_top >= 0)
__CPROVER_requires(HOLE_OR_0(self, self->large_holes) && GRID_OR_0(self, self->holes_bottom) && GRID_OR_0(self, self->holes_current))
__CPROVER_requires(self->large_holes == 0 || TAGSIZE(self, self->large_holes) > self->max_request)
__CPROVER_requires(g_adds < 1000000 && g_removes < 1000000 && g_recycles < 1000000 && g_allocs < 1000000)
__CPROVER_assigns(g_refiled, *numSlots, self->max_request, self->large_holes, self->holes_bottom, self->holes_top, self->holes_current, g_adds, g_removes, g_remove_arg, g_recycles, g_recycle_at, g_recycle_n, g_allocs)
__CPROVER_assigns(__CPROVER_object_whole(self->data))
ENSURES(the_manager_remembers_the_largest_request, self->max_request >= g_request && self->max_request >= __CPROVER_old(self->max_request))
ENSURES(failure_is_reported_as_zero_slots, __CPROVER_return_value != 0 || *numSlots == 0)
ENSURES(a_recycled_hole_is_removed_from_the_index_exactly_once, g_removes <= __CPROVER_old(g_removes) + 1 && (g_removes == __CPROVER_old(g_removes) || g_remove_arg == __CPROVER_return_value))
ENSURES(fresh_space_only_when_no_hole_was_taken, g_allocs == __CPROVER_old(g_allocs) || g_removes == __CPROVER_old(g_removes))
ENSURES(the_leftover_of_a_larger_hole_is_given_back, g_recycles == __CPROVER_old(g_recycles) || (g_recycles == __CPROVER_old(g_recycles) + 1 && g_recycle_at == __CPROVER_return_value + g_request && g_recycle_n >= 1))
ENSURES(the_large_list_still_holds_only_larger_holes, self->large_holes == __CPROVER_old(self->large_holes) || self->large_holes == 0 || g_removes == __CPROVER_old(g_removes) + 1 || TAGSIZE(self, self->large_holes) > self->max_request)
;
