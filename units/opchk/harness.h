void h_b_checkDomains(void) { struct binary_operation *o; unsigned w_line = nondet_unsigned(); binary_operation__b_checkDomains(o, "f", w_line); CANARY(); }
void h_b_checkAllRelations0(void) { struct binary_operation *o; unsigned w_line = nondet_unsigned(); binary_operation__b_checkAllRelations0(o, "f", w_line); CANARY(); }
void h_b_checkAllRelations1(void) { struct binary_operation *o; unsigned w_line = nondet_unsigned(); _Bool w_x; binary_operation__b_checkAllRelations1(o, "f", w_line, w_x); CANARY(); }
void h_b_checkRelations(void) { struct binary_operation *o; unsigned w_line = nondet_unsigned(); _Bool w_x1; _Bool w_x2; _Bool w_x3; binary_operation__b_checkRelations(o, "f", w_line, w_x1, w_x2, w_x3); CANARY(); }
void h_b_checkAllLabelings(void) { struct binary_operation *o; unsigned w_line = nondet_unsigned(); edge_labeling w_l; binary_operation__b_checkAllLabelings(o, "f", w_line, w_l); CANARY(); }
void h_b_checkLabelings(void) { struct binary_operation *o; unsigned w_line = nondet_unsigned(); edge_labeling w_l1; edge_labeling w_l2; edge_labeling w_l3; binary_operation__b_checkLabelings(o, "f", w_line, w_l1, w_l2, w_l3); CANARY(); }
void h_b_checkAllRanges(void) { struct binary_operation *o; unsigned w_line = nondet_unsigned(); range_type w_t; binary_operation__b_checkAllRanges(o, "f", w_line, w_t); CANARY(); }
void h_b_checkAllEdgeTypes(void) { struct binary_operation *o; unsigned w_line = nondet_unsigned(); edge_type w_e; binary_operation__b_checkAllEdgeTypes(o, "f", w_line, w_e); CANARY(); }
