/* U-opchk: operand compatibility check helpers of binary operations (C16) */
#define OP_REQ() __CPROVER_requires(__CPROVER_is_fresh(self, sizeof(*self)) && __CPROVER_is_fresh(self->arg1F, sizeof(struct forest)) && __CPROVER_is_fresh(self->arg2F, sizeof(struct forest)) && __CPROVER_is_fresh(self->resF, sizeof(struct forest)) && verif_exc == 0)
#define a1 (self->arg1F)
#define a2 (self->arg2F)
#define r (self->resF)

void binary_operation__b_checkDomains(const struct binary_operation *self, const char *file, unsigned line)
OP_REQ()
__CPROVER_assigns(verif_exc)
ENSURES(mismatch_raises_and_only_mismatch, (verif_exc != 0) == ((a1->d != r->d) || (a2->d != r->d)))
ENSURES(documented_code, verif_exc == 0 || verif_exc == ERR_DOMAIN_MISMATCH)
;
void binary_operation__b_checkAllRelations0(const struct binary_operation *self, const char *file, unsigned line)
OP_REQ()
__CPROVER_assigns(verif_exc)
ENSURES(mismatch_raises_and_only_mismatch, (verif_exc != 0) == ((a1->isRelation != r->isRelation) || (a2->isRelation != r->isRelation)))
ENSURES(documented_code, verif_exc == 0 || verif_exc == ERR_TYPE_MISMATCH)
;
void binary_operation__b_checkAllRelations1(const struct binary_operation *self, const char *file, unsigned line, _Bool x)
OP_REQ()
__CPROVER_assigns(verif_exc)
ENSURES(mismatch_raises_and_only_mismatch, (verif_exc != 0) == ((a1->isRelation != x) || (a2->isRelation != x) || (r->isRelation != x)))
ENSURES(documented_code, verif_exc == 0 || verif_exc == ERR_TYPE_MISMATCH)
;
void binary_operation__b_checkRelations(const struct binary_operation *self, const char *file, unsigned line, _Bool x1, _Bool x2, _Bool x3)
OP_REQ()
__CPROVER_assigns(verif_exc)
ENSURES(mismatch_raises_and_only_mismatch, (verif_exc != 0) == ((a1->isRelation != x1) || (a2->isRelation != x2) || (r->isRelation != x3)))
ENSURES(documented_code, verif_exc == 0 || verif_exc == ERR_TYPE_MISMATCH)
;
void binary_operation__b_checkAllLabelings(const struct binary_operation *self, const char *file, unsigned line, edge_labeling l)
OP_REQ()
__CPROVER_assigns(verif_exc)
ENSURES(mismatch_raises_and_only_mismatch, (verif_exc != 0) == ((a1->edgeLabel != l) || (a2->edgeLabel != l) || (r->edgeLabel != l)))
ENSURES(documented_code, verif_exc == 0 || verif_exc == ERR_TYPE_MISMATCH)
;
void binary_operation__b_checkLabelings(const struct binary_operation *self, const char *file, unsigned line, edge_labeling l1, edge_labeling l2, edge_labeling l3)
OP_REQ()
__CPROVER_assigns(verif_exc)
ENSURES(mismatch_raises_and_only_mismatch, (verif_exc != 0) == ((a1->edgeLabel != l1) || (a2->edgeLabel != l2) || (r->edgeLabel != l3)))
ENSURES(documented_code, verif_exc == 0 || verif_exc == ERR_TYPE_MISMATCH)
;
void binary_operation__b_checkAllRanges(const struct binary_operation *self, const char *file, unsigned line, range_type t)
OP_REQ()
__CPROVER_assigns(verif_exc)
ENSURES(mismatch_raises_and_only_mismatch, (verif_exc != 0) == ((a1->rangeType != t) || (a2->rangeType != t) || (r->rangeType != t)))
ENSURES(documented_code, verif_exc == 0 || verif_exc == ERR_TYPE_MISMATCH)
;
void binary_operation__b_checkAllEdgeTypes(const struct binary_operation *self, const char *file, unsigned line, edge_type e)
OP_REQ()
__CPROVER_assigns(verif_exc)
ENSURES(mismatch_raises_and_only_mismatch, (verif_exc != 0) == ((a1->the_edge_type != e) || (a2->the_edge_type != e) || (r->the_edge_type != e)))
ENSURES(documented_code, verif_exc == 0 || verif_exc == ERR_TYPE_MISMATCH)
;
#undef a1
#undef a2
#undef r

