B = 'src/oper_binary.h'
FH = 'src/forest.h'
def job(name, enforce, replace=(), props=('C16',), **kw):
    d = dict(name=name, entry='h_' + name, enforce=enforce, replace=list(replace), props=list(props))
    d.update(kw)
    return d
def bf(name, sel, cname, argc_key):
    return dict(cls='binary_operation', name=name, file=B, sel=sel, cname='binary_operation__' + cname, argc_key=argc_key)
UNIT = {
    'name': 'opchk',
    'extra_typedefs': [('set_or_rel', '_Bool')],
    'enums': [('src/policies.h', 'edge_labeling'), ('src/rangeval.h', 'range_type'), ('src/edge_value.h', 'edge_type')],
    'classes': {
        'domain': {'opaque': True},
        'forest': {'file': FH, 'fields': ['d', 'isRelation', 'rangeType', 'edgeLabel', 'the_edge_type']},
        'binary_operation': {'file': B, 'fields': ['arg1F', 'arg2F', 'resF']},
    },
    'foreign': {'getDomain': {'*': {0: 'forest__getDomain'}}, 'isForRelations': {'*': 'forest'}, 'getRangeType': {'*': 'forest'},
                'getEdgeLabeling': {'*': 'forest'}, 'getEdgeType': {'*': 'forest'}},
    'functions': [
        dict(cls='forest', name='getDomain', file=FH, nth=0), dict(cls='forest', name='isForRelations', file=FH),
        dict(cls='forest', name='getRangeType', file=FH), dict(cls='forest', name='getEdgeLabeling', file=FH),
        dict(cls='forest', name='getEdgeType', file=FH),
        bf('checkDomains', r'^const char\* file, unsigned line$', 'b_checkDomains', 'k0'),
        bf('checkAllRelations', r'^const char\* file, unsigned line$', 'b_checkAllRelations0', 'k1'),
        bf('checkAllRelations', r'set_or_rel a$', 'b_checkAllRelations1', 'k2'),
        bf('checkRelations', r'set_or_rel a1, set_or_rel a2, set_or_rel r$', 'b_checkRelations', 'k3'),
        bf('checkAllLabelings', r'edge_labeling a$', 'b_checkAllLabelings', 'k4'),
        bf('checkLabelings', r'edge_labeling a1, edge_labeling a2, edge_labeling r$', 'b_checkLabelings', 'k5'),
        bf('checkAllRanges', r'range_type rt$', 'b_checkAllRanges', 'k6'),
        bf('checkAllEdgeTypes', r'edge_type et$', 'b_checkAllEdgeTypes', 'k7'),
    ],
    'stubs': [],
    'assumptions': ['only the check helpers of binary_operation; which operation constructor calls which helper is not covered'],
    'unverified_surroundings': {'C16': ['operation constructors and factories (which checks each operation performs)', 'oper_unary.h helpers (same text shape)', 'binary_operation::compute forest-compatibility guard']},
    'jobs': [
        job('b_checkDomains', 'binary_operation__b_checkDomains'),
        job('b_checkAllRelations0', 'binary_operation__b_checkAllRelations0'),
        job('b_checkAllRelations1', 'binary_operation__b_checkAllRelations1'),
        job('b_checkRelations', 'binary_operation__b_checkRelations'),
        job('b_checkAllLabelings', 'binary_operation__b_checkAllLabelings'),
        job('b_checkLabelings', 'binary_operation__b_checkLabelings'),
        job('b_checkAllRanges', 'binary_operation__b_checkAllRanges'),
        job('b_checkAllEdgeTypes', 'binary_operation__b_checkAllEdgeTypes'),
    ],
}
