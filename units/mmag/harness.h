int lemma_tag_codec(struct array_plus_grid *m, node_address h, int hs)
{
    array_plus_grid__setHoleSize(m, h, hs);
    return array_plus_grid__isHole(m, h) && array_plus_grid__getHoleSize(m, h) == hs && array_plus_grid__matchingHoleSizes(m, h)
        && array_plus_grid__isHole(m, h + hs - 1);
}
#define H_AG() ghost_g = nondet_size_t(); ghost_o = nondet_size_t(); g_stops = nondet_unsigned(); g_starts = nondet_unsigned(); g_row_result = nondet_int(); g_row_current = nondet_int();
void h_ag_tag_codec(void) { struct array_plus_grid *m; node_address w_h = nondet_ulong(); int w_hs = nondet_int(); H_AG(); lemma_tag_codec(m, w_h, w_hs); CANARY(); }
void h_ag_resize(void) { struct array_plus_grid *m; size_t w_n = nondet_size_t(); H_AG(); array_plus_grid__resize(m, w_n); CANARY(); }
void h_ag_allocateFromArray(void) { struct array_plus_grid *m; size_t w_n = nondet_size_t(); H_AG(); array_plus_grid__allocateFromArray(m, w_n); CANARY(); }
void h_ag_recycleChunk(void) { struct array_plus_grid *m; node_address w_h = nondet_ulong(); size_t w_n = nondet_size_t(); H_AG(); array_plus_grid__recycleChunk(m, w_h, w_n); CANARY(); }
void h_ag_requestChunk(void) { struct array_plus_grid *m; size_t *n; H_AG(); array_plus_grid__requestChunk(m, n); CANARY(); }
void h_ag_stopTrackingHole(void) { struct array_plus_grid *m; node_address w_h = nondet_ulong(); H_AG(); array_plus_grid__stopTrackingHole_real(m, w_h); CANARY(); }
void h_ag_startTrackingHole(void) { struct array_plus_grid *m; node_address w_h = nondet_ulong(); H_AG(); array_plus_grid__startTrackingHole_real(m, w_h); CANARY(); }
