A = 'src/memory_managers/array_grid.cc'
H = 'src/memory_managers/hole_base.h'
M = 'src/memory.h'
def job(name, enforce, replace=(), props=('C18',), **kw):
    d = dict(name=name, entry='h_' + name, enforce=enforce, replace=list(replace), props=list(props))
    d.update(kw)
    return d
def hf(name, **kw):     # hole_manager<INT> member, flattened into the derived struct
    d = dict(cls='array_plus_grid', src_cls='hole_manager', name=name, file=H)
    d.update(kw)
    return d
def af(name, **kw):
    d = dict(cls='array_plus_grid', name=name, file=A)
    d.update(kw)
    return d
ST = ['array_plus_grid__incMemUsed', 'array_plus_grid__decMemUsed', 'array_plus_grid__incMemAlloc', 'array_plus_grid__decMemAlloc',
      'array_plus_grid__setChunkBase']
TR = ['array_plus_grid__stopTrackingHole', 'array_plus_grid__startTrackingHole', 'array_plus_grid__moveCurrentToRow']
UNIT = {
    'name': 'mmag',
    'typedefs': [('src/defines.h', 'node_address')],
    'subst': {'INT': 'int'},
    'consts': [(A, ['MediumHoleSize', 'LargeHoleSize'])],
    'classes': {
        'array_plus_grid': {'file': A, 'bases': ['memory_manager', 'hole_manager'], 'base_files': {'memory_manager': M, 'hole_manager': H},
                            'fields': ['data', 'data_alloc', 'last_used_slot', 'MSB', 'medium_hole_list', 'grid_bottom', 'grid_top', 'grid_current',
                                       'max_request', 'huge_holes', 'chunk_base', 'num_small_holes', 'num_medium_holes', 'num_grid_holes', 'num_huge_holes',
                                       'num_small_slots', 'num_medium_slots', 'num_grid_slots', 'num_huge_slots']},
    },
    # the derived class reaches the hole_manager<INT> primitives through one-line forwarding wrappers
    # (array_grid.cc:161-174) and explicit qualification; both are flattened onto the base functions
    'text_subst': [
        (r'hole_manager<INT>::', '', A),
        (r'memory_manager::', '', A),
        (r'printf\([^;]*;', ';', A), (r'printf\([^;]*;', ';', H),
    ],
    'forwarders': [
        (A, 'array_plus_grid', 'isHole', r'^\{\s*return hole_manager<INT>::isHole\(h\);\s*\}$'),
        (A, 'array_plus_grid', 'getHoleSize', r'^\{\s*return hole_manager<INT>::getHoleSize\(h\);\s*\}$'),
        (A, 'array_plus_grid', 'setHoleSize', r'^\{\s*hole_manager<INT>::setHoleSize\(h, hs\);\s*\}$'),
        (A, 'array_plus_grid', 'matchingHoleSizes', r'^\{\s*return hole_manager<INT>::matchingHoleSizes\(h\);\s*\}$'),
    ],
    'extra_methods': [
        dict(cls='array_plus_grid', name='incMemUsed', argc=1, cname='array_plus_grid__incMemUsed'),
        dict(cls='array_plus_grid', name='decMemUsed', argc=1, cname='array_plus_grid__decMemUsed'),
        dict(cls='array_plus_grid', name='incMemAlloc', argc=1, cname='array_plus_grid__incMemAlloc'),
        dict(cls='array_plus_grid', name='decMemAlloc', argc=1, cname='array_plus_grid__decMemAlloc'),
        dict(cls='array_plus_grid', name='setChunkBase', argc=1, cname='array_plus_grid__setChunkBase'),
        dict(cls='array_plus_grid', name='stopTrackingHole', argc=1, cname='array_plus_grid__stopTrackingHole'),
        dict(cls='array_plus_grid', name='startTrackingHole', argc=1, cname='array_plus_grid__startTrackingHole'),
        dict(cls='array_plus_grid', name='moveCurrentToRow', argc=2, cname='array_plus_grid__moveCurrentToRow'),
    ],
    'ref_params': {'array_plus_grid__moveCurrentToRow': [2]},
    'functions': [
        hf('isHole'), hf('getHoleSize'), hf('setHoleSize'), hf('clearHole'), hf('matchingHoleSizes'),
        hf('readSlot'), hf('refSlot'), hf('max_handle'), hf('recycleHoleInArray'),
        hf('allocateFromArray', where='out'), hf('resize', where='out'),
        af('isSmallHole'), af('isLargeHole'), af('Prev'), af('Next'), af('setPrev'), af('setNext'),
        af('isIndexHole'), af('Up'), af('Down'), af('setUp'), af('setDown'), af('setNonIndex'),
        af('requestChunk', where='out', loops=1), af('recycleChunk', where='out'),
        af('stopTrackingHole', where='out', cname='array_plus_grid__stopTrackingHole_real'),
        af('startTrackingHole', where='out', cname='array_plus_grid__startTrackingHole_real'),
    ],
    'stubs': [
        'array_plus_grid::stopTrackingHole / startTrackingHole / moveCurrentToRow: the grid / medium-list / huge-list index of holes. Assumed: they write only pointer slots 1..4 inside holes and the list heads, never the boundary tags, never a slot of a live chunk; stopTrackingHole(h) requires h to be a tracked hole with matching tags',
        'memory statistics (incMemUsed ...) and setChunkBase: no effect on the arena',
        'printf diagnostics dropped (text_subst)',
    ],
    'assumptions': [
        'shape of the hole index (lists and grid): local footprint - the list head / grid element returned for a size is a hole of at least that size with matching boundary tags',
        'neighbours of a recycled chunk: if the slot before / after the chunk carries the hole flag, it is a boundary tag of a hole with matching tags lying inside the used part of the arena (live chunks keep first/last slot MSB clear: memory.h firstSlotMustClearMSB/lastSlotMustClearMSB)',
        'INT = int; hole sizes below 2^30',
    ],
    'unverified_surroundings': {'C18': ['array_grid.cc stopTrackingHole/startTrackingHole/moveCurrentToRow (grid maintenance)', 'array_grid.cc requestChunk (hole selection and splitting)', 'orig_grid.cc, heap_manager.cc, malloc_style.cc']},
    'jobs': [
        job('ag_tag_codec', 'lemma_tag_codec', []),
        job('ag_allocateFromArray', 'array_plus_grid__allocateFromArray', ST + ['array_plus_grid__resize']),
        job('ag_resize', 'array_plus_grid__resize', ST),
        job('ag_recycleChunk', 'array_plus_grid__recycleChunk', ST + TR),
        job('ag_stopTrackingHole', 'array_plus_grid__stopTrackingHole_real', ST, tier='thorough', timeout=7200),     # ~400 s: thorough tier only
        job('ag_startTrackingHole', 'array_plus_grid__startTrackingHole_real', ST + ['array_plus_grid__moveCurrentToRow'], tier='thorough', timeout=7200),   # ~400 s
        # ag_requestChunk: contract drafted in spec.h; the grid / medium-list paths need shape facts about Next(grid_current) and the
        # leftover split that are not discharged yet - not claimed
    ],
}
