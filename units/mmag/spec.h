/* U-mm (array + grid): hole_manager<int> primitives and array_plus_grid<int>::requestChunk / recycleChunk (C18) */
#define AG_MAXALLOC (1ul << 30)
size_t ghost_g;     /* a slot of some live chunk (not inside any hole) */
size_t ghost_o;     /* a pointer slot inside some other tracked hole: the only kind of slot the hole index may write besides the hole at hand */
unsigned g_stops, g_starts; node_address g_stop_arg, g_start_arg, g_stop_arg2;
int g_row_result; int g_row_current;

void array_plus_grid__incMemUsed(struct array_plus_grid *m, size_t b) __CPROVER_requires(1) __CPROVER_assigns() __CPROVER_ensures(1);
void array_plus_grid__decMemUsed(struct array_plus_grid *m, size_t b) __CPROVER_requires(1) __CPROVER_assigns() __CPROVER_ensures(1);
void array_plus_grid__incMemAlloc(struct array_plus_grid *m, size_t b) __CPROVER_requires(1) __CPROVER_assigns() __CPROVER_ensures(1);
void array_plus_grid__decMemAlloc(struct array_plus_grid *m, size_t b) __CPROVER_requires(1) __CPROVER_assigns() __CPROVER_ensures(1);
void array_plus_grid__setChunkBase(struct array_plus_grid *m, void *p) __CPROVER_requires(1) __CPROVER_assigns(m->chunk_base) __CPROVER_ensures(1);

#define MSBINT ((int)0x80000000)
#define TAGGED(m, k)   (((m)->data[k] & MSBINT) != 0)
#define TAGSIZE(m, k)  ((size_t)((m)->data[k] & ~MSBINT))
#define AG_REQ(m) \
    __CPROVER_requires(__CPROVER_is_fresh(m, sizeof(*(m)))) \
    __CPROVER_requires(1024 <= (m)->data_alloc && (m)->data_alloc <= AG_MAXALLOC && (m)->last_used_slot < (m)->data_alloc && (m)->MSB == MSBINT) \
    __CPROVER_requires(__CPROVER_is_fresh((m)->data, (m)->data_alloc * sizeof(int))) \
    __CPROVER_requires((m)->data[0] == 0 && verif_exc == 0)
/* hole at [H, H+N) with matching boundary tags */
#define HOLE_AT(m, H, N) ((m)->data[H] == ((int)(N) | MSBINT) && (m)->data[(H) + (N) - 1] == ((int)(N) | MSBINT))

/* the hole index: assumed contracts */
void array_plus_grid__stopTrackingHole(struct array_plus_grid *self, node_address h)
__CPROVER_requires(self != NULL && 1 <= h && h <= self->last_used_slot)
REQUIRES(untracked_thing_is_a_hole_with_matching_tags, TAGGED(self, h) && TAGSIZE(self, h) >= 1 && h + TAGSIZE(self, h) - 1 <= self->last_used_slot && self->data[h + TAGSIZE(self, h) - 1] == self->data[h])
__CPROVER_assigns(g_stops, g_stop_arg, g_stop_arg2, self->grid_bottom, self->grid_top, self->grid_current, self->huge_holes, __CPROVER_object_upto(self->medium_hole_list, sizeof(self->medium_hole_list)))
__CPROVER_assigns(ghost_o <= self->last_used_slot: self->data[ghost_o])
__CPROVER_ensures(g_stops == __CPROVER_old(g_stops) + 1 && g_stop_arg == h && g_stop_arg2 == __CPROVER_old(g_stop_arg))
;
void array_plus_grid__startTrackingHole(struct array_plus_grid *self, node_address h)
__CPROVER_requires(self != NULL && 1 <= h && h <= self->last_used_slot)
REQUIRES(tracked_thing_is_a_hole_with_matching_tags, TAGGED(self, h) && TAGSIZE(self, h) >= 1 && h + TAGSIZE(self, h) - 1 <= self->last_used_slot && self->data[h + TAGSIZE(self, h) - 1] == self->data[h])
__CPROVER_assigns(g_starts, g_start_arg, self->grid_bottom, self->grid_top, self->grid_current, self->huge_holes, __CPROVER_object_upto(self->medium_hole_list, sizeof(self->medium_hole_list)))
__CPROVER_assigns(ghost_o <= self->last_used_slot: self->data[ghost_o])
/* pointer slots 1..4 of the hole itself */
__CPROVER_assigns(TAGSIZE(self, h) >= 4: self->data[h + 1], self->data[h + 2])
__CPROVER_assigns(TAGSIZE(self, h) >= 6: self->data[h + 3], self->data[h + 4])
__CPROVER_ensures(g_starts == __CPROVER_old(g_starts) + 1 && g_start_arg == h)
;
int array_plus_grid__moveCurrentToRow(const struct array_plus_grid *self, int size, int *current)
__CPROVER_requires(self != NULL && __CPROVER_rw_ok(current, sizeof(int)))
__CPROVER_assigns(*current)
__CPROVER_ensures(__CPROVER_return_value == g_row_result && *current == g_row_current)
/* ASSUMED grid shape: a return value 0 means *current is a tracked hole of exactly that size */
__CPROVER_ensures(g_row_result != 0 || (1 <= g_row_current && (size_t)g_row_current <= self->last_used_slot && TAGGED(self, g_row_current) && TAGSIZE(self, g_row_current) == (size_t)size
    && (size_t)g_row_current + (size_t)size - 1 <= self->last_used_slot && self->data[g_row_current + size - 1] == self->data[g_row_current]))
;

/* ---- boundary-tag codec ------------------------------------------------------------------- */
int lemma_tag_codec(struct array_plus_grid *m, node_address h, int hs)
AG_REQ(m)
__CPROVER_requires(1 <= h && h <= m->last_used_slot && 1 <= hs && hs < (1 << 30) && h + (size_t)hs - 1 <= m->last_used_slot && ghost_g <= m->last_used_slot)
__CPROVER_assigns(m->data[h], m->data[h + hs - 1])
ENSURES(tagged_region_reads_back_as_a_hole_of_that_size, __CPROVER_return_value == 1)
ENSURES(nothing_else_written, ghost_g == h || ghost_g == h + (size_t)hs - 1 || m->data[ghost_g] == __CPROVER_old(m->data[ghost_g]))
;

/* ---- growing the used part of the arena ------------------------------------------------------ */
_Bool array_plus_grid__resize(struct array_plus_grid *self, size_t new_alloc)
AG_REQ(self)
__CPROVER_requires(self->data_alloc <= new_alloc && new_alloc <= 2 * AG_MAXALLOC && ghost_g < self->data_alloc)
__CPROVER_assigns(self->data, self->data_alloc, self->chunk_base)
__CPROVER_frees(self->data)
ENSURES(failure_changes_nothing, __CPROVER_return_value || (self->data == __CPROVER_old(self->data) && self->data_alloc == __CPROVER_old(self->data_alloc)))
ENSURES(failure_keeps_the_old_array_alive, __CPROVER_return_value || __CPROVER_rw_ok(self->data, self->data_alloc * sizeof(int)))
ENSURES(success_gives_the_requested_capacity, !__CPROVER_return_value || (self->data_alloc == new_alloc && __CPROVER_is_fresh(self->data, new_alloc * sizeof(int))))
ENSURES(contents_survive, !__CPROVER_return_value || self->data[ghost_g] == __CPROVER_old(self->data[ghost_g]))
;

node_address array_plus_grid__allocateFromArray(struct array_plus_grid *self, size_t numSlots)
AG_REQ(self)
__CPROVER_requires(1 <= numSlots && numSlots < (1ul << 28) && ghost_g <= self->last_used_slot)
__CPROVER_assigns(self->data, self->data_alloc, self->chunk_base, self->last_used_slot)
__CPROVER_frees(self->data)
ENSURES(failure_leaves_the_arena_alone, __CPROVER_return_value != 0 || self->last_used_slot == __CPROVER_old(self->last_used_slot))
ENSURES(chunk_starts_right_after_everything_used, __CPROVER_return_value == 0 || __CPROVER_return_value == __CPROVER_old(self->last_used_slot) + 1)
ENSURES(chunk_lies_inside_the_arena, __CPROVER_return_value == 0 || (self->last_used_slot == __CPROVER_old(self->last_used_slot) + numSlots && self->last_used_slot < self->data_alloc))
ENSURES(handle_fits_the_tag_range, __CPROVER_return_value <= 0x7fffffffUL)
ENSURES(live_slots_survive, self->data[ghost_g] == __CPROVER_old(self->data[ghost_g]))
;

/* ---- recycling with coalescing --------------------------------------------------------------- */
#define LEFT_OK(m, h)  (!TAGGED(m, (h) - 1) || (1 <= TAGSIZE(m, (h) - 1) && TAGSIZE(m, (h) - 1) < (h) && (m)->data[(h) - TAGSIZE(m, (h) - 1)] == (m)->data[(h) - 1]))
#define RIGHT_OK(m, r) ((r) > (m)->last_used_slot || !TAGGED(m, r) || (1 <= TAGSIZE(m, r) && (r) + TAGSIZE(m, r) - 1 <= (m)->last_used_slot && (m)->data[(r) + TAGSIZE(m, r) - 1] == (m)->data[r]))
void array_plus_grid__recycleChunk(struct array_plus_grid *self, node_address h, size_t numSlots)
AG_REQ(self)
__CPROVER_requires(1 <= h && h <= self->last_used_slot && 1 <= numSlots && numSlots < (1ul << 28) && h + numSlots - 1 <= self->last_used_slot && self->last_used_slot < (1ul << 30))
__CPROVER_requires(LEFT_OK(self, h) && RIGHT_OK(self, h + numSlots))                     /* neighbours: see unit assumptions */
/* the live slot and the foreign index slot lie outside the region that ends up as one hole: the chunk plus its hole neighbours */
#define MERGE_LO(m, h)    (TAGGED(m, (h) - 1) ? (h) - TAGSIZE(m, (h) - 1) : (h))
#define MERGE_HI(m, h, n) (((h) + (n) <= (m)->last_used_slot && TAGGED(m, (h) + (n))) ? (h) + (n) + TAGSIZE(m, (h) + (n)) : (h) + (n))
__CPROVER_requires(ghost_g <= self->last_used_slot && (ghost_g < MERGE_LO(self, h) || ghost_g >= MERGE_HI(self, h, numSlots)) && ghost_g != ghost_o)
/* a pointer slot in the interior of another hole is neither inside the merged region nor adjacent to it (adjacent slots are boundary tags or belong to live chunks) */
__CPROVER_requires(ghost_o + 1 < MERGE_LO(self, h) || ghost_o > MERGE_HI(self, h, numSlots))
__CPROVER_assigns(g_stops, g_stop_arg, g_stop_arg2, g_starts, g_start_arg, self->grid_bottom, self->grid_top, self->grid_current, self->huge_holes, __CPROVER_object_upto(self->medium_hole_list, sizeof(self->medium_hole_list)))
__CPROVER_assigns(self->last_used_slot, __CPROVER_object_whole(self->data))
ENSURES(live_slots_are_never_altered, self->data[ghost_g] == __CPROVER_old(self->data[ghost_g]))
ENSURES(used_part_never_grows, self->last_used_slot <= __CPROVER_old(self->last_used_slot))
ENSURES(chunk_becomes_free_space, self->last_used_slot < h || (TAGGED(self, h) || TAGGED(self, h + numSlots - 1) || g_starts == __CPROVER_old(g_starts) + 1))
ENSURES(merged_hole_is_tracked_once_with_matching_tags, g_starts == __CPROVER_old(g_starts) ||
        (g_starts == __CPROVER_old(g_starts) + 1 && g_start_arg <= h && TAGGED(self, g_start_arg) && TAGSIZE(self, g_start_arg) >= numSlots &&
         g_start_arg + TAGSIZE(self, g_start_arg) >= h + numSlots && self->data[g_start_arg + TAGSIZE(self, g_start_arg) - 1] == self->data[g_start_arg]))
ENSURES(absorbed_into_the_free_end_or_tracked, (g_starts == __CPROVER_old(g_starts)) == (self->last_used_slot < h))
;

node_address array_plus_grid__requestChunk(struct array_plus_grid *self, size_t *numSlots)
AG_REQ(self)
__CPROVER_requires(__CPROVER_is_fresh(numSlots, sizeof(size_t)) && 1 <= *numSlots && *numSlots < (1ul << 28) && self->last_used_slot < (1ul << 30) && ghost_g <= self->last_used_slot)
__CPROVER_requires(self->huge_holes == 0 && self->max_request >= *numSlots)           /* huge-list re-sorting (first request of a new maximum) not covered */
/* ASSUMED list shape: the medium list head for this size is 0 or a hole of exactly this size */
__CPROVER_requires(*numSlots >= LargeHoleSize || self->medium_hole_list[*numSlots] == 0 ||
    (1 <= self->medium_hole_list[*numSlots] && (size_t)self->medium_hole_list[*numSlots] + *numSlots - 1 <= self->last_used_slot && HOLE_AT(self, self->medium_hole_list[*numSlots], *numSlots)))
__CPROVER_assigns(*numSlots, g_stops, g_stop_arg, g_stop_arg2, g_starts, g_start_arg, self->grid_bottom, self->grid_top, self->grid_current, self->huge_holes, self->max_request, __CPROVER_object_upto(self->medium_hole_list, sizeof(self->medium_hole_list)))
__CPROVER_assigns(self->last_used_slot, self->data, self->data_alloc, self->chunk_base, __CPROVER_object_whole(self->data))
__CPROVER_frees(self->data)
ENSURES(failure_is_reported_as_zero_slots, __CPROVER_return_value != 0 || *numSlots == 0)
ENSURES(chunk_at_least_as_large_as_requested, __CPROVER_return_value == 0 || *numSlots >= __CPROVER_old(*numSlots))
ENSURES(chunk_lies_inside_the_used_arena, __CPROVER_return_value == 0 || (1 <= __CPROVER_return_value && __CPROVER_return_value + *numSlots - 1 <= self->last_used_slot && self->last_used_slot < self->data_alloc))
ENSURES(chunk_is_a_former_hole_or_fresh_space, __CPROVER_return_value == 0 || __CPROVER_return_value == __CPROVER_old(self->last_used_slot) + 1 || (g_stops >= __CPROVER_old(g_stops) + 1))
;

/* ---- removing a hole from the index (loop-free; the body the stub array_plus_grid__stopTrackingHole stands for) ------ */
#define SLOT(m, x, k)   ((m)->data[(x) + (k)])
#define NB_OK(m, x, k)  ((x) == 0 || (1 <= (x) && (size_t)(x) + (k) <= (m)->last_used_slot))
#define HS(m, h)        TAGSIZE(m, h)
#define IS_MEDIUM(m, h) (HS(m, h) >= MediumHoleSize && HS(m, h) < LargeHoleSize)
#define IS_LARGE(m, h)  (HS(m, h) >= LargeHoleSize)
#define IS_HUGE(m, h)   (IS_LARGE(m, h) && HS(m, h) > (m)->max_request)
#define IN_GRID(m, h)   (IS_LARGE(m, h) && !IS_HUGE(m, h))
#define IS_INDEX(m, h)  (SLOT(m, h, 3) >= 0)
#define NO_HEAD_IS(m, h) ((size_t)(m)->grid_current != (h) && (size_t)(m)->grid_bottom != (h) && (size_t)(m)->grid_top != (h) && (size_t)(m)->huge_holes != (h) && \
    (size_t)(m)->medium_hole_list[0] != (h) && (size_t)(m)->medium_hole_list[1] != (h) && (size_t)(m)->medium_hole_list[2] != (h) && \
    (size_t)(m)->medium_hole_list[3] != (h) && (size_t)(m)->medium_hole_list[4] != (h) && (size_t)(m)->medium_hole_list[5] != (h))
#define MEDHEAD_OK(m, h, k) ((size_t)(m)->medium_hole_list[k] != (h) || (IS_MEDIUM(m, h) && HS(m, h) == (k) && SLOT(m, h, 1) == 0))

void array_plus_grid__stopTrackingHole_real(struct array_plus_grid *self, node_address h)
AG_REQ(self)
__CPROVER_requires(1 <= h && h <= self->last_used_slot && self->last_used_slot < (1ul << 30) && TAGGED(self, h) && 1 <= HS(self, h) && h + HS(self, h) - 1 <= self->last_used_slot && self->data[h + HS(self, h) - 1] == self->data[h])
/* local footprint of the index structure around h (the developers' assertions in the body, as preconditions) */
__CPROVER_requires(HS(self, h) < MediumHoleSize || (NB_OK(self, SLOT(self, h, 1), 4) && NB_OK(self, SLOT(self, h, 2), 4) && SLOT(self, h, 1) >= 0 && SLOT(self, h, 2) >= 0))
__CPROVER_requires(!(IN_GRID(self, h) && IS_INDEX(self, h)) || (NB_OK(self, SLOT(self, h, 3), 4) && NB_OK(self, SLOT(self, h, 4), 4) && SLOT(self, h, 4) >= 0))
/* list membership is consistent: predecessor / head point to h, successor points back */
__CPROVER_requires(!(IS_MEDIUM(self, h) || IS_HUGE(self, h) || (IN_GRID(self, h) && !IS_INDEX(self, h))) || SLOT(self, h, 1) == 0 || (size_t)SLOT(self, SLOT(self, h, 1), 2) == h)
__CPROVER_requires(!IS_MEDIUM(self, h) || SLOT(self, h, 1) != 0 || (size_t)self->medium_hole_list[HS(self, h)] == h)
__CPROVER_requires(!IS_HUGE(self, h) || SLOT(self, h, 1) != 0 || (size_t)self->huge_holes == h)
__CPROVER_requires(!(IN_GRID(self, h) && !IS_INDEX(self, h)) || SLOT(self, h, 1) != 0)
__CPROVER_requires(HS(self, h) < MediumHoleSize || SLOT(self, h, 2) == 0 || (size_t)SLOT(self, SLOT(self, h, 2), 1) == h || (IN_GRID(self, h) && IS_INDEX(self, h)))
__CPROVER_requires(!(IN_GRID(self, h) && IS_INDEX(self, h)) || (SLOT(self, h, 4) != 0 ? (size_t)SLOT(self, SLOT(self, h, 4), 3) == h : (size_t)self->grid_bottom == h))
__CPROVER_requires(!(IN_GRID(self, h) && IS_INDEX(self, h)) || (SLOT(self, h, 3) != 0 ? (size_t)SLOT(self, SLOT(self, h, 3), 4) == h : (size_t)self->grid_top == h))
/* a head refers to h only if h is where that head says (otherwise the structure is already broken) */
__CPROVER_requires(MEDHEAD_OK(self, h, 0) && MEDHEAD_OK(self, h, 1) && MEDHEAD_OK(self, h, 2) && MEDHEAD_OK(self, h, 3) && MEDHEAD_OK(self, h, 4) && MEDHEAD_OK(self, h, 5))
__CPROVER_requires((size_t)self->huge_holes != h || (IS_HUGE(self, h) && SLOT(self, h, 1) == 0))
__CPROVER_requires((size_t)self->grid_bottom != h || (IN_GRID(self, h) && IS_INDEX(self, h) && SLOT(self, h, 4) == 0))
__CPROVER_requires((size_t)self->grid_top != h || (IN_GRID(self, h) && IS_INDEX(self, h) && SLOT(self, h, 3) == 0))
__CPROVER_requires((size_t)self->grid_current != h || (IN_GRID(self, h) && IS_INDEX(self, h)))
/* neighbours are other holes: their pointer slots lie outside h, and predecessor and successor are different holes */
#define DISJ(m, x, h) ((x) == 0 || (size_t)(x) + 4 < (h) || (size_t)(x) >= (h) + HS(m, h))
#define FAR(x, y)     ((x) == 0 || (y) == 0 || (size_t)(x) + 4 < (size_t)(y) || (size_t)(y) + 4 < (size_t)(x))
__CPROVER_requires(HS(self, h) < MediumHoleSize || (DISJ(self, SLOT(self, h, 1), h) && DISJ(self, SLOT(self, h, 2), h) && FAR(SLOT(self, h, 1), SLOT(self, h, 2))))
__CPROVER_requires(!(IN_GRID(self, h) && IS_INDEX(self, h)) || (DISJ(self, SLOT(self, h, 3), h) && DISJ(self, SLOT(self, h, 4), h) && FAR(SLOT(self, h, 3), SLOT(self, h, 4)) && FAR(SLOT(self, h, 2), SLOT(self, h, 3)) && FAR(SLOT(self, h, 2), SLOT(self, h, 4))))
__CPROVER_requires(HS(self, h) < MediumHoleSize || ((size_t)SLOT(self, h, 1) != h && (size_t)SLOT(self, h, 2) != h))
__CPROVER_requires(!(IN_GRID(self, h) && IS_INDEX(self, h)) || ((size_t)SLOT(self, h, 3) != h && (size_t)SLOT(self, h, 4) != h))
/* the live slot is not a pointer slot of h or of a neighbouring hole */
__CPROVER_requires(ghost_g <= self->last_used_slot && (ghost_g < h || ghost_g >= h + HS(self, h)))
__CPROVER_requires(HS(self, h) < MediumHoleSize || ((SLOT(self, h, 1) == 0 || ghost_g < (size_t)SLOT(self, h, 1) || ghost_g > (size_t)SLOT(self, h, 1) + 4) && (SLOT(self, h, 2) == 0 || ghost_g < (size_t)SLOT(self, h, 2) || ghost_g > (size_t)SLOT(self, h, 2) + 4)))
__CPROVER_requires(!(IN_GRID(self, h) && IS_INDEX(self, h)) || ((SLOT(self, h, 3) == 0 || ghost_g < (size_t)SLOT(self, h, 3) || ghost_g > (size_t)SLOT(self, h, 3) + 4) && (SLOT(self, h, 4) == 0 || ghost_g < (size_t)SLOT(self, h, 4) || ghost_g > (size_t)SLOT(self, h, 4) + 4)))
__CPROVER_assigns(self->grid_bottom, self->grid_top, self->grid_current, self->huge_holes, __CPROVER_object_upto(self->medium_hole_list, sizeof(self->medium_hole_list)))
__CPROVER_assigns(self->num_small_holes, self->num_small_slots, self->num_grid_holes, self->num_grid_slots, self->num_huge_holes, self->num_huge_slots, self->num_medium_slots, __CPROVER_object_upto(self->num_medium_holes, sizeof(self->num_medium_holes)))
__CPROVER_assigns(__CPROVER_object_whole(self->data))
ENSURES(no_list_head_refers_to_the_removed_hole, NO_HEAD_IS(self, h))
ENSURES(boundary_tags_untouched, self->data[h] == __CPROVER_old(self->data[h]) && self->data[h + HS(self, h) - 1] == __CPROVER_old(self->data[h + HS(self, h) - 1]))
ENSURES(live_slots_are_never_altered, self->data[ghost_g] == __CPROVER_old(self->data[ghost_g]))
ENSURES(predecessor_skips_the_removed_hole, !(IS_MEDIUM(self, h) || IS_HUGE(self, h) || (IN_GRID(self, h) && !IS_INDEX(self, h))) || __CPROVER_old(SLOT(self, h, 1)) == 0 || SLOT(self, __CPROVER_old(SLOT(self, h, 1)), 2) == __CPROVER_old(SLOT(self, h, 2)))
ENSURES(successor_skips_the_removed_hole, !(IS_MEDIUM(self, h) || IS_HUGE(self, h) || (IN_GRID(self, h) && !IS_INDEX(self, h))) || __CPROVER_old(SLOT(self, h, 2)) == 0 || SLOT(self, __CPROVER_old(SLOT(self, h, 2)), 1) == __CPROVER_old(SLOT(self, h, 1)))
ENSURES(arena_extent_untouched, self->last_used_slot == __CPROVER_old(self->last_used_slot))
;

/* ---- inserting a hole into the index (loop-free apart from the row search, which is used through its contract) ------ */
void array_plus_grid__startTrackingHole_real(struct array_plus_grid *self, node_address h)
AG_REQ(self)
__CPROVER_requires(1 <= h && h <= self->last_used_slot && self->last_used_slot < (1ul << 30) && TAGGED(self, h) && 1 <= HS(self, h) && h + HS(self, h) - 1 <= self->last_used_slot && self->data[h + HS(self, h) - 1] == self->data[h])
/* heads are 0 or other holes with room for their pointer slots, none of them is h (h is not tracked yet) */
__CPROVER_requires(NO_HEAD_IS(self, h))
__CPROVER_requires(self->grid_bottom >= 0 && self->grid_top >= 0 && self->huge_holes >= 0 && NB_OK(self, self->grid_bottom, 4) && NB_OK(self, self->grid_top, 4) && NB_OK(self, self->huge_holes, 4))
__CPROVER_requires((self->grid_bottom == 0) == (self->grid_top == 0))
__CPROVER_requires(self->grid_top == 0 || (TAGGED(self, self->grid_top) && DISJ(self, self->grid_top, h)))
__CPROVER_requires(DISJ(self, self->grid_bottom, h) && DISJ(self, self->huge_holes, h))
__CPROVER_requires(!IS_MEDIUM(self, h) || (self->medium_hole_list[HS(self, h)] >= 0 && NB_OK(self, self->medium_hole_list[HS(self, h)], 2) && DISJ(self, self->medium_hole_list[HS(self, h)], h)))
/* what the row search may return (assumed grid shape): an index hole of the grid, away from h, with neighbours away from h */
__CPROVER_requires(g_row_current >= 1 && (size_t)g_row_current + 4 <= self->last_used_slot && DISJ(self, g_row_current, h) && TAGGED(self, g_row_current))
__CPROVER_requires(NB_OK(self, SLOT(self, g_row_current, 2), 4) && NB_OK(self, SLOT(self, g_row_current, 3), 4) && NB_OK(self, SLOT(self, g_row_current, 4), 4) && SLOT(self, g_row_current, 2) >= 0 && SLOT(self, g_row_current, 3) >= 0 && SLOT(self, g_row_current, 4) >= 0)
__CPROVER_requires(DISJ(self, SLOT(self, g_row_current, 2), h) && DISJ(self, SLOT(self, g_row_current, 3), h) && DISJ(self, SLOT(self, g_row_current, 4), h))
/* the live slot is outside h and outside the pointer slots of every hole that may be relinked */
#define AWAY(x) ((x) == 0 || ghost_g < (size_t)(x) || ghost_g > (size_t)(x) + 4)
__CPROVER_requires(ghost_g <= self->last_used_slot && (ghost_g < h || ghost_g >= h + HS(self, h)))
__CPROVER_requires(AWAY(self->grid_bottom) && AWAY(self->grid_top) && AWAY(self->huge_holes) && AWAY(g_row_current) && AWAY(SLOT(self, g_row_current, 2)) && AWAY(SLOT(self, g_row_current, 3)) && AWAY(SLOT(self, g_row_current, 4)))
__CPROVER_requires(!IS_MEDIUM(self, h) || AWAY(self->medium_hole_list[HS(self, h)]))
__CPROVER_assigns(self->grid_bottom, self->grid_top, self->huge_holes, __CPROVER_object_upto(self->medium_hole_list, sizeof(self->medium_hole_list)))
__CPROVER_assigns(self->num_small_holes, self->num_small_slots, self->num_grid_holes, self->num_grid_slots, self->num_huge_holes, self->num_huge_slots, self->num_medium_slots, __CPROVER_object_upto(self->num_medium_holes, sizeof(self->num_medium_holes)))
__CPROVER_assigns(__CPROVER_object_whole(self->data))
ENSURES(boundary_tags_untouched, self->data[h] == __CPROVER_old(self->data[h]) && self->data[h + HS(self, h) - 1] == __CPROVER_old(self->data[h + HS(self, h) - 1]))
ENSURES(live_slots_are_never_altered, self->data[ghost_g] == __CPROVER_old(self->data[ghost_g]))
ENSURES(medium_hole_heads_its_list, !IS_MEDIUM(self, h) || ((size_t)self->medium_hole_list[HS(self, h)] == h && SLOT(self, h, 1) == 0 && SLOT(self, h, 2) == __CPROVER_old(self->medium_hole_list[TAGSIZE(self, h) % LargeHoleSize])))   /* old() is evaluated unconditionally: keep its index in range */
ENSURES(old_medium_head_points_back, !IS_MEDIUM(self, h) || SLOT(self, h, 2) == 0 || (size_t)SLOT(self, SLOT(self, h, 2), 1) == h)
ENSURES(huge_hole_heads_the_huge_list, !IS_HUGE(self, h) || ((size_t)self->huge_holes == h && SLOT(self, h, 1) == 0 && SLOT(self, h, 2) == __CPROVER_old(self->huge_holes) && (SLOT(self, h, 2) == 0 || (size_t)SLOT(self, SLOT(self, h, 2), 1) == h)))
ENSURES(first_grid_hole_is_bottom_and_top, !IN_GRID(self, h) || __CPROVER_old(self->grid_bottom) != 0 || ((size_t)self->grid_bottom == h && (size_t)self->grid_top == h && SLOT(self, h, 1) == 0 && SLOT(self, h, 2) == 0 && SLOT(self, h, 3) == 0 && SLOT(self, h, 4) == 0))
ENSURES(larger_than_all_becomes_new_top, !IN_GRID(self, h) || __CPROVER_old(self->grid_bottom) == 0 || HS(self, h) <= (size_t)(__CPROVER_old(self->data[self->grid_top]) & ~MSBINT) || ((size_t)self->grid_top == h && SLOT(self, h, 3) == 0 && SLOT(self, h, 4) == __CPROVER_old(self->grid_top) && (size_t)SLOT(self, __CPROVER_old(self->grid_top), 3) == h))
ENSURES(small_holes_are_not_linked, HS(self, h) >= MediumHoleSize || (self->grid_bottom == __CPROVER_old(self->grid_bottom) && self->grid_top == __CPROVER_old(self->grid_top) && self->huge_holes == __CPROVER_old(self->huge_holes)))
ENSURES(arena_extent_untouched, self->last_used_slot == __CPROVER_old(self->last_used_slot))
;
