# U-cmpfac: which comparison kernel an operation factory instantiates for which operand types (C05: "for integer and real multi-terminal forests and for EV+ and EV*"):
# the six <X>_factory::build_new of src/operations/compare.cc.  The new-expressions on template classes are mapped (text_subst) to a ghost constructor that records the
# template arguments; everything else is the real body with the real forest getters.
C = 'src/operations/compare.cc'
FH = 'src/forest.h'
FACT = [('EQUAL', 'eq'), ('NEQ', 'ne'), ('GT', 'gt'), ('GE', 'ge'), ('LT', 'lt'), ('LE', 'le')]
def job(name, enforce, replace=(), props=('C05',), **kw):
    d = dict(name=name, entry='h_' + name, enforce=enforce, replace=list(replace), props=list(props))
    d.update(kw)
    return d
AFACT = [('PLUS', 'plus'), ('MINUS', 'minus'), ('MULT', 'mult'), ('DIV', 'div'), ('MOD', 'mod'), ('MAXIMUM', 'max'), ('MINIMUM', 'min'), ('DISTMIN', 'distmin')]
def afile(op):
    return 'src/operations/arith_%s.cc' % op
UNIT = {
    'name': 'cmpfac',
    'enums': [('src/policies.h', 'edge_labeling'), ('src/rangeval.h', 'range_type'), ('src/edge_value.h', 'edge_type')],
    'classes': dict([('binary_operation', {'opaque': True}),
                     ('forest', {'file': FH, 'fields': ['rangeType', 'edgeLabel', 'the_edge_type']})] + [(f + '_factory', {'opaque': True}) for f, _ in FACT + AFACT]),
    'foreign': {'isMultiTerminal': {'*': 'forest'}, 'isEVTimes': {'*': 'forest'}, 'isEVPlus': {'*': 'forest'}, 'getRangeType': {'*': 'forest'}, 'getEdgeType': {'*': 'forest'}},
    'text_subst': [
        (r'new compare_mt<(\w+?)_mt<(\w+)> >\s*\(a,b,c\)', r'verif_new_compare_mt(CMPOP_\1, TY_\2, a, b, c)', C),
        (r'new compare_ev<EdgeOp_(\w+)<(\w+)>,\s*ev(\w+)_factor<(\w+)>,\s*(\w+?)_ev(\w+)<(\w+)> >\s*\(a,b,c\)', r'verif_new_compare_ev(EOP_\1, TY_\2, FAC_\3, TY_\4, CMPOP_\5, LAB_\6, TY_\7, a, b, c)', C),
    ] + [(r'new arith_(\w+)<EdgeOp_(\w+?)(?:<(\w+)>)?,\s*(mt|evplus|evstar)_(\w+)<(\w+)>\s*>\s*\(a,b,c\)', r'verif_new_arith(TPL_\1, EOP_\2, TY_\3, ALAB_\4, AOP_\5, TY_\6, a, b, c)', afile(op)) for _, op in AFACT],
    'extra_free': {'verif_new_compare_mt': 'verif_new_compare_mt', 'verif_new_compare_ev': 'verif_new_compare_ev', 'verif_new_arith': 'verif_new_arith'},
    'functions': [
        dict(cls='forest', name='isMultiTerminal', file=FH), dict(cls='forest', name='isEVTimes', file=FH), dict(cls='forest', name='isEVPlus', file=FH),
        dict(cls='forest', name='getRangeType', file=FH), dict(cls='forest', name='getEdgeType', file=FH),
    ] + [dict(cls=f + '_factory', name='build_new', file=C, where='out', static=True, cname=f + '_factory__build_new', fires={'R9subst': 6}) for f, _ in FACT]
      + [dict(cls=f + '_factory', name='build_new', file=afile(op), where='out', static=True, cname=f + '_factory__build_new') for f, op in AFACT],
    'stubs': ['`new compare_mt<X_mt<T> >(a,b,c)` and `new compare_ev<EdgeOp_E<T1>, evE_factor<T2>, X_evL<T3> >(a,b,c)` are mapped (text_subst, must fire 6 times per factory) to ghost constructors recording X, E, L and the types'],
    'assumptions': ['only the choice of instance; the instances themselves (compare_mt / compare_ev recursion) are not under contract, their scalar kernels are in U-arith'],
    'unverified_surroundings': {'C05': ['the other operation factories (set algebra, copy, ...)']},
    'jobs': [job('%s_factory' % c, '%s_factory__build_new' % f, ['verif_new_compare_mt', 'verif_new_compare_ev'], defines=['FAC_CMP=CMPOP_%s' % c]) for f, c in FACT]
          + [job('%s_factory' % op, '%s_factory__build_new' % f, ['verif_new_arith'], defines=['FAC_AOP=AOP_%s' % op]) for f, op in AFACT],
}
