/* U-cmpfac: the comparison and arithmetic factories instantiate the kernel that matches the operand types (C05) */
/* each job defines the operation of the factory it enforces; the other contracts are only declared */
#ifndef FAC_AOP
#define FAC_AOP 0
#endif
#ifndef FAC_CMP
#define FAC_CMP 0
#endif
enum { CMPOP_eq = 1, CMPOP_ne, CMPOP_gt, CMPOP_ge, CMPOP_lt, CMPOP_le };
enum { TY_int = 1, TY_long, TY_float, TY_double };
enum { EOP_plus = 1, EOP_times };
enum { FAC_plus = 1, FAC_star };
enum { LAB_plus = 1, LAB_star };
/* ghost record of the one instance that is built */
unsigned g_built; int g_kind_mt, g_cmp, g_ty1, g_ty2, g_ty3, g_eop, g_fac, g_lab; struct binary_operation *g_new_op;
struct binary_operation *verif_new_compare_mt(int cmp, int ty, struct forest *a, struct forest *b, struct forest *c)
__CPROVER_requires(a != NULL && b != NULL && c != NULL)
__CPROVER_assigns(g_built, g_kind_mt, g_cmp, g_ty1)
__CPROVER_ensures(g_built == __CPROVER_old(g_built) + 1 && g_kind_mt == 1 && g_cmp == cmp && g_ty1 == ty && __CPROVER_return_value == g_new_op);
struct binary_operation *verif_new_compare_ev(int eop, int t1, int fac, int t2, int cmp, int lab, int t3, struct forest *a, struct forest *b, struct forest *c)
__CPROVER_requires(a != NULL && b != NULL && c != NULL)
__CPROVER_assigns(g_built, g_kind_mt, g_cmp, g_ty1, g_ty2, g_ty3, g_eop, g_fac, g_lab)
__CPROVER_ensures(g_built == __CPROVER_old(g_built) + 1 && g_kind_mt == 0 && g_cmp == cmp && g_ty1 == t1 && g_ty2 == t2 && g_ty3 == t3 && g_eop == eop && g_fac == fac && g_lab == lab && __CPROVER_return_value == g_new_op);

#define EDGE_TY(f) ((f)->the_edge_type == edge_type__INT ? TY_int : (f)->the_edge_type == edge_type__LONG ? TY_long : (f)->the_edge_type == edge_type__FLOAT ? TY_float : TY_double)
#define FACTORY_CONTRACT(name) \
struct binary_operation *name(struct forest *a, struct forest *b, struct forest *c) \
__CPROVER_requires(__CPROVER_is_fresh(a, sizeof(*a)) && __CPROVER_is_fresh(b, sizeof(*b)) && __CPROVER_is_fresh(c, sizeof(*c)) && verif_exc == 0 && g_built < 1000000 && g_new_op != NULL) \
/* the operation's constructor checks that both operands have the same labelling (U-opchk); EV forests carry integer (EV+) or real (EV*) edge values */ \
__CPROVER_requires(a->edgeLabel == b->edgeLabel) \
__CPROVER_assigns(g_built, g_kind_mt, g_cmp, g_ty1, g_ty2, g_ty3, g_eop, g_fac, g_lab) \
ENSURES(at_most_one_instance_is_built, g_built <= __CPROVER_old(g_built) + 1 && (__CPROVER_return_value != NULL) == (g_built == __CPROVER_old(g_built) + 1)) \
ENSURES(the_instance_is_this_factorys_comparison, __CPROVER_return_value == NULL || g_cmp == FAC_CMP) \
ENSURES(multi_terminal_operands_get_the_multi_terminal_kernel, __CPROVER_return_value == NULL || (g_kind_mt == 1) == (a->edgeLabel == edge_labeling__MULTI_TERMINAL)) \
ENSURES(real_valued_operands_are_compared_as_reals, !(a->edgeLabel == edge_labeling__MULTI_TERMINAL) || (__CPROVER_return_value != NULL && \
        g_ty1 == ((a->rangeType == range_type__REAL || b->rangeType == range_type__REAL) ? TY_float : TY_long))) \
ENSURES(edge_valued_kernels_use_the_forests_edge_type_throughout, !(__CPROVER_return_value != NULL && g_kind_mt == 0) || (g_ty1 == EDGE_TY(a) && g_ty2 == EDGE_TY(a) && g_ty3 == EDGE_TY(a))) \
ENSURES(edge_valued_kernels_match_the_labelling, !(__CPROVER_return_value != NULL && g_kind_mt == 0) || \
        (a->edgeLabel == edge_labeling__EVTIMES ? (g_eop == EOP_times && g_fac == FAC_star && g_lab == LAB_star && (a->the_edge_type == edge_type__FLOAT || a->the_edge_type == edge_type__DOUBLE)) \
                                                : (g_eop == EOP_plus && g_fac == FAC_plus && g_lab == LAB_plus && (a->the_edge_type == edge_type__INT || a->the_edge_type == edge_type__LONG)))) \
;
FACTORY_CONTRACT(EQUAL_factory__build_new)
FACTORY_CONTRACT(NEQ_factory__build_new)
FACTORY_CONTRACT(GT_factory__build_new)
FACTORY_CONTRACT(GE_factory__build_new)
FACTORY_CONTRACT(LT_factory__build_new)
FACTORY_CONTRACT(LE_factory__build_new)

/* ---- arithmetic factories (arith_*.cc) ---- */
enum { TY_ = 0 };     /* EdgeOp_none carries no type */
enum { TPL_compat = 1, TPL_factor, TPL_pushdn };
enum { EOP_none = 3 };
enum { ALAB_mt = 1, ALAB_evplus, ALAB_evstar };
enum { AOP_plus = 1, AOP_minus, AOP_mult, AOP_div, AOP_mod, AOP_max, AOP_min, AOP_distmin };
int g_tpl, g_alab, g_aop;
struct binary_operation *verif_new_arith(int tpl, int eop, int t1, int alab, int aop, int t2, struct forest *a, struct forest *b, struct forest *c)
__CPROVER_requires(a != NULL && b != NULL && c != NULL)
__CPROVER_assigns(g_built, g_tpl, g_eop, g_ty1, g_alab, g_aop, g_ty2)
__CPROVER_ensures(g_built == __CPROVER_old(g_built) + 1 && g_tpl == tpl && g_eop == eop && g_ty1 == t1 && g_alab == alab && g_aop == aop && g_ty2 == t2 && __CPROVER_return_value == g_new_op);
#define CEDGE_TY(f) EDGE_TY(f)
#define AFACTORY_CONTRACT(name) \
struct binary_operation *name(struct forest *a, struct forest *b, struct forest *c) \
__CPROVER_requires(__CPROVER_is_fresh(a, sizeof(*a)) && __CPROVER_is_fresh(b, sizeof(*b)) && __CPROVER_is_fresh(c, sizeof(*c)) && verif_exc == 0 && g_built < 1000000 && g_new_op != NULL) \
__CPROVER_assigns(g_built, g_tpl, g_eop, g_ty1, g_alab, g_aop, g_ty2) \
ENSURES(at_most_one_instance_is_built, g_built <= __CPROVER_old(g_built) + 1 && (__CPROVER_return_value != NULL) == (g_built == __CPROVER_old(g_built) + 1)) \
ENSURES(the_instance_is_this_factorys_operation, __CPROVER_return_value == NULL || g_aop == FAC_AOP) \
ENSURES(the_kernel_family_matches_the_result_labelling, __CPROVER_return_value == NULL || \
        (g_alab == (c->edgeLabel == edge_labeling__MULTI_TERMINAL ? ALAB_mt : c->edgeLabel == edge_labeling__EVPLUS ? ALAB_evplus : ALAB_evstar) && \
         g_eop == (c->edgeLabel == edge_labeling__MULTI_TERMINAL ? EOP_none : c->edgeLabel == edge_labeling__EVPLUS ? EOP_plus : EOP_times) && \
         (c->edgeLabel == edge_labeling__MULTI_TERMINAL || c->edgeLabel == edge_labeling__EVPLUS || c->edgeLabel == edge_labeling__EVTIMES))) \
ENSURES(real_valued_operands_get_the_real_valued_kernel, !(__CPROVER_return_value != NULL && c->edgeLabel == edge_labeling__MULTI_TERMINAL) || \
        (g_ty1 == TY_ && g_ty2 == ((a->rangeType == range_type__REAL || b->rangeType == range_type__REAL) ? TY_float : TY_long))) \
ENSURES(edge_valued_kernels_use_the_result_forests_edge_type, !(__CPROVER_return_value != NULL && c->edgeLabel != edge_labeling__MULTI_TERMINAL) || (g_ty1 == CEDGE_TY(c) && g_ty2 == CEDGE_TY(c) && \
        (c->edgeLabel == edge_labeling__EVPLUS ? (c->the_edge_type == edge_type__INT || c->the_edge_type == edge_type__LONG) : (c->the_edge_type == edge_type__FLOAT || c->the_edge_type == edge_type__DOUBLE)))) \
;
AFACTORY_CONTRACT(PLUS_factory__build_new)
AFACTORY_CONTRACT(MINUS_factory__build_new)
AFACTORY_CONTRACT(MULT_factory__build_new)
AFACTORY_CONTRACT(DIV_factory__build_new)
AFACTORY_CONTRACT(MOD_factory__build_new)
AFACTORY_CONTRACT(MAXIMUM_factory__build_new)
AFACTORY_CONTRACT(MINIMUM_factory__build_new)
AFACTORY_CONTRACT(DISTMIN_factory__build_new)
