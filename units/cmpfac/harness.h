void h_eq_factory(void) { struct forest *a, *b, *c; g_built = nondet_unsigned(); g_new_op = (struct binary_operation *)malloc(1); EQUAL_factory__build_new(a, b, c); CANARY(); }
void h_ne_factory(void) { struct forest *a, *b, *c; g_built = nondet_unsigned(); g_new_op = (struct binary_operation *)malloc(1); NEQ_factory__build_new(a, b, c); CANARY(); }
void h_gt_factory(void) { struct forest *a, *b, *c; g_built = nondet_unsigned(); g_new_op = (struct binary_operation *)malloc(1); GT_factory__build_new(a, b, c); CANARY(); }
void h_ge_factory(void) { struct forest *a, *b, *c; g_built = nondet_unsigned(); g_new_op = (struct binary_operation *)malloc(1); GE_factory__build_new(a, b, c); CANARY(); }
void h_lt_factory(void) { struct forest *a, *b, *c; g_built = nondet_unsigned(); g_new_op = (struct binary_operation *)malloc(1); LT_factory__build_new(a, b, c); CANARY(); }
void h_le_factory(void) { struct forest *a, *b, *c; g_built = nondet_unsigned(); g_new_op = (struct binary_operation *)malloc(1); LE_factory__build_new(a, b, c); CANARY(); }
