# U-reord: the reordering front (C13: "heuristic schedules of adjacent swaps src/reordering/*.h", "both swap methods"): the two inversion-driven schedules
# (lowest_inversion_reordering, highest_inversion_reordering), sink_down (the default) and bring_up and the swap-method selectors of policies.
LO = 'src/reordering/lowest_inversion_reordering.h'
HI = 'src/reordering/highest_inversion_reordering.h'
SD = 'src/reordering/sink_down_reordering.h'
BU = 'src/reordering/bring_up_reordering.h'
PH = 'src/policies.h'
def job(name, enforce, replace=(), props=('C13',), **kw):
    d = dict(name=name, entry='h_' + name, enforce=enforce, replace=list(replace), props=list(props))
    d.update(kw)
    return d
def bjob(name, props, **kw):
    d = dict(name=name, entry='h_' + name, props=list(props), plain=True, kind='bounded', unwind=8,
             flags=['--no-standard-checks', '--bounds-check', '--pointer-check', '--div-by-zero-check', '--unwinding-assertions'],
             loop_contracts=False, timeout=1800)
    d.update(kw)
    return d
ST = ['verif_numVariables', 'forest__getVarByLevel', 'forest__getLevelByVar', 'forest__swapAdjacentVariables']
UNIT = {
    'name': 'reord',
    'enums': [('src/policies.h', 'variable_swap_type')],
    'classes': {
        'forest': {'opaque': True},
        'policies': {'file': PH, 'fields': ['swap']},
        'lowest_inversion_reordering': {'opaque': True}, 'highest_inversion_reordering': {'opaque': True},
        'sink_down_reordering': {'opaque': True}, 'bring_up_reordering': {'opaque': True},
    },
    'foreign': {'getVarByLevel': {'*': 'forest'}, 'getLevelByVar': {'*': 'forest'}, 'swapAdjacentVariables': {'*': 'forest'}},
    'text_subst': [
        (r'forest->getDomain\(\)->getNumVariables\(\)', 'verif_numVariables(forest)', LO),
        (r'forest->getDomain\(\)->getNumVariables\(\)', 'verif_numVariables(forest)', HI),
        (r'forest->getDomain\(\)->getNumVariables\(\)', 'verif_numVariables(forest)', SD),
        (r'forest->getDomain\(\)->getNumVariables\(\)', 'verif_numVariables(forest)', BU),
    ],
    'extra_free': {'verif_numVariables': 'verif_numVariables'},
    'extra_methods': [
        dict(cls='forest', name='getVarByLevel', argc=1, cname='forest__getVarByLevel'),
        dict(cls='forest', name='getLevelByVar', argc=1, cname='forest__getLevelByVar'),
        dict(cls='forest', name='swapAdjacentVariables', argc=1, cname='forest__swapAdjacentVariables'),
    ],
    'functions': [
        dict(cls='policies', name='setVarSwap', file=PH), dict(cls='policies', name='isVarSwap', file=PH),
        dict(cls='policies', name='setLevelSwap', file=PH), dict(cls='policies', name='isLevelSwap', file=PH),
        dict(cls='lowest_inversion_reordering', name='reorderVariables', file=LO, loops=3, fires={'R9subst': 1}),
        dict(cls='highest_inversion_reordering', name='reorderVariables', file=HI, loops=3, fires={'R9subst': 1}),
        dict(cls='sink_down_reordering', name='reorderVariables', file=SD, loops=2, fires={'R9subst': 1}),
        dict(cls='bring_up_reordering', name='reorderVariables', file=BU, loops=2, fires={'R9subst': 1}),
    ],
    'stubs': ['executable stubs for the two schedules: the forest is its current order (an array); getVarByLevel reads it, swapAdjacentVariables(l) exchanges levels l and l+1 and asserts 1 <= l < n; forest::getDomain()->getNumVariables() is mapped (must fire) to the model size'],
    'assumptions': ['BOUNDED: domains of 1..RO_MAXN = 4 variables (5 in the thorough tier), every current order and every target order (both symbolic permutations); not counted as proved'],
    'unverified_surroundings': {'C13': ['the four cost-driven schedules (lowest_cost, lowest_memory, random, larc: they consult node counts of the forest)', 'forests/mtmxd.cc swaps']},
    'jobs': [
        job('swap_method_selectors', 'lemma_swap_method'),
        # the schedules read the whole target array: "every entry is a variable" is a universal precondition the point-wise technique cannot carry -> bounded stand-ins
        bjob('lowest_inversion_schedule', ['C13'], defines=['RO_LOWEST']),
        bjob('highest_inversion_schedule', ['C13'], defines=['RO_HIGHEST']),
        bjob('sink_down_schedule', ['C13'], defines=['RO_SINK']),
        bjob('bring_up_schedule', ['C13'], defines=['RO_BRING']),
        bjob('lowest_inversion_schedule_5', ['C13'], defines=['RO_LOWEST', 'RO_BIG'], unwind=9, tier='thorough', timeout=3600),
        bjob('highest_inversion_schedule_5', ['C13'], defines=['RO_HIGHEST', 'RO_BIG'], unwind=9, tier='thorough', timeout=3600),
        bjob('sink_down_schedule_5', ['C13'], defines=['RO_SINK', 'RO_BIG'], unwind=9, tier='thorough', timeout=3600),
        bjob('bring_up_schedule_5', ['C13'], defines=['RO_BRING', 'RO_BIG'], unwind=9, tier='thorough', timeout=3600),
    ],
}
