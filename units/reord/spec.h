/* U-reord */
/* operator new[] throws std::bad_alloc on failure: the path ends (not a MEDDLY error).  The block has EXACTLY n elements (so an access at n is out of bounds);
   the size is case-split into constants because CBMC turns a heap object of symbolic size into a byte array that does not solve */
#undef VERIF_NEW_ARRAY
#define VERIF_ALLOC_K(T, k) (T *)malloc(sizeof(T) * (k))
#define VERIF_NEW_ARRAY(T, n) ({ size_t verif_n_ = (size_t)(n); T *verif_p_ = \
    verif_n_ == 0 ? VERIF_ALLOC_K(T, 0) : verif_n_ == 1 ? VERIF_ALLOC_K(T, 1) : verif_n_ == 2 ? VERIF_ALLOC_K(T, 2) : verif_n_ == 3 ? VERIF_ALLOC_K(T, 3) : \
    verif_n_ == 4 ? VERIF_ALLOC_K(T, 4) : verif_n_ == 5 ? VERIF_ALLOC_K(T, 5) : verif_n_ == 6 ? VERIF_ALLOC_K(T, 6) : verif_n_ == 7 ? VERIF_ALLOC_K(T, 7) : (T *)0; \
    __CPROVER_assume(verif_n_ <= 7 && verif_p_ != NULL); verif_p_; })
#ifdef RO_BIG
#define RO_MAXN 5
#else
#define RO_MAXN 4
#endif
int ro_n;                         /* number of variables */
int ro_cur[RO_MAXN + 2];          /* the forest's current order: variable at each level (1..n) */
unsigned ro_swaps;
int verif_numVariables(const struct forest *f) { return ro_n; }
int forest__getVarByLevel(const struct forest *f, int k)
{
    __CPROVER_assert(1 <= k && k <= ro_n, "bounded: a level of the domain is asked for its variable");
    return ro_cur[k];
}
int forest__getLevelByVar(const struct forest *f, int v)
{
    __CPROVER_assert(1 <= v && v <= ro_n, "bounded: a variable of the domain is asked for its level");
    for (int k = 1; k <= RO_MAXN; k++) if (k <= ro_n && ro_cur[k] == v) return k;
    return 0;
}
void forest__swapAdjacentVariables(struct forest *f, int k)
{
    __CPROVER_assert(1 <= k && k < ro_n, "bounded: only adjacent levels inside the domain are swapped");
    int t = ro_cur[k]; ro_cur[k] = ro_cur[k + 1]; ro_cur[k + 1] = t; ro_swaps++;
}

/* exactly one swap method is selected at any time, and each can be selected (policies.h) */
int lemma_swap_method(struct policies *p)
__CPROVER_requires(__CPROVER_is_fresh(p, sizeof(*p)))
__CPROVER_assigns(p->swap)
ENSURES(variable_swap_can_be_selected, (__CPROVER_return_value & 1) != 0)
ENSURES(level_swap_can_be_selected, (__CPROVER_return_value & 2) != 0)
ENSURES(the_two_methods_exclude_each_other, (__CPROVER_return_value & 4) != 0)
;
