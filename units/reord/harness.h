#if !defined(RO_LOWEST) && !defined(RO_HIGHEST) && !defined(RO_SINK) && !defined(RO_BRING)
int lemma_swap_method(struct policies *p)
{
    int ok = 0;
    _Bool excl = (policies__isVarSwap(p) && policies__isLevelSwap(p)) ? 0 : 1;
    policies__setVarSwap(p);
    if (policies__isVarSwap(p)) ok |= 1;
    if (policies__isVarSwap(p) && policies__isLevelSwap(p)) excl = 0;
    policies__setLevelSwap(p);
    if (policies__isLevelSwap(p)) ok |= 2;
    if (policies__isVarSwap(p) && policies__isLevelSwap(p)) excl = 0;
    if (excl) ok |= 4;
    return ok;
}
void h_swap_method_selectors(void) { struct policies *p; lemma_swap_method(p); CANARY(); }
#else
static void ro_schedule(void)
{
    struct forest *f = (struct forest *)malloc(1); __CPROVER_assume(f != NULL);
    ro_n = nondet_int(); __CPROVER_assume(1 <= ro_n && ro_n <= RO_MAXN);
    int target[RO_MAXN + 2];
    for (int i = 0; i < RO_MAXN + 2; i++) { ro_cur[i] = nondet_int(); target[i] = nondet_int(); }
    ro_cur[0] = 0; target[0] = 0;
    /* both orders are permutations of 1..n */
    for (int i = 1; i <= RO_MAXN; i++) if (i <= ro_n) {
        __CPROVER_assume(1 <= ro_cur[i] && ro_cur[i] <= ro_n && 1 <= target[i] && target[i] <= ro_n);
        for (int j = 1; j <= RO_MAXN; j++) if (j < i) __CPROVER_assume(ro_cur[i] != ro_cur[j] && target[i] != target[j]);
    }
    ro_swaps = 0; verif_exc = 0;
#ifdef RO_LOWEST
    lowest_inversion_reordering__reorderVariables(NULL, f, target);
#elif defined(RO_HIGHEST)
    highest_inversion_reordering__reorderVariables(NULL, f, target);
#elif defined(RO_SINK)
    sink_down_reordering__reorderVariables(NULL, f, target);
#else
    bring_up_reordering__reorderVariables(NULL, f, target);
#endif
    for (int i = 1; i <= RO_MAXN; i++) if (i <= ro_n) __CPROVER_assert(ro_cur[i] == target[i], "bounded: the schedule reaches the target order");
    CANARY();
}
void h_lowest_inversion_schedule(void) { ro_schedule(); }
void h_highest_inversion_schedule(void) { ro_schedule(); }
void h_sink_down_schedule(void) { ro_schedule(); }
void h_bring_up_schedule(void) { ro_schedule(); }
void h_lowest_inversion_schedule_5(void) { ro_schedule(); }
void h_highest_inversion_schedule_5(void) { ro_schedule(); }
void h_sink_down_schedule_5(void) { ro_schedule(); }
void h_bring_up_schedule_5(void) { ro_schedule(); }
#endif
