# U-mmagreq: array_plus_grid<int>::requestChunk (C18, C12): which hole is handed out (medium list, grid row, huge list, fresh space) and the
# re-filing of the huge-hole list when the maximum request grows.  Same approach as U-mmog: the hole index is used through assumed-shape contracts.
A = 'src/memory_managers/array_grid.cc'
H = 'src/memory_managers/hole_base.h'
M = 'src/memory.h'
def job(name, enforce, replace=(), props=('C18', 'C12'), **kw):
    d = dict(name=name, entry='h_' + name, enforce=enforce, replace=list(replace), props=list(props))
    d.update(kw)
    return d
def hf(name, **kw):
    d = dict(cls='array_plus_grid', src_cls='hole_manager', name=name, file=H)
    d.update(kw)
    return d
def af(name, **kw):
    d = dict(cls='array_plus_grid', name=name, file=A)
    d.update(kw)
    return d
ST = ['array_plus_grid__incMemUsed', 'array_plus_grid__Next_ro', 'array_plus_grid__startTrackingHole', 'array_plus_grid__stopTrackingHole', 'array_plus_grid__moveCurrentToRow',
      'array_plus_grid__recycleChunk', 'array_plus_grid__allocateFromArray', 'array_plus_grid__clearHole']
UNIT = {
    'name': 'mmagreq',
    'typedefs': [('src/defines.h', 'node_address')],
    'subst': {'INT': 'int'},
    'consts': [(A, ['MediumHoleSize', 'LargeHoleSize'])],
    'classes': {
        'array_plus_grid': {'file': A, 'bases': ['memory_manager', 'hole_manager'], 'base_files': {'memory_manager': M, 'hole_manager': H},
                            'fields': ['data', 'data_alloc', 'last_used_slot', 'MSB', 'medium_hole_list', 'grid_bottom', 'grid_top', 'grid_current', 'max_request', 'huge_holes', 'chunk_base']},
    },
    'text_subst': [
        (r'hole_manager<INT>::', '', A),
        (r'memory_manager::', '', A),
        (r'printf\([^;]*;', ';', A), (r'printf\([^;]*;', ';', H),
        # the successor of grid_current is used through an assumed-shape contract; the links of the huge list are READ from the arena (real accessor) with the list shape
        # assumed at the point of the read - unless the hole has just been re-filed, which overwrites its links (ghost g_refiled)
        (r'(?<![\w.])Next\(grid_current\)', 'Next_ro(grid_current)', A),
        (r'INT next = Next\(curr\);', 'INT next = Next(curr); VERIF_LINK_OF(curr, next);', A),
    ],
    'forwarders': [
        (A, 'array_plus_grid', 'isHole', r'^\{\s*return hole_manager<INT>::isHole\(h\);\s*\}$'),
        (A, 'array_plus_grid', 'getHoleSize', r'^\{\s*return hole_manager<INT>::getHoleSize\(h\);\s*\}$'),
    ],
    'extra_methods': [
        dict(cls='array_plus_grid', name='incMemUsed', argc=1, cname='array_plus_grid__incMemUsed'),
        dict(cls='array_plus_grid', name='Next_ro', argc=1, cname='array_plus_grid__Next_ro'),
        dict(cls='array_plus_grid', name='startTrackingHole', argc=1, cname='array_plus_grid__startTrackingHole'),
        dict(cls='array_plus_grid', name='stopTrackingHole', argc=1, cname='array_plus_grid__stopTrackingHole'),
        dict(cls='array_plus_grid', name='moveCurrentToRow', argc=2, cname='array_plus_grid__moveCurrentToRow'),
        dict(cls='array_plus_grid', name='recycleChunk', argc=2, cname='array_plus_grid__recycleChunk'),
        dict(cls='array_plus_grid', name='allocateFromArray', argc=1, cname='array_plus_grid__allocateFromArray'),
        dict(cls='array_plus_grid', name='clearHole', argc=2, cname='array_plus_grid__clearHole'),
    ],
    'ref_params': {'array_plus_grid__moveCurrentToRow': [2]},
    'extra_free': {'VERIF_LINK_OF': 'VERIF_LINK_OF'},
    'functions': [
        hf('isHole'), hf('getHoleSize'), hf('readSlot'), af('Next'),
        af('requestChunk', where='out', loops=1),
    ],
    'stubs': [
        'array_plus_grid::Next (read-only use), moveCurrentToRow, startTrackingHole, stopTrackingHole: the hole index. ASSUMED shape: the successor in a list / row is 0 or another hole '
        '(of the same size inside a grid row), disjoint from its predecessor; moveCurrentToRow answers 0 only with a row of exactly the requested size; the head of the medium list for a size is 0 or a hole '
        'of exactly that size; the head of the huge list is 0 or a hole larger than every request so far',
        'startTrackingHole(h) classifies h with the CURRENT max_request: larger goes to the head of the huge list; stopTrackingHole carries the obligation "the hole taken is large enough for the request"',
        'recycleChunk (leftover; under contract in U-mmag), allocateFromArray (U-mmag), clearHole, memory statistics: ghost-recorded',
    ],
    'assumptions': ['INT = int; hole sizes below 2^30'],
    'unverified_surroundings': {'C18': ['array_grid.cc moveCurrentToRow (row search)'], 'C12': ['array_grid.cc moveCurrentToRow (row search)']},
    'jobs': [
        job('ag_requestChunk', 'array_plus_grid__requestChunk', ST, loops=1, object_bits=12),      # ~3 min
    ],
}
