void h_ag_requestChunk(void)
{
    struct array_plus_grid *m; size_t *n;
    g_request = nondet_size_t(); g_starts = nondet_unsigned(); g_stops = nondet_unsigned(); g_recycles = nondet_unsigned(); g_allocs = nondet_unsigned();
    g_alloc_result = nondet_ulong(); g_next = nondet_int(); g_row_result = nondet_int(); g_row_current = nondet_int(); g_refiled = 0;
    array_plus_grid__requestChunk(m, n);
    CANARY();
}
