#define LOOP_array_plus_grid__requestChunk_1 \
    __CPROVER_assigns(curr, g_starts, self->huge_holes, self->grid_bottom, self->grid_top, self->grid_current, __CPROVER_object_upto(self->medium_hole_list, sizeof(self->medium_hole_list)), __CPROVER_object_whole(self->data)) \
    __CPROVER_loop_invariant(curr >= 0 && HOLE_OR_0(self, curr) && self->data[0] == 0) \
    __CPROVER_loop_invariant(self->huge_holes >= 0 && (self->huge_holes == 0 || (HOLE_OK(self, self->huge_holes) && TAGSIZE(self, self->huge_holes) >= LargeHoleSize && TAGSIZE(self, self->huge_holes) > self->max_request)))
