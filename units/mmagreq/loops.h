#define LOOP_array_plus_grid__requestChunk_1 \
    __CPROVER_assigns(curr, g_starts, g_refiled, self->huge_holes, self->grid_bottom, self->grid_top, self->grid_current, __CPROVER_object_whole(self->data)) \
    __CPROVER_loop_invariant(curr >= 0 && (curr == 0 || (HOLE_OK(self, curr) && TAGSIZE(self, curr) >= LargeHoleSize)) && self->data[0] == 0 && (curr == 0 || ((size_t)curr != g_refiled && AWAY_FROM(self, curr, MED_HEAD(self, *numSlots))))) \
    __CPROVER_loop_invariant(*numSlots >= LargeHoleSize || (self->medium_hole_list[*numSlots] >= 0 && (self->medium_hole_list[*numSlots] == 0 || (HOLE_OK(self, self->medium_hole_list[*numSlots]) && TAGSIZE(self, self->medium_hole_list[*numSlots]) == *numSlots)))) \
    __CPROVER_loop_invariant(self->huge_holes >= 0 && (self->huge_holes == 0 || (HOLE_OK(self, self->huge_holes) && TAGSIZE(self, self->huge_holes) >= LargeHoleSize && TAGSIZE(self, self->huge_holes) > self->max_request)))
/* (the medium-list head that may serve this request keeps its tags while large holes are re-filed) */
