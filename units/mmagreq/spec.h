/* U-mmagreq: array_plus_grid<int>::requestChunk (C18 / C12) */
#define AG_MAXALLOC (1ul << 30)
size_t g_request;                      /* witness: the number of slots asked for */
unsigned g_starts, g_stops, g_recycles, g_allocs; node_address g_stop_arg, g_recycle_at; size_t g_recycle_n;
node_address g_alloc_result;
int g_next, g_row_result, g_row_current;
node_address g_refiled;               /* ghost: the hole startTrackingHole was last called on (its pointer slots were overwritten) */
/* ASSUMED list shape, at the point where a link is read from the arena: the successor in the huge list is 0 or another huge hole, disjoint from its predecessor -
 * unless the predecessor has just been re-filed: then its links are whatever startTrackingHole wrote */
/* holes are disjoint: in particular a hole of the huge list does not overlap the medium-list head that may serve this request */
#define MED_HEAD(m, n)  ((n) < LargeHoleSize ? (m)->medium_hole_list[n] : 0)
#define AWAY_FROM(m, x, y) ((y) == 0 || (size_t)(x) + TAGSIZE(m, x) <= (size_t)(y) || (size_t)(x) >= (size_t)(y) + TAGSIZE(m, y))
#define VERIF_LINK_OF(curr, next) __CPROVER_assume((size_t)(curr) == g_refiled || ((next) >= 0 && ((next) == 0 || (HOLE_OK(self, next) && TAGSIZE(self, next) >= LargeHoleSize && AWAY_FROM(self, next, MED_HEAD(self, *numSlots)) && \
    ((size_t)(next) + TAGSIZE(self, next) <= (size_t)(curr) || (size_t)(next) >= (size_t)(curr) + TAGSIZE(self, curr))))))

#define MSBINT ((int)0x80000000)
#define TAGGED(m, k)   (((m)->data[k] & MSBINT) != 0)
#define TAGSIZE(m, k)  ((size_t)((m)->data[k] & ~MSBINT))
#define AG_REQ(m) \
    __CPROVER_requires(__CPROVER_is_fresh(m, sizeof(*(m)))) \
    __CPROVER_requires(1024 <= (m)->data_alloc && (m)->data_alloc <= AG_MAXALLOC && (m)->last_used_slot < (m)->data_alloc && (m)->MSB == MSBINT) \
    __CPROVER_requires(__CPROVER_is_fresh((m)->data, (m)->data_alloc * sizeof(int))) \
    __CPROVER_requires((m)->data[0] == 0 && verif_exc == 0)
/* x is a tracked hole: matching tags inside the used part of the arena, room for its pointer slots */
#define HOLE_OK(m, x) (1 <= (x) && (size_t)(x) <= (m)->last_used_slot && TAGGED(m, x) && MediumHoleSize <= TAGSIZE(m, x) && (size_t)(x) + TAGSIZE(m, x) - 1 <= (m)->last_used_slot && (m)->data[(x) + TAGSIZE(m, x) - 1] == (m)->data[x])
#define HOLE_OR_0(m, x) ((x) == 0 || HOLE_OK(m, x))

void array_plus_grid__incMemUsed(struct array_plus_grid *m, size_t b) __CPROVER_requires(1) __CPROVER_assigns() __CPROVER_ensures(1);
int array_plus_grid__Next_ro(const struct array_plus_grid *self, node_address h)
__CPROVER_requires(self != NULL) REQUIRES(list_successor_is_asked_of_a_hole, HOLE_OK(self, h))
__CPROVER_assigns()
__CPROVER_ensures(__CPROVER_return_value == g_next && g_next >= 0 && (g_next == 0 || (HOLE_OK(self, g_next) && ((size_t)g_next + TAGSIZE(self, g_next) <= h || (size_t)g_next >= h + TAGSIZE(self, h)))))
/* a grid row (and a medium list) holds holes of one size; only the huge list mixes sizes */
__CPROVER_ensures(g_next == 0 || TAGSIZE(self, h) > self->max_request || TAGSIZE(self, g_next) == TAGSIZE(self, h));
int array_plus_grid__moveCurrentToRow(const struct array_plus_grid *self, int size, int *current)
__CPROVER_requires(self != NULL && __CPROVER_rw_ok(current, sizeof(int)))
__CPROVER_assigns(*current)
__CPROVER_ensures(__CPROVER_return_value == g_row_result && *current == g_row_current)
/* ASSUMED grid shape: the answer 0 means *current is a tracked hole of exactly that size */
__CPROVER_ensures(g_row_result != 0 || (g_row_current >= 1 && HOLE_OK(self, g_row_current) && TAGSIZE(self, g_row_current) == (size_t)size));
void array_plus_grid__startTrackingHole(struct array_plus_grid *self, node_address h)
__CPROVER_requires(self != NULL) REQUIRES(a_hole_is_filed, HOLE_OK(self, h))
/* in requestChunk only holes of the huge list are re-filed; a large hole never enters a medium list (hence no medium list in the frame) */
REQUIRES(only_large_holes_are_refiled_here, TAGSIZE(self, h) >= LargeHoleSize)
__CPROVER_assigns(g_starts, g_refiled, self->huge_holes, self->grid_bottom, self->grid_top, self->grid_current)
__CPROVER_assigns(self->data[h + 1], self->data[h + 2], self->data[h + 3], self->data[h + 4])
__CPROVER_ensures(g_starts == __CPROVER_old(g_starts) + 1 && g_refiled == h)
/* classification with the maximum request the manager knows NOW (array_grid.cc startTrackingHole: huge iff larger than max_request) */
__CPROVER_ensures((TAGSIZE(self, h) >= LargeHoleSize && TAGSIZE(self, h) > self->max_request) ? (size_t)self->huge_holes == h : self->huge_holes == __CPROVER_old(self->huge_holes))
/* ASSUMED: filing keeps the heads what they are */
__CPROVER_ensures(self->huge_holes >= 0 && (self->huge_holes == 0 || (HOLE_OK(self, self->huge_holes) && TAGSIZE(self, self->huge_holes) >= LargeHoleSize && TAGSIZE(self, self->huge_holes) > self->max_request)));
void array_plus_grid__stopTrackingHole(struct array_plus_grid *self, node_address h)
__CPROVER_requires(self != NULL)
REQUIRES(the_hole_taken_for_a_request_is_a_hole, HOLE_OK(self, h))
REQUIRES(the_hole_taken_for_a_request_is_large_enough, TAGSIZE(self, h) >= g_request)
__CPROVER_assigns(g_stops, g_stop_arg, self->huge_holes, self->grid_bottom, self->grid_top, self->grid_current, __CPROVER_object_upto(self->medium_hole_list, sizeof(self->medium_hole_list)))
__CPROVER_ensures(g_stops == __CPROVER_old(g_stops) + 1 && g_stop_arg == h);
void array_plus_grid__clearHole(const struct array_plus_grid *self, node_address h, size_t n) __CPROVER_requires(self != NULL) __CPROVER_assigns() __CPROVER_ensures(1);
void array_plus_grid__recycleChunk(struct array_plus_grid *self, node_address h, size_t n)
__CPROVER_requires(self != NULL)
__CPROVER_assigns(g_recycles, g_recycle_at, g_recycle_n)
__CPROVER_ensures(g_recycles == __CPROVER_old(g_recycles) + 1 && g_recycle_at == h && g_recycle_n == n);
node_address array_plus_grid__allocateFromArray(struct array_plus_grid *self, size_t n)
__CPROVER_requires(self != NULL) __CPROVER_assigns(g_allocs) __CPROVER_ensures(g_allocs == __CPROVER_old(g_allocs) + 1 && __CPROVER_return_value == g_alloc_result);

node_address array_plus_grid__requestChunk(struct array_plus_grid *self, size_t *numSlots)
AG_REQ(self)
__CPROVER_requires(__CPROVER_is_fresh(numSlots, sizeof(size_t)) && 1 <= *numSlots && *numSlots < (1ul << 28) && self->last_used_slot < (1ul << 30) && self->max_request < (1ul << 28))
WITNESS(array_plus_grid__requestChunk, g_request == *numSlots)
__CPROVER_requires(g_request == *numSlots && g_refiled == 0)
/* ASSUMED shape of the hole index at entry */
__CPROVER_requires(self->huge_holes >= 0 && HOLE_OR_0(self, self->huge_holes) && (self->huge_holes == 0 || (TAGSIZE(self, self->huge_holes) >= LargeHoleSize && TAGSIZE(self, self->huge_holes) > self->max_request)))
__CPROVER_requires(*numSlots >= LargeHoleSize || (self->medium_hole_list[*numSlots] >= 0 && (self->medium_hole_list[*numSlots] == 0 || (HOLE_OK(self, self->medium_hole_list[*numSlots]) && TAGSIZE(self, self->medium_hole_list[*numSlots]) == *numSlots))))
__CPROVER_requires(self->huge_holes == 0 || AWAY_FROM(self, self->huge_holes, MED_HEAD(self, *numSlots)))
__CPROVER_requires(g_starts < 1000000 && g_stops < 1000000 && g_recycles < 1000000 && g_allocs < 1000000)
__CPROVER_assigns(g_refiled, *numSlots, self->max_request, self->huge_holes, self->grid_bottom, self->grid_top, self->grid_current, __CPROVER_object_upto(self->medium_hole_list, sizeof(self->medium_hole_list)),
                  g_starts, g_stops, g_stop_arg, g_recycles, g_recycle_at, g_recycle_n, g_allocs)
__CPROVER_assigns(__CPROVER_object_whole(self->data))
ENSURES(the_manager_remembers_the_largest_request, self->max_request >= g_request && self->max_request >= __CPROVER_old(self->max_request))
ENSURES(failure_is_reported_as_zero_slots, __CPROVER_return_value != 0 || *numSlots == 0)
ENSURES(a_recycled_hole_leaves_the_index_exactly_once, g_stops <= __CPROVER_old(g_stops) + 1 && (g_stops == __CPROVER_old(g_stops) || g_stop_arg == __CPROVER_return_value))
ENSURES(fresh_space_only_when_no_hole_was_taken, g_allocs == __CPROVER_old(g_allocs) || g_stops == __CPROVER_old(g_stops))
ENSURES(the_leftover_of_a_larger_hole_is_given_back, g_recycles == __CPROVER_old(g_recycles) || (g_recycles == __CPROVER_old(g_recycles) + 1 && g_recycle_at == __CPROVER_return_value + g_request && g_recycle_n >= 1))
;
