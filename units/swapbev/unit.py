# Bounded stand-in for evmdd_pluslong::swapAdjacentVariables (EV+ sets; anchor of C13, C02): the REAL body runs on a small symbolic
# world of nodes (at most SW_NODES stored nodes, variable sizes 2..SW_MAXSZ); every loop is UNWOUND (no loop contracts).
# Labelled bounded, never counted as proved.
FH = 'src/forest.h'
UH = 'src/unpacked_node.h'
MT = 'src/forests/evmdd_pluslong.cc'
def job(name, props, **kw):
    d = dict(name=name, entry='h_' + name, props=list(props), plain=True, kind='bounded', unwind=14, unwindset=['forest__swapAdjacentVariables.%d:4' % k for k in range(11)],
             flags=['--no-standard-checks', '--bounds-check', '--pointer-check', '--div-by-zero-check', '--unwinding-assertions'],
             loop_contracts=False, timeout=1800)
    d.update(kw)
    return d
def uf(name, **kw):
    d = dict(cls='unpacked_node', name=name, file=UH)
    d.update(kw)
    return d
UNIT = {
    'name': 'swapbev',
    'typedefs': [('src/defines.h', 'node_handle'), ('src/defines.h', 'node_address'), ('src/policies.h', 'node_storage_flags')],
    'enums': [('src/edge_value.h', 'edge_type')],
    'consts': [('src/policies.h', ['FULL_ONLY', 'SPARSE_ONLY', 'FULL_OR_SPARSE'])],
    'classes': {
        'unique_table': {'opaque': True}, 'variable_order': {'opaque': True},
        'unpacked_node': {'file': UH, 'fields': ['_down', '_edge', 'size', 'level', 'is_full', 'the_edge_type'], 'override': {'_edge': 'long *_edge'}},
        'forest': {'file': FH, 'fields': ['unique', 'var_order'], 'override': {'var_order': 'struct variable_order *var_order'}},
    },
    'foreign': {
        'getNumEntries': {'*': 'unique_table'}, 'getItems': {'*': 'unique_table'},
        'getLevel': {'*': 'unpacked_node'}, 'getSize': {'*': 'unpacked_node'}, 'down': {'*': 'unpacked_node'}, 'setFull': {'*': 'unpacked_node'},
        'isFull': {'*': 'unpacked_node'}, 'hasEdges': {'*': 'unpacked_node'},
    },
    'text_subst': [
        (r'std::const_pointer_cast<variable_order>\(var_order\)->exchange\(hvar, lvar\)', 'variable_order__exchange(var_order, hvar, lvar)', MT),
        (r'unpacked_node::newFromNode\(this, ', 'unpacked_node__newFromNode(this, ', MT),
        (r'unpacked_node::newWritable\(this, ', 'unpacked_node__newWritable(this, ', MT),
        (r'unpacked_node::Recycle\(', 'unpacked_node__Recycle(', MT),
        # edge values of scratch nodes are read and written as longs (evmdd_pluslong stores long edge values); the edge_value wrapper is under contract elsewhere (U-edge, U-valedge)
        (r'long\((\w+)->edgeval\((\w+)\)\)', r'unpacked_node__edgeval_long(\1, \2)', MT),
        (r'low_nb->setFull\(k, sum_evs\[k\]\[j\], linkNode\(children\[k\]\[j\]\)\)', 'unpacked_node__setFull_ev(low_nb, k, sum_evs[k][j], linkNode(children[k][j]))', MT),
        (r'high_nb->setFull\(j, ev, node\)', 'unpacked_node__setFull_ev(high_nb, j, ev, node)', MT),
        (r'createReducedNode\(-1, low_nb, ev, node\)', 'forest__createReducedNode4(this, -1, low_nb, &ev, &node)', MT),
    ],
    'extra_free': {'isLevelAbove': 'isLevelAbove', 'variable_order__exchange': 'variable_order__exchange',
                   'unpacked_node__newFromNode': 'unpacked_node__newFromNode', 'unpacked_node__newWritable': 'unpacked_node__newWritable',
                   'unpacked_node__Recycle': 'unpacked_node__Recycle', 'unpacked_node__edgeval_long': 'unpacked_node__edgeval_long',
                   'unpacked_node__setFull_ev': 'unpacked_node__setFull_ev', 'forest__createReducedNode4': 'forest__createReducedNode4'},
    'extra_methods': [
        dict(cls='forest', name='getVarByLevel', argc=1, cname='forest__getVarByLevel'),
        dict(cls='forest', name='getVariableSize', argc=1, cname='forest__getVariableSize'),
        dict(cls='forest', name='getNumVariables', argc=0, cname='forest__getNumVariables'),
        dict(cls='forest', name='getNodeLevel', argc=1, cname='forest__getNodeLevel'),
        dict(cls='forest', name='setNodeLevel', argc=2, cname='forest__setNodeLevel'),
        dict(cls='forest', name='linkNode', argc=1, cname='forest__linkNode'),
        dict(cls='forest', name='createReducedNode', argc=2, cname='forest__createReducedNode2'),
        dict(cls='forest', name='modifyReducedNodeInPlace', argc=2, cname='forest__modifyReducedNodeInPlace'),
        dict(cls='forest', name='isActiveNode', argc=1, cname='forest__isActiveNode'),
    ],
    'functions': [
        dict(cls=None, name='isLevelAbove', file='src/defines.h'),
        uf('getLevel'), uf('getSize'), uf('isFull'), uf('hasEdges'),
        uf('down', sel=r'^unsigned n$', nth=0),
        uf('setFull', sel=r'^unsigned n, node_handle h$'),
        dict(cls='forest', src_cls='evmdd_pluslong', name='swapAdjacentVariables', file=MT),
    ],
    'stubs': ['executable stubs (bodies in units/swapb/spec.h): a symbolic world of at most SW_NODES stored nodes with labels and full child tables; '
              'unique table enumeration (getNumEntries/getItems list exactly the nodes labelled with the level of the variable); '
              'unpacked_node::newFromNode/newWritable/Recycle on heap copies; createReducedNode(in, nb, ev, node) stores the node as written and returns the edge value 0 (no normalisation, no reduction, no duplicate search: '
              'the real one is under contract in U-reduce; value + stored values is what the real one preserves); modifyReducedNodeInPlace overwrites the stored node; variable_order::exchange swaps the two variables'],
    'assumptions': ['BOUNDED: at most 2 stored nodes before the swap, both variables of size 2 (sizes 2..3 in the thorough tier), edge values in [0, 2^40), one adjacent pair of levels; not counted as proved',
                    'at entry every node labelled level+1 has children labelled <= level and every node labelled level has children labelled < level (C02 at entry)'],
    'unverified_surroundings': {'C13': ['reordering/*.h schedules', 'forests/mtmxd.cc swaps', 'forest.cc reorderVariables, removeAllComputeTableEntries'],
                                'C02': ['forests/mtmxd.cc swaps']},
    'jobs': [
        job('swap_adjacent_evmdd_2', ['C13', 'C02'], defines=['SW_NODES=2', 'SW_MAXSZ=2'], entry='h_swap_adjacent_evmdd', unwind=9, object_bits=12),
        job('swap_adjacent_evmdd_2x3', ['C13', 'C02'], defines=['SW_NODES=2', 'SW_MAXSZ=3'], entry='h_swap_adjacent_evmdd', unwind=12, object_bits=12, tier='thorough', timeout=7200),
    ],
}
