static int sw_lvl0[SW_CAP]; static node_handle sw_down0[SW_CAP][SW_MAXSZ]; static long sw_ev0[SW_CAP][SW_MAXSZ];
static int lvl0_of(node_handle c) { return c <= 0 ? 0 : sw_lvl0[c]; }
void h_swap_adjacent_evmdd(void)
{
    struct forest f; struct unique_table *ut = (struct unique_table *)malloc(1); struct variable_order *vo = (struct variable_order *)malloc(1);
    __CPROVER_assume(ut && vo); f.unique = ut; f.var_order = vo;
    /* ---- the world at entry ---- */
    sw_level = nondet_int(); __CPROVER_assume(1 <= sw_level && sw_level <= 3);
    sw_nvars = nondet_int(); __CPROVER_assume(sw_level < sw_nvars && sw_nvars <= 5);
    sw_var_lo0 = nondet_int(); sw_var_hi0 = nondet_int();
    __CPROVER_assume(1 <= sw_var_lo0 && sw_var_lo0 <= 5 && 1 <= sw_var_hi0 && sw_var_hi0 <= 5 && sw_var_lo0 != sw_var_hi0);
    sw_var_at_lo = sw_var_lo0; sw_var_at_hi = sw_var_hi0;
    sw_size_lo0 = nondet_int(); sw_size_hi0 = nondet_int();
    __CPROVER_assume(2 <= sw_size_lo0 && sw_size_lo0 <= SW_MAXSZ && 2 <= sw_size_hi0 && sw_size_hi0 <= SW_MAXSZ);
    sw_n = nondet_int(); __CPROVER_assume(0 <= sw_n && sw_n <= SW_NODES);
    const int n0 = sw_n, L = sw_level, hsz = sw_size_hi0, lsz = sw_size_lo0;
    for (int h = 1; h <= SW_NODES; h++) {
        sw_lvl[h] = nondet_int(); __CPROVER_assume(1 <= sw_lvl[h] && sw_lvl[h] <= L + 1);
        for (int k = 0; k < SW_MAXSZ; k++) { sw_down[h][k] = nondet_int(); __CPROVER_assume(-1 <= sw_down[h][k] && sw_down[h][k] <= n0);
            sw_ev[h][k] = nondet_long(); __CPROVER_assume(0 <= sw_ev[h][k] && sw_ev[h][k] < (1L << 40)); }     /* C02 at entry: EV+ edge values are non-negative */
    }
    /* C02 at entry: children lie strictly below their parents */
    for (int h = 1; h <= SW_NODES; h++) for (int k = 0; k < SW_MAXSZ; k++) {
        node_handle c = sw_down[h][k];
        if (h <= n0 && c > 0) __CPROVER_assume(sw_lvl[c] < sw_lvl[h]);
    }
    for (int h = 0; h < SW_CAP; h++) { sw_lvl0[h] = h <= n0 ? sw_lvl[h] : 0; sw_modified[h] = 0; for (int k = 0; k < SW_MAXSZ; k++) { sw_down0[h][k] = sw_down[h][k]; sw_ev0[h][k] = sw_ev[h][k]; } }
    sw_exchanges = 0; sw_links = 0; sw_created = 0; sw_unpacked_live = 0; verif_exc = 0;

    forest__swapAdjacentVariables(&f, L);

    /* ---- what the swap must have done (C13: same function of the renamed variables; C02: children below parents) ---- */
    __CPROVER_assert(sw_exchanges == 1 && sw_var_at_lo == sw_var_hi0 && sw_var_at_hi == sw_var_lo0, "bounded: the two variables are exchanged exactly once");
    unsigned rewritten = 0;
    for (int h = 1; h <= SW_NODES; h++) if (h <= n0) {
        if (sw_lvl0[h] == L + 1) {
            _Bool dep = 0;                 /* does the node depend on the lower variable? */
            for (int k = 0; k < SW_MAXSZ; k++) if (k < hsz && lvl0_of(sw_down0[h][k]) == L) dep = 1;
            if (dep) {
                rewritten++;
                __CPROVER_assert(sw_modified[h] == 1, "bounded: an upper node that depends on the lower variable is rewritten in place exactly once");
                __CPROVER_assert(sw_lvl[h] == L + 1, "bounded: a rewritten node stays at the upper level");
                for (int j = 0; j < SW_MAXSZ; j++) if (j < lsz) {
                    node_handle m = sw_down[h][j];
                    __CPROVER_assert(m > n0 && m <= sw_n, "bounded: children of a rewritten node are nodes built by the swap");
                    __CPROVER_assert(sw_lvl[m] == L, "bounded: children lie strictly below the rewritten parent");
                    for (int k = 0; k < SW_MAXSZ; k++) if (k < hsz) {
                        node_handle c = sw_down0[h][k];
                        node_handle expect = lvl0_of(c) == L ? sw_down0[c][j] : c;
                        __CPROVER_assert(sw_down[m][k] == expect, "bounded: new[j][k] == old[k][j] (same function of the exchanged variables)");
                        long expect_ev = sw_ev0[h][k] + (lvl0_of(c) == L ? sw_ev0[c][j] : 0);
                        __CPROVER_assert(sw_ev[h][j] + sw_ev[m][k] == expect_ev, "bounded: the value along new[j][k] is the value along old[k][j]");
                        __CPROVER_assert(sw_ev[h][j] >= 0 && sw_ev[m][k] >= 0, "bounded: edge values stay non-negative");
                    }
                }
            } else {
                __CPROVER_assert(sw_modified[h] == 0 && sw_lvl[h] == L, "bounded: an upper node independent of the lower variable is relabelled, not rewritten");
                for (int k = 0; k < SW_MAXSZ; k++) __CPROVER_assert(sw_down[h][k] == sw_down0[h][k] && sw_ev[h][k] == sw_ev0[h][k], "bounded: a relabelled node keeps its children");
            }
        } else if (sw_lvl0[h] == L) {
            __CPROVER_assert(sw_modified[h] == 0 && sw_lvl[h] == L + 1, "bounded: every lower node moves up one level");
            for (int k = 0; k < SW_MAXSZ; k++) __CPROVER_assert(sw_down[h][k] == sw_down0[h][k] && sw_ev[h][k] == sw_ev0[h][k], "bounded: a lower node keeps its children");
        } else {
            __CPROVER_assert(sw_modified[h] == 0 && sw_lvl[h] == sw_lvl0[h], "bounded: nodes of other levels are untouched");
        }
    }
    /* every stored node still has its children strictly below it (labels after the swap) */
    for (int h = 1; h < SW_CAP; h++) if (h <= sw_n && (sw_lvl[h] == L || sw_lvl[h] == L + 1)) {
        int sz = sw_size_of_var(sw_var_at_level(sw_lvl[h]));
        for (int k = 0; k < SW_MAXSZ; k++) if (k < sz) {
            node_handle c = sw_down[h][k];
            __CPROVER_assert(c <= 0 || (c <= sw_n && sw_lvl[c] < sw_lvl[h]), "bounded: after the swap children lie strictly below parents");
        }
    }
    __CPROVER_assert(sw_created == rewritten * (unsigned)lsz && sw_links == sw_created * (unsigned)hsz, "bounded: one link per child of every node built");
    __CPROVER_assert(sw_unpacked_live == 0, "bounded: every scratch node is recycled");
    CANARY();
}
