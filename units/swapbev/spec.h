/* Bounded EV+ swap harness: a small symbolic world of stored EV+MDD nodes (children and long edge values) with executable stubs (no contracts).
 * Everything the real swapAdjacentVariables calls outside itself is a stub that records what happened. */
#ifndef SW_NODES
#define SW_NODES 3                              /* stored nodes before the swap (quick tier: 2, thorough tier: 3) */
#endif
#ifndef SW_MAXSZ
#define SW_MAXSZ 3
#endif
//                              /* variable sizes 2..SW_MAXSZ */
#define SW_CAP   (1 + SW_NODES + SW_NODES * SW_MAXSZ)
int         sw_lvl[SW_CAP];                     /* label (level) of each stored node; index 0 unused */
node_handle sw_down[SW_CAP][SW_MAXSZ];          /* full child table */
long        sw_ev[SW_CAP][SW_MAXSZ];            /* edge value on each child edge */
int         sw_n;                               /* handles 1..sw_n are stored nodes */
int         sw_level;                           /* the lower level L of the swapped pair (L, L+1) */
int         sw_nvars;
int         sw_var_lo0, sw_var_hi0;             /* variables at L and L+1 at entry */
int         sw_var_at_lo, sw_var_at_hi;         /* ... now */
int         sw_size_lo0, sw_size_hi0;           /* sizes of the two variables (of the variable, not of the level) */
unsigned    sw_exchanges, sw_links, sw_created, sw_unpacked_live;
unsigned    sw_modified[SW_CAP];

static int sw_var_at_level(int k) { return k == sw_level ? sw_var_at_lo : k == sw_level + 1 ? sw_var_at_hi : 1000 + k; }
static int sw_size_of_var(int v)  { return v == sw_var_lo0 ? sw_size_lo0 : v == sw_var_hi0 ? sw_size_hi0 : 2; }
static int sw_level_of_var(int v) { return v == sw_var_at_lo ? sw_level : v == sw_var_at_hi ? sw_level + 1 : v - 1000; }

int forest__getNumVariables(const struct forest *f) { return sw_nvars; }
int forest__getVarByLevel(const struct forest *f, int k) { return sw_var_at_level(k); }
int forest__getVariableSize(const struct forest *f, int v) { return sw_size_of_var(v); }
_Bool forest__isActiveNode(const struct forest *f, node_handle p) { return 1 <= p && p <= sw_n; }
int forest__getNodeLevel(const struct forest *f, node_handle p)
{   /* forest.h getNodeLevel: terminals are at level 0 */
    if (p <= 0) return 0;
    __CPROVER_assert(p <= sw_n, "bounded: level asked of a stored node");
    return sw_lvl[p];
}
void forest__setNodeLevel(struct forest *f, node_handle p, int k)
{
    __CPROVER_assert(1 <= p && p <= sw_n, "bounded: level set on a stored node");
    sw_lvl[p] = k;
}
node_handle forest__linkNode(struct forest *f, node_handle p) { sw_links++; return p; }

int unique_table__getNumEntries(const struct unique_table *t, int var)
{
    int k = sw_level_of_var(var), c = 0;
    for (int h = 1; h < SW_CAP; h++) if (h <= sw_n && sw_lvl[h] == k) c++;
    return c;
}
void unique_table__getItems(const struct unique_table *t, int var, node_handle *items, int sz)
{
    int k = sw_level_of_var(var), c = 0;
    for (int h = 1; h < SW_CAP; h++) if (h <= sw_n && sw_lvl[h] == k) { __CPROVER_assert(c < sz, "bounded: item buffer large enough"); items[c++] = h; }
}

static struct unpacked_node *sw_new_unpacked(int lvl, unsigned sz)
{
    struct unpacked_node *u = (struct unpacked_node *)malloc(sizeof(struct unpacked_node));
    node_handle *d = (node_handle *)malloc(sizeof(node_handle) * sz);
    long *e = (long *)malloc(sizeof(long) * sz);
    __CPROVER_assume(u != NULL && d != NULL && e != NULL);
    u->_down = d; u->_edge = e; u->size = sz; u->level = lvl; u->is_full = 1; u->the_edge_type = edge_type__LONG;
    sw_unpacked_live++;
    return u;
}
struct unpacked_node *unpacked_node__newFromNode(const struct forest *f, node_handle p, node_storage_flags fs)
{   /* unpacked_node.h newFromNode -> initFromNode: size of the node's level under the CURRENT order, children as stored */
    __CPROVER_assert(1 <= p && p <= sw_n, "bounded: a stored node is unpacked");
    __CPROVER_assert(fs == FULL_ONLY, "bounded: full view requested");
    unsigned sz = (unsigned)sw_size_of_var(sw_var_at_level(sw_lvl[p]));
    struct unpacked_node *u = sw_new_unpacked(sw_lvl[p], sz);
    for (unsigned i = 0; i < SW_MAXSZ; i++) if (i < sz) { u->_down[i] = sw_down[p][i]; u->_edge[i] = sw_ev[p][i]; }
    return u;
}
struct unpacked_node *unpacked_node__newWritable(struct forest *f, int lvl, unsigned tsz, node_storage_flags fs)
{
    __CPROVER_assert(fs == FULL_ONLY && 1 <= tsz && tsz <= SW_MAXSZ, "bounded: writable node within the bound");
    struct unpacked_node *u = sw_new_unpacked(lvl, tsz);
    for (unsigned i = 0; i < SW_MAXSZ; i++) if (i < tsz) { u->_down[i] = 0; u->_edge[i] = 0; }
    return u;
}
void unpacked_node__Recycle(struct unpacked_node *u)
{
    __CPROVER_assert(u != NULL, "bounded: recycle of a live scratch node");
    free(u->_down); free(u->_edge); free(u); sw_unpacked_live--;
}
static void sw_store(node_handle p, struct unpacked_node *nb)
{
    sw_lvl[p] = nb->level;
    for (unsigned i = 0; i < SW_MAXSZ; i++) { sw_down[p][i] = i < nb->size ? nb->_down[i] : 0; sw_ev[p][i] = i < nb->size ? nb->_edge[i] : 0; }
    unpacked_node__Recycle(nb);
}
long unpacked_node__edgeval_long(const struct unpacked_node *u, unsigned k)
{   /* long(u->edgeval(k)) */
    __CPROVER_assert(k < u->size, "bounded: edge value read inside the node");
    return u->_edge[k];
}
void unpacked_node__setFull_ev(struct unpacked_node *u, unsigned k, long ev, node_handle h)
{   /* u->setFull(k, edge_value(ev), h) */
    __CPROVER_assert(k < u->size, "bounded: entry written inside the node");
    u->_down[k] = h; u->_edge[k] = ev;
}
void forest__createReducedNode4(struct forest *f, int in, struct unpacked_node *nb, long *ev, node_handle *node)
{   /* EV+ normalisation as the real one does it (U-reduce: normalize_evplus): the minimum is factored out and returned; no reduction, no duplicate search */
    __CPROVER_assert(in == -1 && nb != NULL, "bounded: createReducedNode(-1, nb, ev, node)");
    __CPROVER_assert(sw_n + 1 < SW_CAP, "bounded: world capacity");
    long mn = nb->_edge[0];
    for (unsigned i = 1; i < SW_MAXSZ; i++) if (i < nb->size && nb->_edge[i] < mn) mn = nb->_edge[i];
    for (unsigned i = 0; i < SW_MAXSZ; i++) if (i < nb->size) nb->_edge[i] -= mn;
    node_handle p = ++sw_n; sw_created++;
    sw_store(p, nb);
    *ev = mn; *node = p;
}
node_handle forest__modifyReducedNodeInPlace(struct forest *f, struct unpacked_node *nb, node_handle p)
{
    __CPROVER_assert(nb != NULL && 1 <= p && p <= sw_n, "bounded: in-place rewrite of a stored node");
    sw_modified[p]++;
    sw_store(p, nb);
    return p;
}
void variable_order__exchange(struct variable_order *vo, int a, int b)
{
    __CPROVER_assert(a == sw_var_at_hi && b == sw_var_at_lo, "bounded: exchange(upper variable, lower variable)");
    int t = sw_var_at_hi; sw_var_at_hi = sw_var_at_lo; sw_var_at_lo = t; sw_exchanges++;
}
