/* contracts for level_array, address_array and bitvector (also part of U-cnt) */

/* ---------------------------------------------------------------- level_array */
#define LVL_VAL(c, k) ((c)->data8 != NULL ? (int)(c)->data8[k] : ((c)->data16 != NULL ? (int)(c)->data16[k] : (c)->data32[k]))
#define LVL_OLDVAL(c, k) (__CPROVER_old((c)->data8) != NULL ? (int)__CPROVER_old((c)->data8[k]) : \
    (__CPROVER_old((c)->data16) != NULL ? (int)__CPROVER_old((c)->data16[k]) : __CPROVER_old((c)->data32[k])))
#define LVL_REQUIRES_WF(c) \
    __CPROVER_requires(__CPROVER_is_fresh(c, sizeof(*(c)))) \
    __CPROVER_requires(1 <= (c)->size && (c)->size <= CNT_MAXN) \
    __CPROVER_requires((c)->bytes == 1 || (c)->bytes == 2 || (c)->bytes == 4) \
    __CPROVER_requires((c)->bytes == 1 ==> __CPROVER_is_fresh((c)->data8, (c)->size)) \
    __CPROVER_requires((c)->bytes == 2 ==> __CPROVER_is_fresh((c)->data16, (c)->size * 2)) \
    __CPROVER_requires((c)->bytes == 4 ==> __CPROVER_is_fresh((c)->data32, (c)->size * 4)) \
    __CPROVER_requires((c)->bytes != 1 ==> (c)->data8 == NULL) \
    __CPROVER_requires((c)->bytes != 2 ==> (c)->data16 == NULL) \
    __CPROVER_requires((c)->bytes != 4 ==> (c)->data32 == NULL)
#define LVL_SHAPE_SAME(c) ((c)->data8 == __CPROVER_old((c)->data8) && (c)->data16 == __CPROVER_old((c)->data16) && (c)->data32 == __CPROVER_old((c)->data32) \
    && (c)->size == __CPROVER_old((c)->size) && (c)->bytes == __CPROVER_old((c)->bytes))

int level_array__get(const struct level_array *self, size_t i)
LVL_REQUIRES_WF(self)
__CPROVER_requires(i < self->size)
__CPROVER_assigns()
ENSURES(reads_element, __CPROVER_return_value == LVL_VAL(self, i))
;

void level_array__set(struct level_array *self, size_t i, int v)
LVL_REQUIRES_WF(self)
__CPROVER_requires(i < self->size && ghost_g < self->size)
/* MEDDLY_CHECK_RANGE(-128, v, 128) / (-32768, v, 32768): the value must fit the width chosen at construction */
__CPROVER_requires(self->bytes == 1 ==> (-128 <= v && v < 128))
__CPROVER_requires(self->bytes == 2 ==> (-32768 <= v && v < 32768))
__CPROVER_assigns(self->bytes == 1: self->data8[i])
__CPROVER_assigns(self->bytes == 2: self->data16[i])
__CPROVER_assigns(self->bytes == 4: self->data32[i])
ENSURES(stored, LVL_VAL(self, i) == v)
ENSURES(others_unchanged, ghost_g == i || LVL_VAL(self, ghost_g) == LVL_OLDVAL(self, ghost_g))
;

void level_array__swap(struct level_array *self, size_t i, size_t j)
LVL_REQUIRES_WF(self)
__CPROVER_requires(i < self->size && j < self->size && ghost_g < self->size)
__CPROVER_assigns(self->bytes == 1: self->data8[i], self->data8[j])
__CPROVER_assigns(self->bytes == 2: self->data16[i], self->data16[j])
__CPROVER_assigns(self->bytes == 4: self->data32[i], self->data32[j])
ENSURES(swapped_i, LVL_VAL(self, i) == LVL_OLDVAL(self, j))
ENSURES(swapped_j, LVL_VAL(self, j) == LVL_OLDVAL(self, i))
ENSURES(others_unchanged, ghost_g == i || ghost_g == j || LVL_VAL(self, ghost_g) == LVL_OLDVAL(self, ghost_g))
;

/* ---------------------------------------------------------------- address_array */
#define ADR_VAL(c, k) ((c)->bytes == 4 ? (unsigned long)(c)->data32[k] : (c)->data64[k])
#define ADR_OLDVAL(c, k) (__CPROVER_old((c)->bytes) == 4 ? (unsigned long)__CPROVER_old((c)->data32[k]) : __CPROVER_old((c)->data64[k]))
#define ADR_LARGE(v) (((v) & 0xffffffff00000000ul) != 0)
#define ADR_REQUIRES_WF(c) \
    __CPROVER_requires(__CPROVER_is_fresh(c, sizeof(*(c)))) \
    __CPROVER_requires(1 <= (c)->size && (c)->size <= CNT_MAXN) \
    __CPROVER_requires((c)->bytes == 4 || (c)->bytes == 8) \
    __CPROVER_requires((c)->bytes == 4 ==> (__CPROVER_is_fresh((c)->data32, (c)->size * 4) && (c)->data64 == NULL && (c)->num_large_elements == 0)) \
    __CPROVER_requires((c)->bytes == 8 ==> (__CPROVER_is_fresh((c)->data64, (c)->size * 8) && (c)->data32 == NULL)) \
    __CPROVER_requires((c)->num_large_elements <= (c)->size) \
    __CPROVER_requires(verif_exc == 0)
#define ADR_SHAPE(c) (((c)->bytes == 4 && (c)->data32 != NULL && (c)->data64 == NULL && (c)->num_large_elements == 0) || \
                      ((c)->bytes == 8 && (c)->data32 == NULL && (c)->data64 != NULL))

unsigned long address_array__get(const struct address_array *self, size_t i)
ADR_REQUIRES_WF(self)
__CPROVER_requires(i < self->size)
__CPROVER_assigns()
ENSURES(reads_element, __CPROVER_return_value == ADR_VAL(self, i))
;

void address_array__expand32to64(struct address_array *self)
ADR_REQUIRES_WF(self)
__CPROVER_requires(self->bytes == 4 && ghost_g < self->size)
__CPROVER_assigns(verif_exc, self->data32, self->data64, self->bytes, self->num_large_elements)
__CPROVER_frees(self->data32)
ENSURES(oom_only, verif_exc == 0 || verif_exc == ERR_INSUFFICIENT_MEMORY)
ENSURES(fresh_array, verif_exc == 0 ==> __CPROVER_is_fresh(self->data64, self->size * 8))
ENSURES(shape, verif_exc != 0 || (ADR_SHAPE(self) && self->bytes == 8 && self->num_large_elements == 1))
ENSURES(not_truncated, verif_exc != 0 || self->data64[ghost_g] == __CPROVER_old(self->data32[ghost_g]))
ENSURES(size_unchanged, self->size == __CPROVER_old(self->size))
;

void address_array__set(struct address_array *self, size_t i, unsigned long v)
ADR_REQUIRES_WF(self)
__CPROVER_requires(i < self->size && ghost_g < self->size)
/* INV at i: a large element is counted */
__CPROVER_requires((self->bytes == 8 && ADR_LARGE(self->data64[i])) ==> self->num_large_elements >= 1)
__CPROVER_requires(self->num_large_elements < self->size || (self->bytes == 8 && ADR_LARGE(self->data64[i])))
__CPROVER_assigns(verif_exc, self->data32, self->data64, self->bytes, self->num_large_elements)
__CPROVER_assigns(self->bytes == 4: self->data32[i])
__CPROVER_assigns(self->bytes == 8: self->data64[i])
__CPROVER_frees(self->data32)
ENSURES(oom_only, verif_exc == 0 || verif_exc == ERR_INSUFFICIENT_MEMORY)
ENSURES(shape, verif_exc != 0 || ADR_SHAPE(self))
ENSURES(stored_exactly, verif_exc != 0 || ADR_VAL(self, i) == v)
ENSURES(others_unchanged, verif_exc != 0 || ghost_g == i || ADR_VAL(self, ghost_g) == ADR_OLDVAL(self, ghost_g))
ENSURES(large_count_delta, verif_exc != 0 || __CPROVER_old(self->bytes) == 4 ||
        self->num_large_elements + IND(ADR_LARGE(__CPROVER_old(self->data64[i]))) == __CPROVER_old(self->num_large_elements) + IND(ADR_LARGE(v)))
ENSURES(size_unchanged, self->size == __CPROVER_old(self->size))
;

void address_array__swap(struct address_array *self, size_t i, size_t j)
ADR_REQUIRES_WF(self)
__CPROVER_requires(i < self->size && j < self->size && ghost_g < self->size)
__CPROVER_assigns(self->bytes == 4: self->data32[i], self->data32[j])
__CPROVER_assigns(self->bytes == 8: self->data64[i], self->data64[j])
ENSURES(swapped_i, ADR_VAL(self, i) == ADR_OLDVAL(self, j))
ENSURES(swapped_j, ADR_VAL(self, j) == ADR_OLDVAL(self, i))
ENSURES(others_unchanged, ghost_g == i || ghost_g == j || ADR_VAL(self, ghost_g) == ADR_OLDVAL(self, ghost_g))
;

/* ---------------------------------------------------------------- bitvector */
#define BV_REQUIRES_WF(c) \
    __CPROVER_requires(__CPROVER_is_fresh(c, sizeof(*(c)))) \
    __CPROVER_requires(1 <= (c)->size && (c)->size <= CNT_MAXN) \
    __CPROVER_requires(__CPROVER_is_fresh((c)->data, (c)->size))

_Bool bitvector__get(const struct bitvector *self, size_t i)
BV_REQUIRES_WF(self)
__CPROVER_requires(i < self->size)
__CPROVER_assigns()
ENSURES(reads_element, __CPROVER_return_value == self->data[i])
;

void bitvector__set(struct bitvector *self, size_t i, _Bool v)
BV_REQUIRES_WF(self)
__CPROVER_requires(i < self->size && ghost_g < self->size)
__CPROVER_assigns(self->data[i])
ENSURES(stored, self->data[i] == v)
ENSURES(others_unchanged, ghost_g == i || self->data[ghost_g] == __CPROVER_old(self->data[ghost_g]))
;
