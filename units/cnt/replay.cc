// Native replay for U-cnt: rebuild the pre-state in a real counter_array and run the real method.
#include "src/defines.h"
#include "src/error.h"
#include "src/arrays.h"
#include "replay_util.h"
using namespace MEDDLY;

static unsigned val(const counter_array& c, size_t k) {
    return c.bytes == 1 ? c.data8[k] : c.bytes == 2 ? c.data16[k] : c.data32[k];
}
static void setval(counter_array& c, size_t k, unsigned v) {
    if (c.bytes == 1) c.data8[k] = v; else if (c.bytes == 2) c.data16[k] = v; else c.data32[k] = v;
}
static bool shape(const counter_array& c) {
    return (c.bytes == 1 && c.data8 && !c.data16 && !c.data32 && c.counts_09bit == 0 && c.counts_17bit == 0)
        || (c.bytes == 2 && !c.data8 && c.data16 && !c.data32 && c.counts_17bit == 0)
        || (c.bytes == 4 && !c.data8 && !c.data16 && c.data32);
}

int main(int argc, char** argv)
{
    replay_args a(argc, argv);
    const std::string& ob = a.obligation;
    size_t size = a.u("w_size"), g = a.u("ghost_g");
    unsigned bytes = a.u("w_bytes");
    size_t i = a.has("w_i") ? a.u("w_i") : 0, j = a.has("w_j") ? a.u("w_j") : 0;
    unsigned vi = a.u("w_val_i"), vg = a.u("w_val_g"), vj = a.has("w_val_j") ? a.u("w_val_j") : 0;
    if (size == 0 || size > 100000000 || (bytes != 1 && bytes != 2 && bytes != 4)) { printf("pre-state not representable\n"); return 2; }
    counter_array c(nullptr);
    c.size = size; c.bytes = bytes;
    c.data8 = nullptr; c.data16 = nullptr; c.data32 = nullptr;
    if (bytes == 1) c.data8 = (unsigned char*)calloc(size, 1);
    if (bytes == 2) c.data16 = (unsigned short*)calloc(size, 2);
    if (bytes == 4) c.data32 = (unsigned int*)calloc(size, 4);
    c.counts_09bit = a.u("w_c09"); c.counts_17bit = a.u("w_c17");
    const std::string& J = a.job;
    bool uses_i = !(J == "cnt_expand" || J == "cnt_shrink" || J == "cnt_shrink16to8" || J == "cnt_shrink32to16" || J == "cnt_shrink32to8");
    size_t ns = i;   // resize jobs pass the new size as w_i
    if (uses_i && i < size) setval(c, i, vi);
    if (J == "cnt_swap" && j < size) setval(c, j, vj);
    if (g < size) setval(c, g, vg);
    size_t o09 = c.counts_09bit, o17 = c.counts_17bit; unsigned obytes = bytes;
    unsigned old_i = (uses_i && i < size) ? val(c, i) : 0, old_g = g < size ? val(c, g) : 0, old_j = j < size ? val(c, j) : 0;
    bool ret = false; bool threw = false;
    try {
        if (J == "cnt_increment") c.increment(i);
        else if (J == "cnt_decrement") c.decrement(i);
        else if (J == "cnt_isZeroBeforeIncrement") ret = c.isZeroBeforeIncrement(i);
        else if (J == "cnt_isPositiveAfterDecrement") ret = c.isPositiveAfterDecrement(i);
        else if (J == "cnt_swap") c.swap(i, j);
        else if (J == "cnt_get") ret = (c.get(i) == old_i);
        else if (J == "cnt_expand8to16") c.expand8to16(i);
        else if (J == "cnt_expand16to32") c.expand16to32(i);
        else if (J == "cnt_shrink16to8") c.shrink16to8(ns);
        else if (J == "cnt_shrink32to16") c.shrink32to16(ns);
        else if (J == "cnt_shrink32to8") c.shrink32to8(ns);
        else if (J == "cnt_expand") c.expand(ns);
        else if (J == "cnt_shrink") c.shrink(ns);
        else { printf("no native replay for job %s\n", J.c_str()); return 0; }
    } catch (error e) { threw = true; printf("threw %s\n", e.getName()); }
    printf("job=%s bytes %u->%u size %zu->%zu i=%zu old_i=%u g=%zu old_g=%u c09 %zu->%zu c17 %zu->%zu ret=%d\n", J.c_str(), obytes, c.bytes, size, c.size,
           i, old_i, g, old_g, o09, c.counts_09bit, o17, c.counts_17bit, (int)ret);
    if (threw) NOREPRO();
    bool inc = (J == "cnt_increment" || J == "cnt_isZeroBeforeIncrement");
    bool dec = (J == "cnt_decrement" || J == "cnt_isPositiveAfterDecrement");
    if (ob == "shape") REPRO(!shape(c), "representation invariant broken");
    if (ob == "plus_one") REPRO(val(c, i) != old_i + 1, "element is %u, expected %u", val(c, i), old_i + 1);
    if (ob == "minus_one") REPRO(val(c, i) != old_i - 1, "element is %u, expected %u", val(c, i), old_i - 1);
    if (ob == "others_unchanged" && g != i && !(J == "cnt_swap" && g == j)) REPRO(val(c, g) != old_g, "element %zu changed from %u to %u", g, old_g, val(c, g));
    if (ob == "count09_delta" && inc && c.bytes != 1) REPRO(c.counts_09bit != o09 + (old_i == 255), "counts_09bit %zu -> %zu while element went %u -> %u", o09, c.counts_09bit, old_i, val(c, i));
    if (ob == "count17_delta" && inc && c.bytes == 4) REPRO(c.counts_17bit != o17 + (old_i == 65535), "counts_17bit %zu -> %zu while element went %u -> %u", o17, c.counts_17bit, old_i, val(c, i));
    if (ob == "count09_delta" && dec) REPRO(c.counts_09bit != o09 - (old_i == 256), "counts_09bit %zu -> %zu while element went %u -> %u", o09, c.counts_09bit, old_i, val(c, i));
    if (ob == "count17_delta" && dec) REPRO(c.counts_17bit != o17 - (old_i == 65536), "counts_17bit %zu -> %zu while element went %u -> %u", o17, c.counts_17bit, old_i, val(c, i));
    if (ob == "reports_zero") REPRO(ret != (old_i == 0), "returned %d for old value %u", (int)ret, old_i);
    if (ob == "reports_positive") REPRO(ret != (old_i > 1), "returned %d for old value %u", (int)ret, old_i);
    if (ob == "reads_current_width") REPRO(!ret, "get() differs from stored element");
    if (ob == "never_narrows") REPRO(c.bytes < obytes, "width went %u -> %u", obytes, c.bytes);
    if (ob == "size_unchanged") REPRO(c.size != size, "size changed");
    if (ob == "swapped_i") REPRO(val(c, i) != old_j, "element i is %u expected %u", val(c, i), old_j);
    if (ob == "swapped_j") REPRO(val(c, j) != old_i, "element j is %u expected %u", val(c, j), old_i);
    if (ob == "counts_unchanged") REPRO(c.counts_09bit != o09 || c.counts_17bit != o17, "counters changed");
    if (ob == "element_j_is_256") REPRO(val(c, i) != 256, "element is %u", val(c, i));
    if (ob == "element_j_is_65536") REPRO(val(c, i) != 65536, "element is %u", val(c, i));
    if (ob == "others_not_truncated" && g != i) REPRO(val(c, g) != old_g, "element %zu: %u -> %u", g, old_g, val(c, g));
    if (ob == "not_truncated" && g < size && g < ns) REPRO(val(c, g) != old_g, "element %zu: %u -> %u", g, old_g, val(c, g));
    if (ob == "old_elements_kept" || ob == "kept_elements") { if (g < size && g < c.size) REPRO(val(c, g) != old_g, "element %zu: %u -> %u", g, old_g, val(c, g)); }
    if (ob == "new_elements_zero") { if (g >= size && g < c.size) REPRO(val(c, g) != 0, "new element %zu is %u", g, val(c, g)); }
    if (ob == "new_size") REPRO((J == "cnt_expand" && ns > size && c.size != ns) || (J == "cnt_shrink" && ns < size && c.size != ns), "size is %zu", c.size);
    NOREPRO();
}
