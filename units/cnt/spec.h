/* U-cnt: contracts for the variable-width counter/address/level arrays (C06, C07).
 * Abstract view: CNT_VAL(c,k) = element k read at the current width.
 * ghost_g is an arbitrary index: "for all g" phrased point-wise (DESIGN 2.1). */

#define CNT_MAXN 1000000
size_t ghost_g;
/* witnesses for native replay: pre-state of the object under test */
unsigned w_bytes, w_val_i, w_val_j, w_val_g; size_t w_size, w_c09, w_c17;
#define CNT_WITNESS(fn, c, i) \
    WITNESS(fn, w_bytes == (c)->bytes && w_size == (c)->size && w_c09 == (c)->counts_09bit && w_c17 == (c)->counts_17bit) \
    WITNESS(fn, (i) < (c)->size ==> w_val_i == CNT_VAL(c, i)) \
    WITNESS(fn, ghost_g < (c)->size ==> w_val_g == CNT_VAL(c, ghost_g))

void array_watcher__expandElementSize(struct array_watcher *w, unsigned oldbits, unsigned newbits)
__CPROVER_requires(1) __CPROVER_ensures(1) __CPROVER_assigns();
void array_watcher__shrinkElementSize(struct array_watcher *w, unsigned oldbits, unsigned newbits)
__CPROVER_requires(1) __CPROVER_ensures(1) __CPROVER_assigns();

#define CNT_VAL(c, k) ((c)->bytes == 1 ? (unsigned)(c)->data8[k] : ((c)->bytes == 2 ? (unsigned)(c)->data16[k] : (c)->data32[k]))

/* shape part of the representation invariant */
#define CNT_SHAPE(c) ( \
    ((c)->bytes == 1 && (c)->data8 != NULL && (c)->data16 == NULL && (c)->data32 == NULL && (c)->counts_09bit == 0 && (c)->counts_17bit == 0) || \
    ((c)->bytes == 2 && (c)->data8 == NULL && (c)->data16 != NULL && (c)->data32 == NULL && (c)->counts_17bit == 0) || \
    ((c)->bytes == 4 && (c)->data8 == NULL && (c)->data16 == NULL && (c)->data32 != NULL))

#define CNT_REQUIRES_WF(c) \
    __CPROVER_requires(__CPROVER_is_fresh(c, sizeof(*(c)))) \
    __CPROVER_requires(1 <= (c)->size && (c)->size <= CNT_MAXN) \
    __CPROVER_requires((c)->bytes == 1 || (c)->bytes == 2 || (c)->bytes == 4) \
    __CPROVER_requires((c)->bytes == 1 ==> __CPROVER_is_fresh((c)->data8, (c)->size)) \
    __CPROVER_requires((c)->bytes == 2 ==> __CPROVER_is_fresh((c)->data16, (c)->size * 2)) \
    __CPROVER_requires((c)->bytes == 4 ==> __CPROVER_is_fresh((c)->data32, (c)->size * 4)) \
    __CPROVER_requires((c)->bytes != 1 ==> (c)->data8 == NULL) \
    __CPROVER_requires((c)->bytes != 2 ==> (c)->data16 == NULL) \
    __CPROVER_requires((c)->bytes != 4 ==> (c)->data32 == NULL) \
    __CPROVER_requires((c)->bytes == 1 ==> ((c)->counts_09bit == 0 && (c)->counts_17bit == 0)) \
    __CPROVER_requires((c)->bytes == 2 ==> (c)->counts_17bit == 0) \
    __CPROVER_requires((c)->counts_17bit <= (c)->counts_09bit && (c)->counts_09bit <= (c)->size) \
    __CPROVER_requires(verif_exc == 0)

#define CNT_ASSIGNS_ALL(c) \
    __CPROVER_assigns(verif_exc, (c)->data8, (c)->data16, (c)->data32, (c)->counts_09bit, (c)->counts_17bit, (c)->bytes) \
    __CPROVER_assigns((c)->data8 != NULL: __CPROVER_object_whole((c)->data8)) \
    __CPROVER_assigns((c)->data16 != NULL: __CPROVER_object_whole((c)->data16)) \
    __CPROVER_assigns((c)->data32 != NULL: __CPROVER_object_whole((c)->data32)) \
    __CPROVER_frees((c)->data8, (c)->data16, (c)->data32)


/* tight preconditions and frames for the width-change helpers (bytes is fixed there) */
#define CNT_REQ_W(c, W, arr, other1, other2) \
    __CPROVER_requires(__CPROVER_is_fresh(c, sizeof(*(c)))) \
    __CPROVER_requires(1 <= (c)->size && (c)->size <= CNT_MAXN) \
    __CPROVER_requires((c)->bytes == W) \
    __CPROVER_requires(__CPROVER_is_fresh((c)->arr, (c)->size * W)) \
    __CPROVER_requires((c)->other1 == NULL && (c)->other2 == NULL) \
    __CPROVER_requires((c)->counts_17bit <= (c)->counts_09bit && (c)->counts_09bit <= (c)->size) \
    __CPROVER_requires(verif_exc == 0)
#define CNT_FRAME_W(c, from, to) \
    __CPROVER_assigns(verif_exc, (c)->from, (c)->to, (c)->counts_09bit, (c)->counts_17bit, (c)->bytes) \
    __CPROVER_frees((c)->from)

#define IND(b) ((b) ? 1 : 0)
/* value of element k at function entry (CBMC cannot take __CPROVER_old of a conditional expression) */
#define CNT_OLDVAL(c, k) (__CPROVER_old((c)->bytes) == 1 ? (unsigned)__CPROVER_old((c)->data8[k]) : \
    (__CPROVER_old((c)->bytes) == 2 ? (unsigned)__CPROVER_old((c)->data16[k]) : __CPROVER_old((c)->data32[k])))

/* ------------------------------------------------------------ width changes */

void counter_array__expand8to16(struct counter_array *self, size_t j)
CNT_REQ_W(self, 1, data8, data16, data32)
CNT_WITNESS(counter_array__expand8to16, self, j)
__CPROVER_requires(self->counts_09bit == 0 && self->counts_17bit == 0)
__CPROVER_requires(j < self->size)
__CPROVER_requires(ghost_g < self->size)
CNT_FRAME_W(self, data8, data16)
ENSURES(oom_only, verif_exc == 0 || verif_exc == ERR_INSUFFICIENT_MEMORY)
ENSURES(fresh_array, verif_exc == 0 ==> __CPROVER_is_fresh(self->data16, self->size * 2))
ENSURES(shape, verif_exc != 0 || (CNT_SHAPE(self) && self->bytes == 2))
ENSURES(element_j_is_256, verif_exc != 0 || self->data16[j] == 256)
ENSURES(others_not_truncated, verif_exc != 0 || ghost_g == j || self->data16[ghost_g] == __CPROVER_old(self->data8[ghost_g]))
ENSURES(counts, verif_exc != 0 || (self->counts_09bit == 1 && self->counts_17bit == 0))
;

void counter_array__expand16to32(struct counter_array *self, size_t j)
CNT_REQ_W(self, 2, data16, data8, data32)
CNT_WITNESS(counter_array__expand16to32, self, j)
__CPROVER_requires(self->counts_17bit == 0)
__CPROVER_requires(j < self->size)
__CPROVER_requires(ghost_g < self->size)
CNT_FRAME_W(self, data16, data32)
ENSURES(oom_only, verif_exc == 0 || verif_exc == ERR_INSUFFICIENT_MEMORY)
ENSURES(fresh_array, verif_exc == 0 ==> __CPROVER_is_fresh(self->data32, self->size * 4))
ENSURES(shape, verif_exc != 0 || (CNT_SHAPE(self) && self->bytes == 4))
ENSURES(element_j_is_65536, verif_exc != 0 || self->data32[j] == 65536)
ENSURES(others_not_truncated, verif_exc != 0 || ghost_g == j || self->data32[ghost_g] == __CPROVER_old(self->data16[ghost_g]))
ENSURES(counts, verif_exc != 0 || (self->counts_09bit == __CPROVER_old(self->counts_09bit) && self->counts_17bit == 1))
;

/* narrowing: callers must establish "everything fits" (consequence of counts_09bit==0 under INV) */
void counter_array__shrink16to8(struct counter_array *self, size_t ns)
CNT_REQ_W(self, 2, data16, data8, data32)
CNT_WITNESS(counter_array__shrink16to8, self, ghost_g)
__CPROVER_requires(self->counts_09bit == 0 && self->counts_17bit == 0)
__CPROVER_requires(1 <= ns && ns <= CNT_MAXN)
__CPROVER_requires((ghost_g < self->size && ghost_g < ns) ==> self->data16[ghost_g] < 256)                /* INV, instantiated at the ghost element */
CNT_FRAME_W(self, data16, data8)
ENSURES(oom_only, verif_exc == 0 || verif_exc == ERR_INSUFFICIENT_MEMORY)
ENSURES(capacity, verif_exc == 0 ==> __CPROVER_is_fresh(self->data8, ns))
ENSURES(shape, verif_exc != 0 || (CNT_SHAPE(self) && self->bytes == 1))
ENSURES(not_truncated, verif_exc != 0 || ghost_g >= self->size || ghost_g >= ns || self->data8[ghost_g] == __CPROVER_old(self->data16[ghost_g]))
ENSURES(size_unchanged, self->size == __CPROVER_old(self->size))
;

void counter_array__shrink32to16(struct counter_array *self, size_t ns)
CNT_REQ_W(self, 4, data32, data8, data16)
CNT_WITNESS(counter_array__shrink32to16, self, ghost_g)
__CPROVER_requires(self->counts_17bit == 0)
__CPROVER_requires(1 <= ns && ns <= CNT_MAXN)
__CPROVER_requires((ghost_g < self->size && ghost_g < ns) ==> self->data32[ghost_g] < 65536)
CNT_FRAME_W(self, data32, data16)
ENSURES(oom_only, verif_exc == 0 || verif_exc == ERR_INSUFFICIENT_MEMORY)
ENSURES(capacity, verif_exc == 0 ==> __CPROVER_is_fresh(self->data16, ns * 2))
ENSURES(shape, verif_exc != 0 || (CNT_SHAPE(self) && self->bytes == 2))
ENSURES(not_truncated, verif_exc != 0 || ghost_g >= self->size || ghost_g >= ns || self->data16[ghost_g] == __CPROVER_old(self->data32[ghost_g]))
ENSURES(counts, verif_exc != 0 || self->counts_09bit == __CPROVER_old(self->counts_09bit))
ENSURES(size_unchanged, self->size == __CPROVER_old(self->size))
;

void counter_array__shrink32to8(struct counter_array *self, size_t ns)
CNT_REQ_W(self, 4, data32, data8, data16)
CNT_WITNESS(counter_array__shrink32to8, self, ghost_g)
__CPROVER_requires(self->counts_09bit == 0 && self->counts_17bit == 0)
__CPROVER_requires(1 <= ns && ns <= CNT_MAXN)
__CPROVER_requires((ghost_g < self->size && ghost_g < ns) ==> self->data32[ghost_g] < 256)
CNT_FRAME_W(self, data32, data8)
ENSURES(oom_only, verif_exc == 0 || verif_exc == ERR_INSUFFICIENT_MEMORY)
ENSURES(capacity, verif_exc == 0 ==> __CPROVER_is_fresh(self->data8, ns))
ENSURES(shape, verif_exc != 0 || (CNT_SHAPE(self) && self->bytes == 1))
ENSURES(not_truncated, verif_exc != 0 || ghost_g >= self->size || ghost_g >= ns || self->data8[ghost_g] == __CPROVER_old(self->data32[ghost_g]))
ENSURES(size_unchanged, self->size == __CPROVER_old(self->size))
;

/* ------------------------------------------------------------ point operations */

unsigned int counter_array__get(const struct counter_array *self, size_t i)
CNT_REQUIRES_WF(self)
CNT_WITNESS(counter_array__get, self, i)
__CPROVER_requires(i < self->size)
__CPROVER_assigns()
ENSURES(reads_current_width, __CPROVER_return_value == CNT_VAL(self, i))
;

void counter_array__increment(struct counter_array *self, size_t i)
CNT_REQUIRES_WF(self)
CNT_WITNESS(counter_array__increment, self, i)
__CPROVER_requires(i < self->size && ghost_g < self->size)
__CPROVER_requires(CNT_VAL(self, i) < 0xffffffffu)               /* a 32-bit count cannot go higher */
CNT_ASSIGNS_ALL(self)
ENSURES(oom_only, verif_exc == 0 || verif_exc == ERR_INSUFFICIENT_MEMORY)
ENSURES(shape, verif_exc != 0 || CNT_SHAPE(self))
ENSURES(plus_one, verif_exc != 0 || CNT_VAL(self, i) == CNT_OLDVAL(self, i) + 1)
ENSURES(others_unchanged, verif_exc != 0 || ghost_g == i || CNT_VAL(self, ghost_g) == CNT_OLDVAL(self, ghost_g))
ENSURES(count09_delta, verif_exc != 0 || self->bytes == 1 || self->counts_09bit == __CPROVER_old(self->counts_09bit) + IND(CNT_OLDVAL(self, i) == 255))
ENSURES(count17_delta, verif_exc != 0 || self->bytes != 4 || self->counts_17bit == __CPROVER_old(self->counts_17bit) + IND(CNT_OLDVAL(self, i) == 65535))
ENSURES(never_narrows, verif_exc != 0 || self->bytes >= __CPROVER_old(self->bytes))
ENSURES(size_unchanged, self->size == __CPROVER_old(self->size))
;

void counter_array__decrement(struct counter_array *self, size_t i)
CNT_REQUIRES_WF(self)
CNT_WITNESS(counter_array__decrement, self, i)
__CPROVER_requires(i < self->size && ghost_g < self->size)
__CPROVER_requires(CNT_VAL(self, i) >= 1)                        /* MEDDLY_DCASSERT(dataN[i]) */
__CPROVER_requires(CNT_VAL(self, i) >= 256 ==> self->counts_09bit >= 1)   /* INV at i */
__CPROVER_requires(CNT_VAL(self, i) >= 65536 ==> self->counts_17bit >= 1)
CNT_ASSIGNS_ALL(self)
ENSURES(no_error, verif_exc == 0)
ENSURES(shape, CNT_SHAPE(self) && self->bytes == __CPROVER_old(self->bytes))
ENSURES(minus_one, CNT_VAL(self, i) == CNT_OLDVAL(self, i) - 1)
ENSURES(others_unchanged, ghost_g == i || CNT_VAL(self, ghost_g) == CNT_OLDVAL(self, ghost_g))
ENSURES(count09_delta, self->counts_09bit == __CPROVER_old(self->counts_09bit) - IND(CNT_OLDVAL(self, i) == 256))
ENSURES(count17_delta, self->counts_17bit == __CPROVER_old(self->counts_17bit) - IND(CNT_OLDVAL(self, i) == 65536))
ENSURES(size_unchanged, self->size == __CPROVER_old(self->size))
;

_Bool counter_array__isZeroBeforeIncrement(struct counter_array *self, size_t i)
CNT_REQUIRES_WF(self)
CNT_WITNESS(counter_array__isZeroBeforeIncrement, self, i)
__CPROVER_requires(i < self->size && ghost_g < self->size)
__CPROVER_requires(CNT_VAL(self, i) < 0xffffffffu)
CNT_ASSIGNS_ALL(self)
ENSURES(oom_only, verif_exc == 0 || verif_exc == ERR_INSUFFICIENT_MEMORY)
ENSURES(shape, verif_exc != 0 || CNT_SHAPE(self))
ENSURES(reports_zero, verif_exc != 0 || __CPROVER_return_value == (CNT_OLDVAL(self, i) == 0))
ENSURES(plus_one, verif_exc != 0 || CNT_VAL(self, i) == CNT_OLDVAL(self, i) + 1)
ENSURES(others_unchanged, verif_exc != 0 || ghost_g == i || CNT_VAL(self, ghost_g) == CNT_OLDVAL(self, ghost_g))
ENSURES(count09_delta, verif_exc != 0 || self->bytes == 1 || self->counts_09bit == __CPROVER_old(self->counts_09bit) + IND(CNT_OLDVAL(self, i) == 255))
ENSURES(count17_delta, verif_exc != 0 || self->bytes != 4 || self->counts_17bit == __CPROVER_old(self->counts_17bit) + IND(CNT_OLDVAL(self, i) == 65535))
ENSURES(size_unchanged, self->size == __CPROVER_old(self->size))
;

_Bool counter_array__isPositiveAfterDecrement(struct counter_array *self, size_t i)
CNT_REQUIRES_WF(self)
CNT_WITNESS(counter_array__isPositiveAfterDecrement, self, i)
__CPROVER_requires(i < self->size && ghost_g < self->size)
__CPROVER_requires(CNT_VAL(self, i) >= 1)
__CPROVER_requires(CNT_VAL(self, i) >= 256 ==> self->counts_09bit >= 1)
__CPROVER_requires(CNT_VAL(self, i) >= 65536 ==> self->counts_17bit >= 1)
CNT_ASSIGNS_ALL(self)
ENSURES(no_error, verif_exc == 0)
ENSURES(shape, CNT_SHAPE(self) && self->bytes == __CPROVER_old(self->bytes))
ENSURES(reports_positive, __CPROVER_return_value == (CNT_OLDVAL(self, i) > 1))
ENSURES(minus_one, CNT_VAL(self, i) == CNT_OLDVAL(self, i) - 1)
ENSURES(others_unchanged, ghost_g == i || CNT_VAL(self, ghost_g) == CNT_OLDVAL(self, ghost_g))
ENSURES(count09_delta, self->counts_09bit == __CPROVER_old(self->counts_09bit) - IND(CNT_OLDVAL(self, i) == 256))
ENSURES(count17_delta, self->counts_17bit == __CPROVER_old(self->counts_17bit) - IND(CNT_OLDVAL(self, i) == 65536))
ENSURES(size_unchanged, self->size == __CPROVER_old(self->size))
;

void counter_array__swap(struct counter_array *self, size_t i, size_t j)
CNT_REQUIRES_WF(self)
CNT_WITNESS(counter_array__swap, self, i)
WITNESS(counter_array__swap, j < self->size ==> w_val_j == CNT_VAL(self, j))
__CPROVER_requires(i < self->size && j < self->size && ghost_g < self->size)
CNT_ASSIGNS_ALL(self)
ENSURES(no_error, verif_exc == 0)
ENSURES(shape, CNT_SHAPE(self) && self->bytes == __CPROVER_old(self->bytes))
ENSURES(swapped_i, CNT_VAL(self, i) == CNT_OLDVAL(self, j))
ENSURES(swapped_j, CNT_VAL(self, j) == CNT_OLDVAL(self, i))
ENSURES(others_unchanged, ghost_g == i || ghost_g == j || CNT_VAL(self, ghost_g) == CNT_OLDVAL(self, ghost_g))
ENSURES(counts_unchanged, self->counts_09bit == __CPROVER_old(self->counts_09bit) && self->counts_17bit == __CPROVER_old(self->counts_17bit))
;

/* ------------------------------------------------------------ resize */

void counter_array__expand(struct counter_array *self, size_t ns)
CNT_REQUIRES_WF(self)
CNT_WITNESS(counter_array__expand, self, ghost_g)
__CPROVER_requires(ns <= CNT_MAXN)
__CPROVER_requires(ghost_g < ns)
/* INV instantiated at the ghost element (needed only on the narrowing paths) */
__CPROVER_requires(ghost_g < self->size ==> (self->counts_09bit == 0 ==> CNT_VAL(self, ghost_g) < 256))
__CPROVER_requires(ghost_g < self->size ==> (self->counts_17bit == 0 ==> CNT_VAL(self, ghost_g) < 65536))
__CPROVER_assigns(self->size)
CNT_ASSIGNS_ALL(self)
ENSURES(oom_only, verif_exc == 0 || verif_exc == ERR_INSUFFICIENT_MEMORY)
ENSURES(noop_when_not_larger, ns > __CPROVER_old(self->size) || (self->size == __CPROVER_old(self->size) && self->bytes == __CPROVER_old(self->bytes)))
ENSURES(new_size, verif_exc != 0 || ns <= __CPROVER_old(self->size) || self->size == ns)
ENSURES(shape, verif_exc != 0 || CNT_SHAPE(self))
ENSURES(old_elements_kept, verif_exc != 0 || ghost_g >= __CPROVER_old(self->size) || CNT_VAL(self, ghost_g) == CNT_OLDVAL(self, ghost_g))
ENSURES(new_elements_zero, verif_exc != 0 || ghost_g < __CPROVER_old(self->size) || ghost_g >= self->size || CNT_VAL(self, ghost_g) == 0)
ENSURES(counts_unchanged, verif_exc != 0 || (self->counts_09bit == __CPROVER_old(self->counts_09bit) && self->counts_17bit == __CPROVER_old(self->counts_17bit)))
;

void counter_array__shrink(struct counter_array *self, size_t ns)
CNT_REQUIRES_WF(self)
CNT_WITNESS(counter_array__shrink, self, ghost_g)
__CPROVER_requires(1 <= ns && ns <= CNT_MAXN)
__CPROVER_requires(ghost_g < ns)
__CPROVER_requires(ghost_g < self->size ==> (self->counts_09bit == 0 ==> CNT_VAL(self, ghost_g) < 256))
__CPROVER_requires(ghost_g < self->size ==> (self->counts_17bit == 0 ==> CNT_VAL(self, ghost_g) < 65536))
__CPROVER_assigns(self->size)
CNT_ASSIGNS_ALL(self)
ENSURES(oom_only, verif_exc == 0 || verif_exc == ERR_INSUFFICIENT_MEMORY)
ENSURES(noop_when_not_smaller, ns < __CPROVER_old(self->size) || (self->size == __CPROVER_old(self->size) && self->bytes == __CPROVER_old(self->bytes)))
ENSURES(new_size, verif_exc != 0 || ns >= __CPROVER_old(self->size) || self->size == ns)
ENSURES(shape, verif_exc != 0 || CNT_SHAPE(self))
ENSURES(kept_elements, verif_exc != 0 || ghost_g >= self->size || CNT_VAL(self, ghost_g) == CNT_OLDVAL(self, ghost_g))
;

#include "spec_arrays.h"
