/* loop contracts, injected after the k-th loop header of the extracted body */
#define LOOP_counter_array__expand8to16_1 \
    __CPROVER_assigns(i, __CPROVER_object_whole(self->data16)) \
    __CPROVER_loop_invariant(i <= self->size) \
    __CPROVER_loop_invariant(ghost_g < i ==> self->data16[ghost_g] == self->data8[ghost_g]) \
    __CPROVER_decreases(self->size - i)
#define LOOP_counter_array__expand16to32_1 \
    __CPROVER_assigns(i, __CPROVER_object_whole(self->data32)) \
    __CPROVER_loop_invariant(i <= self->size) \
    __CPROVER_loop_invariant(ghost_g < i ==> self->data32[ghost_g] == self->data16[ghost_g]) \
    __CPROVER_decreases(self->size - i)
#define LOOP_counter_array__shrink16to8_1 \
    __CPROVER_assigns(i, __CPROVER_object_whole(self->data8)) \
    __CPROVER_loop_invariant(i <= stop) \
    __CPROVER_loop_invariant(ghost_g < i ==> self->data8[ghost_g] == (unsigned char)self->data16[ghost_g]) \
    __CPROVER_decreases(stop - i)
#define LOOP_counter_array__shrink32to16_1 \
    __CPROVER_assigns(i, __CPROVER_object_whole(self->data16)) \
    __CPROVER_loop_invariant(i <= stop) \
    __CPROVER_loop_invariant(ghost_g < i ==> self->data16[ghost_g] == (unsigned short)self->data32[ghost_g]) \
    __CPROVER_decreases(stop - i)
#define LOOP_counter_array__shrink32to8_1 \
    __CPROVER_assigns(i, __CPROVER_object_whole(self->data8)) \
    __CPROVER_loop_invariant(i <= stop) \
    __CPROVER_loop_invariant(ghost_g < i ==> self->data8[ghost_g] == (unsigned char)self->data32[ghost_g]) \
    __CPROVER_decreases(stop - i)
#define LOOP_address_array__expand32to64_1 \
    __CPROVER_assigns(i, __CPROVER_object_whole(self->data64)) \
    __CPROVER_loop_invariant(i <= self->size) \
    __CPROVER_loop_invariant(ghost_g < i ==> self->data64[ghost_g] == self->data32[ghost_g]) \
    __CPROVER_decreases(self->size - i)
