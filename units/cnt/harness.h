#define H_WIT() do { w_bytes = nondet_unsigned(); w_val_i = nondet_unsigned(); w_val_j = nondet_unsigned(); w_val_g = nondet_unsigned(); \
    w_size = nondet_size_t(); w_c09 = nondet_size_t(); w_c17 = nondet_size_t(); } while (0)
#define H_CNT1(name, call) void h_##name(void) { struct counter_array *c; size_t w_i = nondet_size_t(); ghost_g = nondet_size_t(); H_WIT(); call; CANARY(); }
H_CNT1(cnt_expand8to16, counter_array__expand8to16(c, w_i))
H_CNT1(cnt_expand16to32, counter_array__expand16to32(c, w_i))
H_CNT1(cnt_shrink16to8, counter_array__shrink16to8(c, w_i))
H_CNT1(cnt_shrink32to16, counter_array__shrink32to16(c, w_i))
H_CNT1(cnt_shrink32to8, counter_array__shrink32to8(c, w_i))
H_CNT1(cnt_get, counter_array__get(c, w_i))
H_CNT1(cnt_increment, counter_array__increment(c, w_i))
H_CNT1(cnt_decrement, counter_array__decrement(c, w_i))
H_CNT1(cnt_isZeroBeforeIncrement, counter_array__isZeroBeforeIncrement(c, w_i))
H_CNT1(cnt_isPositiveAfterDecrement, counter_array__isPositiveAfterDecrement(c, w_i))
H_CNT1(cnt_expand, counter_array__expand(c, w_i))
H_CNT1(cnt_shrink, counter_array__shrink(c, w_i))
void h_cnt_swap(void) { struct counter_array *c; size_t w_i = nondet_size_t(), w_j = nondet_size_t(); ghost_g = nondet_size_t(); H_WIT(); counter_array__swap(c, w_i, w_j); CANARY(); }

void h_lvl_get(void) { struct level_array *c; size_t w_i = nondet_size_t(); level_array__get(c, w_i); CANARY(); }
void h_lvl_set(void) { struct level_array *c; size_t w_i = nondet_size_t(); int w_v = nondet_int(); ghost_g = nondet_size_t(); level_array__set(c, w_i, w_v); CANARY(); }
void h_lvl_swap(void) { struct level_array *c; size_t w_i = nondet_size_t(), w_j = nondet_size_t(); ghost_g = nondet_size_t(); level_array__swap(c, w_i, w_j); CANARY(); }
void h_adr_get(void) { struct address_array *c; size_t w_i = nondet_size_t(); address_array__get(c, w_i); CANARY(); }
void h_adr_expand32to64(void) { struct address_array *c; ghost_g = nondet_size_t(); address_array__expand32to64(c); CANARY(); }
void h_adr_set(void) { struct address_array *c; size_t w_i = nondet_size_t(); unsigned long w_v = nondet_ulong(); ghost_g = nondet_size_t(); address_array__set(c, w_i, w_v); CANARY(); }
void h_adr_swap(void) { struct address_array *c; size_t w_i = nondet_size_t(), w_j = nondet_size_t(); ghost_g = nondet_size_t(); address_array__swap(c, w_i, w_j); CANARY(); }
void h_bv_get(void) { struct bitvector *c; size_t w_i = nondet_size_t(); bitvector__get(c, w_i); CANARY(); }
void h_bv_set(void) { struct bitvector *c; size_t w_i = nondet_size_t(); _Bool w_v = nondet_bool(); ghost_g = nondet_size_t(); bitvector__set(c, w_i, w_v); CANARY(); }
