H = 'src/arrays.h'
C = 'src/arrays.cc'

def cf(name, file=H, **kw):
    d = dict(cls='counter_array', name=name, file=file)
    d.update(kw)
    return d

def af(name, file=H, **kw):
    d = dict(cls='address_array', name=name, file=file)
    d.update(kw)
    return d

def lf(name, file=H, **kw):
    d = dict(cls='level_array', name=name, file=file)
    d.update(kw)
    return d

CNT_ALL = ['counter_array__expand8to16', 'counter_array__expand16to32', 'counter_array__shrink16to8',
           'counter_array__shrink32to16', 'counter_array__shrink32to8']
W = ['array_watcher__expandElementSize', 'array_watcher__shrinkElementSize']

C07_JOBS = {'cnt_expand8to16', 'cnt_expand16to32', 'cnt_get', 'cnt_increment', 'cnt_isPositiveAfterDecrement', 'cnt_swap', 'cnt_expand', 'cnt_shrink'}

def job(name, enforce, replace=(), props=None, **kw):
    props = props or (('C06', 'C07') if name in C07_JOBS else ('C06',))
    d = dict(name=name, entry='h_' + name, enforce=enforce, replace=list(replace) + W, props=list(props))
    d.update(kw)
    return d

UNIT = {
    'name': 'cnt',
    'solver': [],   # default MiniSat2 is the faster back end for these array-heavy jobs
    'classes': {
        'array_watcher': {'opaque': True},
        'counter_array': {'file': H},
        'address_array': {'file': H},
        'level_array': {'file': H},
        'bitvector': {'file': H},
    },
    'foreign': {
        'expandElementSize': {'*': 'array_watcher'},
        'shrinkElementSize': {'*': 'array_watcher'},
    },
    'functions': [
        cf('get'), cf('swap'), cf('increment'), cf('decrement'),
        cf('isZeroBeforeIncrement'), cf('isPositiveAfterDecrement'),
        cf('expand', C, fires={'R1': 3}), cf('shrink', C, fires={'R1': 3}),
        cf('expand8to16', C, loops=1, fires={'R1': 1}), cf('expand16to32', C, loops=1, fires={'R1': 1}),
        cf('shrink16to8', C, loops=1, fires={'R1': 1}), cf('shrink32to16', C, loops=1, fires={'R1': 1}),
        cf('shrink32to8', C, loops=1, fires={'R1': 1}),
        af('get'), af('set'), af('swap'),
        af('expand', C, fires={'R1': 2}), af('shrink', C, fires={'R1': 2}),
        af('expand32to64', C, loops=1, fires={'R1': 1}), af('shrink64to32', C, loops=1, fires={'R1': 1}),
        lf('get'), lf('set'), lf('swap'),
        dict(cls='bitvector', name='get', file=H), dict(cls='bitvector', name='set', file=H),
    ],
    'replay_sources': ['src/error.cc', 'src/arrays.cc', 'src/io.cc'],
    'stubs': [
        'array_watcher::expandElementSize/shrinkElementSize(old,new): virtual notification hook; assumed to assign nothing visible to the arrays',
    ],
    'assumptions': [
        'counting invariant INV (counts_09bit == #{k: val(k) >= 256}, counts_17bit likewise) is not machine-checked globally: each operation is proved to change the counters by exactly the indicator delta of the one element it changes and to leave all other elements unchanged (ghost index); INV then follows by the meta-lemma of DESIGN 4 U-cnt',
        'local consequences of INV are preconditions: val(i) >= 256 ==> counts_09bit >= 1 (decrement), counts_09bit == 0 ==> every element < 256 for the ghost element (narrowing helpers)',
        'array sizes bounded by 10^6 elements in the proofs (object-size limit of the memory model), element index and ghost index fully symbolic',
    ],
    'unverified_surroundings': {'C06': ['see U-hdr / U-reduce'], 'C07': ['storage/ct_styles.cc']},
    'jobs': [
        job('cnt_expand8to16', 'counter_array__expand8to16', loops=1),
        job('cnt_expand16to32', 'counter_array__expand16to32', loops=1),
        job('cnt_shrink16to8', 'counter_array__shrink16to8', loops=1),
        job('cnt_shrink32to16', 'counter_array__shrink32to16', loops=1),
        job('cnt_shrink32to8', 'counter_array__shrink32to8', loops=1),
        job('cnt_get', 'counter_array__get'),
        job('cnt_increment', 'counter_array__increment', CNT_ALL),
        job('cnt_decrement', 'counter_array__decrement', CNT_ALL),
        job('cnt_isZeroBeforeIncrement', 'counter_array__isZeroBeforeIncrement', CNT_ALL),
        job('cnt_isPositiveAfterDecrement', 'counter_array__isPositiveAfterDecrement', CNT_ALL),
        job('cnt_swap', 'counter_array__swap'),
        job('cnt_expand', 'counter_array__expand', CNT_ALL),
        job('cnt_shrink', 'counter_array__shrink', CNT_ALL),
        job('lvl_get', 'level_array__get'), job('lvl_set', 'level_array__set'), job('lvl_swap', 'level_array__swap'),
        job('adr_get', 'address_array__get'), job('adr_expand32to64', 'address_array__expand32to64', loops=1),
        job('adr_set', 'address_array__set', ['address_array__expand32to64']),
        job('adr_swap', 'address_array__swap'),
        job('bv_get', 'bitvector__get'), job('bv_set', 'bitvector__set'),
    ],
}
