int lemma_value_edge_roundtrip(const struct forest *self, struct rangeval T)
{
    struct edge_value v; node_handle p = 12345; struct rangeval back;
    v.mytype = edge_type__VOID;
    forest__getEdgeForValue(self, T, &v, &p);
    if (verif_exc) { verif_exc = 0; return 1; }                  /* rejected values are the business of the contracts above */
    if (self->the_edge_type == edge_type__INT && T.l_value != (long)(int)T.l_value) return 1;   /* int edges: see DESIGN (silent narrowing, not claimed) */
    forest__getValueForEdge(self, &v, p, &back);
    if (verif_exc) { verif_exc = 0; return 0; }                  /* what was encoded must decode */
    if (back.the_type != T.the_type || back.s_value != T.s_value) return 0;
    if (T.s_value == range_special__PLUS_INFINITY) return 1;
    if (T.the_type == range_type__REAL) return back.d_value == T.d_value;
    return back.l_value == T.l_value;
}
void h_getEdgeForValue(void) { struct forest *f; struct rangeval w_T; struct edge_value *v; node_handle *p; forest__getEdgeForValue(f, w_T, v, p); CANARY(); }
void h_getValueForEdge(void) { struct forest *f; struct rangeval *T; struct edge_value *v; node_handle w_p = nondet_int(); forest__getValueForEdge(f, v, w_p, T); CANARY(); }
void h_value_edge_roundtrip(void) { struct forest *f; struct rangeval w_T; lemma_value_edge_roundtrip(f, w_T); CANARY(); }
