# U-valedge: value <-> terminal / edge conversion of a forest (C19 "special values are preserved by EV+ edges", C03 mechanism anchor, C16 TYPE_MISMATCH):
# forest::getEdgeForValue and forest::getValueForEdge (src/forest.cc) with the REAL rangeval, edge_value and terminal accessors inlined.
FC = 'src/forest.cc'
FH = 'src/forest.h'
R = 'src/rangeval.h'
EV = 'src/edge_value.h'
T = 'src/terminal.h'
def job(name, enforce, replace=(), props=('C19', 'C03', 'C16'), **kw):
    d = dict(name=name, entry='h_' + name, enforce=enforce, replace=list(replace), props=list(props))
    d.update(kw)
    return d
def rf(name, **kw):
    d = dict(cls='rangeval', name=name, file=R); d.update(kw); return d
def ef(name, **kw):
    d = dict(cls='edge_value', name=name, file=EV); d.update(kw); return d
def tf(name, **kw):
    d = dict(cls='terminal', name=name, file=T); d.update(kw); return d
UNIT = {
    'name': 'valedge',
    'conversion_classes': ['rangeval', 'edge_value'],
    'typedefs': [('src/defines.h', 'node_handle')],
    'enums': [('src/rangeval.h', 'range_special'), ('src/rangeval.h', 'range_type'), ('src/edge_value.h', 'edge_type'), ('src/policies.h', 'edge_labeling'),
              ('src/terminal.h', 'terminal_type')],
    'consts': [('src/terminal.h', ['OMEGA_NORMAL', 'OMEGA_ZERO', 'OMEGA_INFINITY'])],
    'classes': {
        'rangeval': {'file': R}, 'edge_value': {'file': EV}, 'terminal': {'file': T},
        'forest': {'file': FH, 'fields': ['rangeType', 'edgeLabel', 'the_edge_type', 'the_terminal_type']},
    },
    'foreign': {
        'hasType': {'^T$': 'rangeval'}, 'isNormal': {'*': 'rangeval'}, 'isPlusInfinity': {'*': 'rangeval'},
        'setBoolean': {'^T$': 'rangeval', '^t$': 'terminal'}, 'setInteger': {'^T$': 'rangeval', '^t$': 'terminal'}, 'setReal': {'^T$': 'rangeval', '^t$': 'terminal'},
        'setSpecial': {'*': 'rangeval'},
        'getHandle': {'*': 'terminal'}, 'setFromHandle': {'*': 'terminal'}, 'getBoolean': {'*': 'terminal'}, 'getInteger': {'*': 'terminal'}, 'getReal': {'*': 'terminal'},
        'set': {'*': {0: 'edge_value__set_void', 'args:to_int': 'edge_value__set_int', 'args:to_long': 'edge_value__set_long',
                      'args:to_float': 'edge_value__set_float', 'args:to_double': 'edge_value__set_double'}},
        'setTempl': {'*': 'edge_value__setTempl_int'},
        'isVoid': {'*': 'edge_value'},
    },
    'text_subst': [
        # one-line constructors (terminal.h, rangeval.h: each calls exactly the setter named here) written as default construction + setter
        (r'terminal t = terminal\(bool\(T\)\);', 'terminal t; t.setBoolean(bool(T));', FC),
        (r'terminal t = terminal\((int|long)\(T\)\);', r'terminal t; t.setInteger(\1(T));', FC),      # whatever integer conversion the source applies is kept (seed C16c narrows here)
        (r'terminal t = terminal\(double\(T\)\);', 'terminal t; t.setReal(double(T));', FC),
        (r'terminal t\(the_terminal_type, p\);', 'terminal t; t.setFromHandle(the_terminal_type, p);', FC),
        (r'T = rangeval\(t\.getBoolean\(\)\);', 'T.setBoolean(t.getBoolean());', FC),
        (r'T = rangeval\(t\.getInteger\(\)\);', 'T.setInteger(t.getInteger());', FC),
        (r'T = rangeval\(t\.getReal\(\)\);', 'T.setReal(t.getReal());', FC),
        (r'T = rangeval\(range_special::PLUS_INFINITY,\s*range_type::INTEGER\);', 'T.setSpecial(range_special::PLUS_INFINITY, range_type::INTEGER);', FC),
        (r'T = rangeval\(int\(v\)\);', 'T.setInteger(int(v));', FC),
        (r'T = rangeval\(long\(v\)\);', 'T.setInteger(long(v));', FC),
        (r'T = rangeval\(0\.0\);', 'T.setReal(0.0);', FC),
        (r'T = rangeval\(float\(v\)\);', 'T.setReal(float(v));', FC),
        (r'T = rangeval\(double\(v\)\);', 'T.setReal(double(v));', FC),
    ],
    'functions': [
        rf('hasType'), rf('isNormal'), rf('isPlusInfinity'), rf('isBoolean'), rf('isInteger'), rf('isReal'),
        rf('setBoolean'), rf('setInteger'), rf('setReal'), rf('setSpecial'),
        rf('operator bool', cname='rangeval__to__Bool'), rf('operator int', cname='rangeval__to_int'), rf('operator long', cname='rangeval__to_long'),
        rf('operator float', cname='rangeval__to_float'), rf('operator double', cname='rangeval__to_double'),
        ef('isVoid'), ef('isInt'), ef('isLong'), ef('isFloat'), ef('isDouble'),
        ef('set', sel=r'^$', cname='edge_value__set_void', argc_key=0),
        ef('set', sel=r'^int v$', cname='edge_value__set_int', argc_key='k_int'), ef('set', sel=r'^long v$', cname='edge_value__set_long', argc_key='k_long'),
        ef('set', sel=r'^float v$', cname='edge_value__set_float', argc_key='k_float'), ef('set', sel=r'^double v$', cname='edge_value__set_double', argc_key='k_double'),
        ef('setTempl', subst={'V': 'int'}, cname='edge_value__setTempl_int'),
        ef('operator int', cname='edge_value__to_int'), ef('operator long', cname='edge_value__to_long'),
        ef('operator float', cname='edge_value__to_float'), ef('operator double', cname='edge_value__to_double'),
        tf('isOmega'), tf('isBoolean'), tf('isInteger'), tf('isReal'), tf('intMin'), tf('intMax'), tf('msb'), tf('getIntegerHandle'), tf('getRealHandle'),
        tf('setBoolean'), tf('setInteger', sel=r'^long v$'), tf('setReal', sel=r'^double v$'), tf('setFromHandle'), tf('getHandle'),
        tf('getBoolean'), tf('getInteger'), tf('getReal'),
        dict(cls='forest', name='isTerminalNode', file=FH),
        dict(cls='forest', name='getEdgeForValue', file=FC, where='out'),
        dict(cls='forest', name='getValueForEdge', file=FC, where='out'),
    ],
    'stubs': ['none: every callee is the real body (rangeval, edge_value, terminal accessors); the one-line constructors of terminal and rangeval are written as default construction plus the setter they call (text_subst, listed)'],
    'assumptions': ['floating point as CBMC models it (IEEE, round to nearest)'],
    'unverified_surroundings': {'C19': ['every caller of the two conversions'], 'C03': ['minterms.cc builders and dd_edge.cc evaluators that call them'], 'C16': []},
    'jobs': [
        job('getEdgeForValue', 'forest__getEdgeForValue'),
        job('getValueForEdge', 'forest__getValueForEdge'),
        job('value_edge_roundtrip', 'lemma_value_edge_roundtrip'),
    ],
}
