/* U-valedge: value <-> terminal / edge conversion (C19, C03, C16) */
#define VE_REQ() \
    __CPROVER_requires(__CPROVER_is_fresh(self, sizeof(*self)) && verif_exc == 0) \
    /* enum fields hold enumerators */ \
    __CPROVER_requires((unsigned)self->the_edge_type <= (unsigned)edge_type__DOUBLE && (unsigned)self->the_terminal_type <= (unsigned)terminal_type__REAL)
#define IS_EVP(f)   ((f)->edgeLabel == edge_labeling__EVPLUS || (f)->edgeLabel == edge_labeling__INDEX_SET)
#define T_INF(t)    ((t).s_value == range_special__PLUS_INFINITY)
#define T_NORM(t)   ((t).s_value == range_special__NORMAL)

void forest__getEdgeForValue(const struct forest *self, struct rangeval T, struct edge_value *v, node_handle *p)
VE_REQ()
__CPROVER_requires(__CPROVER_is_fresh(v, sizeof(*v)) && __CPROVER_is_fresh(p, sizeof(*p)))
__CPROVER_assigns(verif_exc, *p, __CPROVER_object_whole(v))
ENSURES(wrong_range_type_is_a_type_mismatch, (verif_exc == ERR_TYPE_MISMATCH) == (T.the_type != self->rangeType))
ENSURES(only_documented_errors, verif_exc == 0 || verif_exc == ERR_TYPE_MISMATCH || verif_exc == ERR_NOT_IMPLEMENTED || verif_exc == ERR_VALUE_OVERFLOW)
/* EV+ and index sets: +infinity is the infinity terminal, a finite integer rides on the edge to the normal terminal */
ENSURES(evplus_infinity_is_the_infinity_terminal, !(IS_EVP(self) && T.the_type == self->rangeType && T_INF(T)) || (verif_exc == 0 && *p == OMEGA_INFINITY))
ENSURES(evplus_long_value_is_carried_by_the_edge, !(IS_EVP(self) && T.the_type == self->rangeType && T_NORM(T) && self->the_edge_type == edge_type__LONG) ||
        (verif_exc == 0 && *p == OMEGA_NORMAL && v->mytype == edge_type__LONG && v->ev_long == T.l_value))
ENSURES(evplus_int_value_is_carried_by_the_edge, !(IS_EVP(self) && T.the_type == self->rangeType && T_NORM(T) && self->the_edge_type == edge_type__INT && T.l_value == (long)(int)T.l_value) ||
        (verif_exc == 0 && *p == OMEGA_NORMAL && v->mytype == edge_type__INT && v->ev_int == (int)T.l_value))
/* multi-terminal: the edge value is void, the terminal is never a stored node; an integer outside the terminal range is rejected */
ENSURES(multi_terminal_edges_carry_no_value, !(self->edgeLabel == edge_labeling__MULTI_TERMINAL && verif_exc == 0) || (v->mytype == edge_type__VOID && *p <= 0))
ENSURES(multi_terminal_infinity_is_not_representable, !(self->edgeLabel == edge_labeling__MULTI_TERMINAL && T.the_type == self->rangeType && !T_NORM(T)) || verif_exc == ERR_NOT_IMPLEMENTED)
ENSURES(multi_terminal_integer_overflow_is_rejected, !(self->edgeLabel == edge_labeling__MULTI_TERMINAL && self->rangeType == range_type__INTEGER && T.the_type == range_type__INTEGER && T_NORM(T)) ||
        ((verif_exc == ERR_VALUE_OVERFLOW) == (T.l_value < -1073741824L || T.l_value > 1073741823L)))
ENSURES(multi_terminal_false_and_zero_are_the_transparent_terminal, !(self->edgeLabel == edge_labeling__MULTI_TERMINAL && verif_exc == 0 && (T.the_type == range_type__BOOLEAN || T.the_type == range_type__INTEGER)) ||
        ((*p == 0) == (T.l_value == 0)))
/* EV*: zero is the zero terminal */
ENSURES(evtimes_zero_is_the_zero_terminal, !(self->edgeLabel == edge_labeling__EVTIMES && verif_exc == 0 && self->the_edge_type == edge_type__DOUBLE) || ((*p == OMEGA_ZERO) == (T.d_value == 0.0)))
;

void forest__getValueForEdge(const struct forest *self, const struct edge_value *v, node_handle p, struct rangeval *T)
VE_REQ()
__CPROVER_requires(__CPROVER_is_fresh(v, sizeof(*v)) && __CPROVER_is_fresh(T, sizeof(*T)))
/* a multi-terminal forest has a boolean, integer or real terminal type (forest::forest) */
__CPROVER_requires(self->edgeLabel != edge_labeling__MULTI_TERMINAL || self->the_terminal_type == terminal_type__BOOLEAN || self->the_terminal_type == terminal_type__INTEGER || self->the_terminal_type == terminal_type__REAL)
__CPROVER_assigns(verif_exc, __CPROVER_object_whole(T))
ENSURES(stored_nodes_have_no_value, (verif_exc == ERR_INVALID_LEVEL) == (p >= 1))
ENSURES(only_documented_errors, verif_exc == 0 || verif_exc == ERR_INVALID_LEVEL || verif_exc == ERR_NOT_IMPLEMENTED || verif_exc == ERR_MISCELLANEOUS)
ENSURES(evplus_infinity_terminal_is_plus_infinity, !(IS_EVP(self) && p == OMEGA_INFINITY) || (verif_exc == 0 && T_INF(*T) && T->the_type == range_type__INTEGER))
ENSURES(evplus_long_edge_value_is_the_value, !(IS_EVP(self) && p == OMEGA_NORMAL && self->the_edge_type == edge_type__LONG) || (verif_exc == 0 && T_NORM(*T) && T->the_type == range_type__INTEGER && T->l_value == v->ev_long))
ENSURES(evplus_int_edge_value_is_the_value, !(IS_EVP(self) && p == OMEGA_NORMAL && self->the_edge_type == edge_type__INT) || (verif_exc == 0 && T_NORM(*T) && T->the_type == range_type__INTEGER && T->l_value == (long)v->ev_int))
;

/* round trip through the two conversions, for a forest whose fields are consistent (as forest::forest sets them) */
int lemma_value_edge_roundtrip(const struct forest *self, struct rangeval T)
VE_REQ()
__CPROVER_requires((self->edgeLabel == edge_labeling__MULTI_TERMINAL && self->the_edge_type == edge_type__VOID &&
                    ((self->rangeType == range_type__BOOLEAN && self->the_terminal_type == terminal_type__BOOLEAN) || (self->rangeType == range_type__INTEGER && self->the_terminal_type == terminal_type__INTEGER))) ||
                   (IS_EVP(self) && self->rangeType == range_type__INTEGER && (self->the_edge_type == edge_type__LONG || self->the_edge_type == edge_type__INT)) ||
                   (self->edgeLabel == edge_labeling__EVTIMES && self->rangeType == range_type__REAL && self->the_edge_type == edge_type__DOUBLE))
__CPROVER_requires(T.the_type != range_type__BOOLEAN || T.l_value == 0 || T.l_value == 1)
__CPROVER_requires(T.the_type != range_type__REAL || T.d_value == T.d_value)      /* not a NaN */
__CPROVER_assigns(verif_exc)
ENSURES(accepted_values_come_back_unchanged, __CPROVER_return_value == 1)
;
