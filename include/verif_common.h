/* Common prelude of every extracted translation unit (DESIGN.md 2.2, 3.3).
 * Hand-written, trusted, kept tiny.  Everything the extracted C++ bodies
 * rely on that is not C is mapped here. */
#ifndef VERIF_COMMON_H
#define VERIF_COMMON_H

#include <stdbool.h>
#include <stddef.h>
#include <stdlib.h>
#include <string.h>
#include <limits.h>
#include <float.h>
#include <stdint.h>

/* ---- exceptions (DESIGN 3.3): code recorded in ghost, control returns ---- */
extern int verif_exc;
#define VERIF_THROW(code) do { verif_exc = (code); return VERIF_DEFAULT; } while (0)
/* after a call to a callee that may throw, the C++ caller does not continue:
 * the extractor wraps such calls (tools/vlib/unit.py wrap_throwing_calls) */
#define VERIF_CALLX(e) ({ __typeof__(e) verif_r_ = (e); if (verif_exc) return VERIF_DEFAULT; verif_r_; })

/* ---- release-build semantics of the sanity macros (defines.h:88-89,183) --- */
#ifdef VERIF_DEVELOPMENT_CODE
#define MEDDLY_DCASSERT(X) __CPROVER_assert((X), "MEDDLY_DCASSERT " #X)
#define MEDDLY_CHECK_RANGE(L, X, U) __CPROVER_assert(!((X) < (L) || (X) >= (U)), "MEDDLY_CHECK_RANGE " #X)
#else
#define MEDDLY_DCASSERT(X)
#define MEDDLY_CHECK_RANGE(L, X, U)
#endif
/* FAIL() is a no-op in the release build; reaching it is an obligation here */
#define FAIL(...) __CPROVER_assert(0, "FAIL() reached")

/* ---- defines.h templates as macros (trusted, 1:1) ---- */
#define SWAP(x, y) do { __typeof__(x) verif_tmp_ = (x); (x) = (y); (y) = verif_tmp_; } while (0)
#define MAX(X, Y) (((X) > (Y)) ? (X) : (Y))
#define MIN(X, Y) (((X) < (Y)) ? (X) : (Y))
#define ABS(X) (((X) < 0) ? (-(X)) : (X))
#define POSITIVE(X) ((X) > 0)
#define UPDATEMAX(X, Y) do { if ((Y) > (X)) (X) = (Y); } while (0)

/* ---- new[] / delete[] ---- */
#define VERIF_NEW_ARRAY(T, n) ((T *)malloc(sizeof(T) * (size_t)(n)))
#define VERIF_DELETE_ARRAY(p) free(p)

/* named postconditions: the runner maps the source line of each ENSURES to its name */
#define ENSURES(name, ...) __CPROVER_ensures(__VA_ARGS__)
#define REQUIRES(name, ...) __CPROVER_requires(__VA_ARGS__)

/* witness clause: a requires clause only in the job that enforces fn (see runner.py) */
#define WITNESS(fn, ...) WIT_##fn(__VA_ARGS__)

/* ---- nondet sources and vacuity canary ---- */
int nondet_int(void);
unsigned nondet_unsigned(void);
long nondet_long(void);
unsigned long nondet_ulong(void);
size_t nondet_size_t(void);
float nondet_float(void);
double nondet_double(void);
_Bool nondet_bool(void);
unsigned char nondet_uchar(void);
unsigned short nondet_ushort(void);
/* must FAIL in every job: proves the harness end is reachable under the
 * preconditions (DESIGN 3.5).  Asserts do not block paths in CBMC, so the
 * other obligations of the same run are unaffected. */
#define CANARY() __CPROVER_assert(0, "canary: harness end reachable")
#define CANARY_IF(c) do { if (c) __CPROVER_assert(0, "canary: branch reachable"); } while (0)
#define LEMMA(name, ...) __CPROVER_assert((__VA_ARGS__), "lemma " #name)


#endif
