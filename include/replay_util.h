// Helpers for native replay drivers (C++11).  argv: <job> <obligation> name=value ...
#ifndef REPLAY_UTIL_H
#define REPLAY_UTIL_H
#include <cstdio>
#include <cstdlib>
#include <cstring>
#include <map>
#include <string>
struct replay_args {
    std::string job, obligation;
    std::map<std::string, std::string> kv;
    replay_args(int argc, char** argv) {
        if (argc < 3) { fprintf(stderr, "usage: replay <job> <obligation> name=value...\n"); exit(2); }
        job = argv[1]; obligation = argv[2];
        for (int i = 3; i < argc; i++) {
            const char* eq = strchr(argv[i], '=');
            if (!eq) continue;
            kv[std::string(argv[i], eq - argv[i])] = std::string(eq + 1);
        }
    }
    bool has(const char* n) const { return kv.count(n) > 0; }
    // integer value: prefer the bit pattern (exact), else the decimal text
    long long i(const char* n) const {
        std::string b = std::string(n) + ".bin";
        if (kv.count(b)) {
            const std::string& s = kv.at(b);
            unsigned long long v = 0;
            for (char c : s) v = (v << 1) | (unsigned long long)(c == '1');
            if (s.size() < 64 && s.size() > 0 && s[0] == '1') {
                // sign-extend for signed types; callers of unsigned values use u()
                v |= ~0ULL << s.size();
            }
            return (long long)v;
        }
        if (!kv.count(n)) { fprintf(stderr, "missing input %s\n", n); exit(2); }
        return strtoll(kv.at(n).c_str(), nullptr, 0);
    }
    unsigned long long u(const char* n) const {
        std::string b = std::string(n) + ".bin";
        if (kv.count(b)) {
            unsigned long long v = 0;
            for (char c : kv.at(b)) v = (v << 1) | (unsigned long long)(c == '1');
            return v;
        }
        if (!kv.count(n)) { fprintf(stderr, "missing input %s\n", n); exit(2); }
        return strtoull(kv.at(n).c_str(), nullptr, 0);
    }
    float f(const char* n) const {
        std::string b = std::string(n) + ".bin";
        if (kv.count(b)) {
            unsigned v = (unsigned)u(n);
            float r; memcpy(&r, &v, 4); return r;
        }
        if (!kv.count(n)) { fprintf(stderr, "missing input %s\n", n); exit(2); }
        return strtof(kv.at(n).c_str(), nullptr);
    }
    double d(const char* n) const {
        std::string b = std::string(n) + ".bin";
        if (kv.count(b)) {
            unsigned long long v = u(n);
            double r; memcpy(&r, &v, 8); return r;
        }
        if (!kv.count(n)) { fprintf(stderr, "missing input %s\n", n); exit(2); }
        return strtod(kv.at(n).c_str(), nullptr);
    }
};
// exit status: 1 + "REPRODUCED" = the real code violates the obligation on this input,
//              0 + "NOT-REPRODUCED" otherwise, 2 = driver cannot interpret the inputs
#define REPRO(cond_violated, ...) do { if (cond_violated) { printf("REPRODUCED "); printf(__VA_ARGS__); printf("\n"); return 1; } } while (0)
#define NOREPRO() do { printf("NOT-REPRODUCED\n"); return 0; } while (0)
#endif
