#!/usr/bin/env python3
"""seed_matrix.py [seed id ...]: run the recorded command of every seeded change (seeded/<id>/meta.json 'commands'[0]) and print one line per seed:
CAUGHT <failed obligations> / MISSED / UNDECIDED.  Development aid (DESIGN A.4); the registered checks always run on /repo itself.
A seed whose patch no longer applies to the current tree (later fix commits changed the context) is reported as SKIPPED."""
import glob, json, os, subprocess, sys
VERIF = os.path.dirname(os.path.dirname(os.path.abspath(__file__)))
os.chdir(VERIF)
ids = sys.argv[1:] or sorted(os.path.basename(os.path.dirname(p)) for p in glob.glob('seeded/*/meta.json'))
for sid in ids:
    meta = json.load(open(os.path.join('seeded', sid, 'meta.json')))
    cmds = [c for c in meta.get('commands', []) if 'seed_test.py' in c]
    if not cmds:
        print('%-34s NO-COMMAND' % sid); continue
    out = subprocess.run(cmds[0], shell=True, stdout=subprocess.PIPE, stderr=subprocess.STDOUT).stdout.decode()
    failed = sorted(set(l.split('failed-obligation', 1)[1].strip() for l in out.split('\n') if 'failed-obligation' in l))
    if 'FAILED' in out and 'patching file' not in out.replace('FAILED', '', 1) or 'can\'t find file' in out:
        print('%-34s SKIPPED (patch does not apply to the current tree)' % sid)
    elif failed:
        print('%-34s CAUGHT  %d obligation(s): %s%s' % (sid, len(failed), '; '.join(failed[:3]), ' ...' if len(failed) > 3 else ''))
    elif 'UNDECIDED' in out:
        print('%-34s UNDECIDED %s' % (sid, [l for l in out.split('\n') if l.startswith('UNDECIDED')][:1]))
    else:
        print('%-34s MISSED' % sid)
