#!/usr/bin/env python3
"""Regenerate MANIFEST.json from tools/manifest_data.py (keeps it valid at all times)."""
import json, os, sys
sys.path.insert(0, os.path.dirname(os.path.abspath(__file__)))
from manifest_data import CLAIMED, NOT_APPLICABLE
m = {
    "version": 1,
    "setup_cmd": "python3 tools/selfcheck_tools.py",
    "hooks": {
        "guard": "ASMINER_MEDDLY_VERIF",
        "enable": "none needed: contracts, stubs and harnesses live in /verif; bodies are extracted from /repo's working tree on every run (tools/vlib/extract.py); native replay drivers use g++ -fno-access-control instead of source hooks",
        "baseline_off_cmd": "cd /repo && make -j16 && make -k check",
        "source_commits": [],
        "add_only": True
    },
    "engines": [
        {"name": "cbmc-dfcc", "path": "tools/check.py", "serves_properties": sorted(CLAIMED.keys()),
         "kind_free_text": "contract-based deductive verification: real function bodies extracted mechanically to C, CBMC code contracts enforced per function with goto-instrument --dfcc, loop contracts, cbmc SAT back end; native replay of counterexamples"}
    ],
    "checks": [],
    "not_applicable": [{"property_id": k, "reason": v} for k, v in sorted(NOT_APPLICABLE.items())],
    "notes": "See DESIGN.md. exit 0 = all obligations discharged (KNOWN-FINDING lines allowed); 1 = VIOLATION; 2 = undecided (timeout, extraction mismatch) - never reported as a violation."
}
for pid, c in sorted(CLAIMED.items()):
    m["checks"].append({
        "property_id": pid,
        "quick_cmd": "python3 tools/check.py %s --tier quick" % pid,
        "thorough_cmd": "python3 tools/check.py %s --tier thorough" % pid,
        "evidence_file": "evidence/%s.json" % pid,
        "replay_cmd_template": "python3 tools/check.py --replay {path}",
        "engine": "cbmc-dfcc",
        "level_claimed": {"category": "proof", "text": c["text"], "design_ref": c.get("design_ref", "DESIGN.md section 4/5")},
        "level_note": c["note"],
        "technique": c.get("technique", "CBMC code contracts (goto-instrument --dfcc) on mechanically extracted real function bodies; unbounded via loop contracts"),
    })
json.dump(m, open(os.path.join(os.path.dirname(os.path.dirname(os.path.abspath(__file__))), 'MANIFEST.json'), 'w'), indent=1)
print("MANIFEST.json written: %d checks, %d not applicable" % (len(m["checks"]), len(m["not_applicable"])))
