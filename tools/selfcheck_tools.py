#!/usr/bin/env python3
"""setup_cmd: verify the pre-installed tools are present; builds nothing persistent."""
import shutil, subprocess, sys
ok = True
for t in ('cbmc', 'goto-cc', 'goto-instrument', 'g++', 'python3', 'z3'):      # z3: the two quantified U-mint jobs
    p = shutil.which(t)
    print('%-16s %s' % (t, p))
    ok = ok and bool(p)
v = subprocess.run(['cbmc', '--version'], stdout=subprocess.PIPE).stdout.decode().strip()
print('cbmc version', v)
sys.exit(0 if ok else 1)
