#!/usr/bin/env python3
"""seed_test.py <seeded/<id>> [PROP ...] [-- extra check.py flags, e.g. --unit arith --tier thorough]: apply seeded/<id>/patch.diff to a scratch copy of /repo's sources,
run the quick checks of the given properties (default: meta.json 'property' + 'also_check') against it, report which
obligations fail.  Development aid (DESIGN 3.9); the registered checks themselves always run on /repo."""
import json, os, shutil, subprocess, sys, tempfile
VERIF = os.path.dirname(os.path.dirname(os.path.abspath(__file__)))
sd = os.path.abspath(sys.argv[1])
meta = json.load(open(os.path.join(sd, 'meta.json'))) if os.path.exists(os.path.join(sd, 'meta.json')) else {}
args = sys.argv[2:]
extra = []
if '--' in args:
    extra = args[args.index('--') + 1:]
    args = args[:args.index('--')]
props = args or ([meta.get('property')] + meta.get('also_check', []))
tmp = tempfile.mkdtemp(prefix='seedrepo_')
try:
    shutil.copytree('/repo/src', os.path.join(tmp, 'src'), ignore=shutil.ignore_patterns('*.o', '*.lo', '.libs', '.deps', '*.la'))
    shutil.copy('/repo/config.h', tmp)
    # undo uncommitted edits of /repo in the copy? no: the copy is the current working tree by design
    r = subprocess.run(['patch', '-p1', '-d', tmp, '-i', os.path.join(sd, 'patch.diff')], stdout=subprocess.PIPE, stderr=subprocess.STDOUT)
    print(r.stdout.decode().strip())
    if r.returncode != 0:
        sys.exit(2)
    for p in props:
        env = dict(os.environ, VERIF_JOB_TIMEOUT=os.environ.get('VERIF_JOB_TIMEOUT', '600'))
        out = subprocess.run([sys.executable, os.path.join(VERIF, 'tools', 'check.py'), p, '--repo', tmp, '--no-evidence'] + extra,
                             stdout=subprocess.PIPE, stderr=subprocess.STDOUT, env=env).stdout.decode()
        v = [l for l in out.split('\n') if l.startswith('VIOLATION') or 'failed-obligation' in l or l.startswith('UNDECIDED') or l.startswith('property=')]
        print('--- %s' % p)
        print('\n'.join(v))
finally:
    shutil.rmtree(tmp, ignore_errors=True)
