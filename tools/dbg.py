#!/usr/bin/env python3
"""dbg.py <prop> <unit> <job> [extra cbmc flags]: rerun cbmc on an already built job and print non-SUCCESS lines"""
import subprocess, sys, os, re
sys.path.insert(0, os.path.dirname(os.path.abspath(__file__)))
from vlib import runner
prop, unit, job = sys.argv[1:4]
u = runner.load_unit(unit)
j = [x for x in u['jobs'] if x['name'] == job][0]
flags = list(j.get('flags', u.get('flags', runner.DEFAULT_FLAGS))) + j.get('extra_flags', [])
if j.get('unwind') and not isinstance(j['unwind'], (str, dict)): flags += ['--unwind', str(j['unwind'])]
for us in j.get('unwindset', []): flags += ['--unwindset', us]
if j.get('object_bits'): flags += ['--object-bits', str(j['object_bits'])]
solver = j.get('solver', u.get('solver', ['--sat-solver', 'cadical']))
b = os.path.join(runner.BUILD, prop, unit + runner.variant_key(j.get('variant')), job + '.b.gb')
cmd = ['timeout', '600', 'cbmc', b] + flags + solver + sys.argv[4:]
print(' '.join(cmd))
out = subprocess.run(cmd, stdout=subprocess.PIPE, stderr=subprocess.STDOUT).stdout.decode()
n = 0
for l in out.split('\n'):
    if re.search(r': (FAILURE|UNKNOWN|ERROR)$', l) or 'failed' in l or 'VERIFICATION' in l or 'rror' in l:
        if 'UNKNOWN' in l:
            n += 1
            if n > 5: continue
        print(l)
print('unknown lines:', n)
