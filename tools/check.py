#!/usr/bin/env python3
"""check.py <PROPERTY> [--tier quick|thorough] [--repo DIR] [--unit U ...]
   check.py --replay <replay.json>
Exit 0: every job discharged (KNOWN-FINDING lines allowed); 1: VIOLATION; 2: undecided."""
import argparse
import json
import os
import subprocess
import sys

sys.path.insert(0, os.path.dirname(os.path.abspath(__file__)))
from vlib import runner  # noqa: E402


def main():
    ap = argparse.ArgumentParser()
    ap.add_argument('prop', nargs='?')
    ap.add_argument('--tier', default=os.environ.get('VERIF_TIER', 'quick'))
    ap.add_argument('--repo', default=os.environ.get('VERIF_REPO', '/repo'))
    ap.add_argument('--unit', action='append')
    ap.add_argument('--job', action='append', help='only these job names (development aid)')
    ap.add_argument('--replay')
    ap.add_argument('--no-evidence', action='store_true')
    a = ap.parse_args()
    if a.replay:
        d = json.load(open(a.replay))
        print(json.dumps({k: d[k] for k in ('property', 'unit', 'job', 'obligation_key', 'inputs', 'native_replay_reproduced')}, indent=1))
        if d.get('native_replay_cmd'):
            unit = runner.load_unit(d['unit'])
            outdir = os.path.join(runner.BUILD, 'replay_' + d['unit'])
            os.makedirs(outdir, exist_ok=True)
            exe, why = runner.build_replay(unit, a.repo, outdir)
            if not exe:
                print(why)
                return 2
            p = subprocess.run([exe] + d['native_replay_cmd'][1:])
            return p.returncode
        print('no native replay for this obligation (no-failing-input-found); verifier trace tail:')
        print('\n'.join(d.get('verifier_trace_tail', [])))
        return 0
    seed = int(os.environ.get('VERIF_SEED', '0') or 0)
    runner.ONLY_JOBS = a.job
    return runner.check_property(a.prop, a.tier, a.repo, seed=seed, only_units=a.unit,
                                 write_evidence=not a.no_evidence)


if __name__ == '__main__':
    sys.exit(main())
