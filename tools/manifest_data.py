# Source of MANIFEST.json (tools/gen_manifest.py).  Only properties with a working check are in CLAIMED.
COMMON_NOTE = ("Trusted: CBMC 6.11 soundness; extraction rules R1-R8 of tools/vlib/extract.py; release-build semantics of "
               "MEDDLY_DCASSERT; exception model (throw = recorded code + return); contracts of stubbed callees as listed in the "
               "evidence file's trusted_base; code between the contracted functions and the public API is NOT verified "
               "(listed as unverified_surroundings in the evidence).")
CLAIMED = {
    "C19": {
        "text": "Proof for all inputs: the terminal encoders/decoders (real bodies of src/terminal.h, extracted each run) satisfy "
                "round-trip, injectivity, unique transparent zero, non-positive handles and overflow rejection; loop-free code "
                "over the full symbolic domain (all 2^64 longs, all non-NaN floats), so the result is complete, not sampled.",
        "note": COMMON_NOTE,
        "design_ref": "DESIGN.md 4 U-term",
    },
}
NA_HEAP = ("no function contract within CBMC's reach can express it: the content is a recursion over the decision-diagram heap "
           "(needs an inductive 'node p denotes f' predicate and induction), in template/virtual C++ the front end rejects")
NOT_APPLICABLE = {
    "C01": "work in progress in this session (units U-hash/U-reduce/U-codec/U-edge not built yet)",
    "C02": "work in progress in this session",
    "C03": "work in progress in this session",
    "C04": "set algebra: " + NA_HEAP,
    "C05": "work in progress in this session",
    "C06": "work in progress in this session",
    "C07": "work in progress in this session",
    "C08": "reachability fixed points: " + NA_HEAP,
    "C09": "image / vector-matrix products: " + NA_HEAP,
    "C10": "cross-forest copy: " + NA_HEAP + "; the scalar conversions are covered under C19",
    "C11": "enumeration and counting: " + NA_HEAP,
    "C12": "work in progress in this session",
    "C13": "work in progress in this session",
    "C14": "exchange files: stream I/O (fprintf/fscanf/iostream) plus one recursion over the diagram; outside CBMC contracts",
    "C15": "work in progress in this session",
    "C16": "work in progress in this session",
    "C17": "lifecycles: a history property over global registries, destructor order and std::vector; no per-function contract carries it",
    "C18": "work in progress in this session",
    "C20": "partitioned saturation: " + NA_HEAP,
}
