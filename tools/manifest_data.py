# Source of MANIFEST.json (tools/gen_manifest.py).  Only properties with a working check are in CLAIMED.
COMMON_NOTE = ("Trusted: CBMC 6.11 soundness; extraction rules R1-R8 of tools/vlib/extract.py; release-build semantics of "
               "MEDDLY_DCASSERT; exception model (throw = recorded code + return); contracts of stubbed callees as listed in the "
               "evidence file's trusted_base; code between the contracted functions and the public API is NOT verified "
               "(listed as unverified_surroundings in the evidence).")
CLAIMED = {
    "C19": {
        "text": "Proof for all inputs: the terminal encoders/decoders (real bodies of src/terminal.h, extracted each run) satisfy "
                "round-trip, injectivity, unique transparent zero, non-positive handles and overflow rejection; loop-free code "
                "over the full symbolic domain (all 2^64 longs, all non-NaN floats), so the result is complete, not sampled.",
        "note": COMMON_NOTE,
        "design_ref": "DESIGN.md 4 U-term",
    },
}
CLAIMED.update({
    "C06": {
        "text": "Proof (per function, all inputs, unbounded via loop contracts): the three-width reference counters are exact across "
                "every width change and resize (U-cnt, real arrays.h/arrays.cc), and the link/unlink/cache/uncache state machine "
                "of node_headers changes exactly one count by one, deletes a node exactly when its last reference goes and "
                "recycles a handle only when it is deleted and uncached (U-hdr, real node_headers.h/.cc; the recycling gate is the "
                "callee precondition every caller must discharge). Partial: operations' link balance and leak freedom are history "
                "properties outside any function contract and are listed as unverified.",
        "note": COMMON_NOTE + " U-hdr uses the array accessors through abstract contracts (ghost model arrays) that restate the "
                "U-cnt contracts; that renaming is not machine-checked. forest::deleteNode is an assumed stub there.",
        "design_ref": "DESIGN.md 4 U-cnt, U-hdr",
    },
    "C07": {
        "text": "Proof of the compute-table side of node lifetime: cache counts change by exactly one per cacheNode/uncacheNode, "
                "the last uncache of a dead handle recycles it, of an unreferenced live node reclaims it, and no caller can "
                "recycle a handle whose cache count is non-zero (gating lemma = named precondition of recycleNodeHandle checked "
                "at every call site). Partial: the compute-table templates themselves (ct_styles.cc) are out of reach.",
        "note": COMMON_NOTE,
        "design_ref": "DESIGN.md 4 U-cnt, U-hdr",
    },
})
NA_HEAP = ("no function contract within CBMC's reach can express it: the content is a recursion over the decision-diagram heap "
           "(needs an inductive 'node p denotes f' predicate and induction), in template/virtual C++ the front end rejects")
NOT_APPLICABLE = {
    "C01": "work in progress in this session (units U-hash/U-reduce/U-codec/U-edge not built yet)",
    "C02": "work in progress in this session",
    "C03": "work in progress in this session",
    "C04": "set algebra: " + NA_HEAP,
    "C05": "work in progress in this session",
    "C08": "reachability fixed points: " + NA_HEAP,
    "C09": "image / vector-matrix products: " + NA_HEAP,
    "C10": "cross-forest copy: " + NA_HEAP + "; the scalar conversions are covered under C19",
    "C11": "enumeration and counting: " + NA_HEAP,
    "C12": "work in progress in this session",
    "C13": "work in progress in this session",
    "C14": "exchange files: stream I/O (fprintf/fscanf/iostream) plus one recursion over the diagram; outside CBMC contracts",
    "C15": "work in progress in this session",
    "C16": "work in progress in this session",
    "C17": "lifecycles: a history property over global registries, destructor order and std::vector; no per-function contract carries it",
    "C18": "work in progress in this session",
    "C20": "partitioned saturation: " + NA_HEAP,
}
