# Source of MANIFEST.json (tools/gen_manifest.py).  Only properties with a working check are in CLAIMED.
COMMON_NOTE = ("Trusted: CBMC 6.11 soundness; extraction rules R1-R8 of tools/vlib/extract.py; release-build semantics of "
               "MEDDLY_DCASSERT; exception model (throw = recorded code + return); contracts of stubbed callees as listed in the "
               "evidence file's trusted_base; code between the contracted functions and the public API is NOT verified "
               "(listed as unverified_surroundings in the evidence).")
CLAIMED = {
    "C19": {
        "text": "Proof for all inputs: the terminal encoders/decoders (real bodies of src/terminal.h, extracted each run) satisfy "
                "round-trip, injectivity, unique transparent zero, non-positive handles and overflow rejection; loop-free code "
                "over the full symbolic domain (all 2^64 longs, all non-NaN floats), so the result is complete, not sampled. The forest-level "
                "conversions getEdgeForValue / getValueForEdge (real bodies, no stubs) keep +infinity on EV+ edges, raise TYPE_MISMATCH exactly "
                "on a wrong range type and round-trip every accepted boolean / integer / EV+ / EV*(double) value.",
        "note": COMMON_NOTE,
        "design_ref": "DESIGN.md A.2b, 4 U-term",
    },
}
CLAIMED.update({
    "C06": {
        "text": "Proof (per function, all inputs, unbounded via loop contracts): the three-width reference counters are exact across "
                "every width change and resize (U-cnt, real arrays.h/arrays.cc), and the link/unlink/cache/uncache state machine "
                "of node_headers changes exactly one count by one, deletes a node exactly when its last reference goes and "
                "recycles a handle only when it is deleted and uncached (U-hdr, real node_headers.h/.cc; the recycling gate is the "
                "callee precondition every caller must discharge). The chain builders forest::_makeRedundantsTo / _makeIdentitiesTo hand back "
                "exactly the one reference they were given (U-chain: one ghost balance = references held minus pointers written into nodes not "
                "yet stored; every link, unlink, pointer write and store moves it; loop contracts). Partial: operations' link balance and leak freedom are history "
                "properties outside any function contract and are listed as unverified.",
        "note": COMMON_NOTE + " U-hdr uses the array accessors through abstract contracts (ghost model arrays) that restate the "
                "U-cnt contracts; that renaming is not machine-checked. forest::deleteNode is an assumed stub there.",
        "design_ref": "DESIGN.md 4 U-cnt, U-hdr",
    },
    "C07": {
        "text": "Proof of the compute-table side of node lifetime: cache counts change by exactly one per cacheNode/uncacheNode, "
                "the last uncache of a dead handle recycles it, of an unreferenced live node reclaims it, and no caller can "
                "recycle a handle whose cache count is non-zero (gating lemma = named precondition of recycleNodeHandle checked "
                "at every call site). The item a hit copies out of an uncompressed table reads back, by type, exactly as stored "
                "(ct_item::set(ct_typeID, ct_entry_item) with the real typed setters and getters). "
                "Partial: the compute-table templates themselves (ct_styles.cc) are out of reach.",
        "note": COMMON_NOTE,
        "design_ref": "DESIGN.md 4 U-cnt, U-hdr",
    },
})
CLAIMED.update({
    "C01": {
        "text": "Proof of the local mechanisms canonicity rests on: node creation looks up the unique table before inserting and inserts under "
                "the looked-up hash, returns the existing node on a hit (real forest::createReducedNode, all branches, unbounded node "
                "size); EV+ edge values are normalised to one representative; the hash is a function of the pushed word sequence "
                "(hash_stream grouping lemmas); edge equality is forest id + handle + value; terminal handles are injective. "
                "BOUNDED stand-in (labelled bounded): the real unique_table::subtable find / add / remove / expand / shrink on up to 3 stored nodes "
                "in 8 / 16 buckets with symbolic hashes and chain orders (U-utb). "
                "BOUNDED stand-in (labelled bounded): the real unpacked_node::sort that createReducedNode runs on every sparse scratch node, on nodes "
                "of up to 3 entries, multi-terminal (no edge array) and edge-valued (U-sortb; exposed a null dereference, fixed). "
                "Partial: unique-table chains, packed-node duplicate test and every operation's use of these are unverified.",
        "note": COMMON_NOTE + " Completeness of the redundant/identity elimination (every redundant node IS eliminated) needs a counting "
                "argument over all children and is not proved; soundness (only redundant/identity patterns are eliminated, the function is preserved) is.",
        "design_ref": "DESIGN.md 4 U-reduce, U-hash, U-edge, U-term",
    },
    "C02": {
        "text": "Proof at the point where nodes are made: transparent nodes are never stored, eliminated nodes are not stored and the "
                "elimination preserves the function, quasi-reduced forests eliminate nothing but all-zero nodes, identity/redundant "
                "elimination happens only where the rule allows it, EV+ values are normalised (zero children carry 0, values shifted by "
                "the factored minimum, non-negative), the scratch node is recycled exactly once. "
                "The in-place rewrite used by reordering (forest::modifyReducedNodeInPlace) leaves the unique table under the old hash "
                "before the storage goes and re-enters under the hash of the new content. BOUNDED stand-ins (labelled bounded, not counted "
                "as proved): the packed-node codec in both directions (makeNode, areDuplicates, getDownPtr, isSingletonNode, fillUnpacked in every view) on nodes of up to 3 entries (U-codecb, U-unpackb) and the real mtmdd swapAdjacentVariables on a "
                "symbolic world of 2 (quick) / 3 (thorough) stored nodes (U-swapb); the real unpacked_node::sort on sparse nodes of up to 3 entries (U-sortb); the real EV+ swapAdjacentVariables on 2 stored nodes (U-swapbev). Partial (see note).",
        "note": COMMON_NOTE + " Not covered: relation swaps, chain builders, node-count bookkeeping across histories, "
                "completeness of elimination (counting argument).",
        "design_ref": "DESIGN.md A.1, A.2b, 4 U-reduce, U-hash",
    },
    "C03": {
        "text": "Proof of the partition step the minterm-collection builders rest on (fbuilder_common::moveValuesToFront / movePairsToFront / "
                "getMinMax, real bodies, loop contracts): the front part holds exactly the front value, nothing outside [low,high) moves, "
                "the split point is in range; 'the back part holds no front value' is proved with a quantified invariant on z3 for "
                "collections of up to 1000 minterms (labelled bounded). How the values of equal minterms are combined "
                "(fbop_min/max_tmpl<long>::finalize, real bodies with the real rangeval accessors): the result is one of the entries and a "
                "lower / upper bound of every entry with +infinity on top. The recursive builders and evaluate are not covered.",
        "note": COMMON_NOTE,
        "design_ref": "DESIGN.md A.2b, 4 U-mint",
    },
    "C13": {
        "text": "Proof that the variable-order bookkeeping every swap goes through keeps the two order maps mutually inverse "
                "(variable_order::exchange, unbounded number of variables) and that the in-place node rewrite keeps the handle and swaps "
                "the unique-table entry (modifyReducedNodeInPlace). BOUNDED stand-in (labelled bounded): the real mtmdd_forest::"
                "swapAdjacentVariables on a symbolic world of 2 / 3 stored nodes with variable sizes 2..3 - every rewritten node has "
                "new[j][k] == old[k][j], independent nodes are only relabelled, children stay below parents, one exchange. "
                "The swap-method selectors of policies: each method can be selected, never both (exposed isLevelSwap testing VAR, fixed). "
                "BOUNDED stand-ins for four of the eight schedules (sink_down, bring_up, lowest_inversion, highest_inversion: the real "
                "reorderVariables on domains of up to 4 variables, every current and target order): only adjacent levels inside the domain are "
                "swapped, every array access is in bounds (exposed a heap overflow by one int in six schedules, fixed), the target order is reached. "
                "BOUNDED stand-in: the real evmdd_pluslong::swapAdjacentVariables on up to 2 stored EV+ nodes with long edge values (U-swapbev): the value along every path is preserved. "
                "Relation swaps and the four cost-driven schedules are out of reach.",
        "note": COMMON_NOTE,
        "design_ref": "DESIGN.md A.2b, 4 U-vord",
    },
    "C15": {
        "text": "Proof of the index-set lookup descent (dd_edge::getElemInt/getElemLong, real bodies, loop contracts): at every level the "
                "largest position whose offset does not exceed the remaining index is chosen, only real nodes are unpacked (this "
                "obligation exposed the crash on the empty set, fixed), a level the index set skips (a variable with one value) is passed "
                "without unpacking anything and every level is assigned exactly once (the contract first ASSUMED that index sets skip no level; "
                "the assumption was false and hid a crash, fixed), negative indexes and the empty set fail, mismatches raise "
                "the documented errors. The conversion (mdd2index_operation::_compute, recursive, checked against its own contract with "
                "--enforce-contract-rec): the offset of child i is the number of members below the children before it, the stored "
                "cardinality is the sum, a compute-table hit returns the cached node and its cardinality; getIndexSetCardinality returns "
                "the stored long (its int truncation was found by this contract and fixed).",
        "note": COMMON_NOTE + " The compute table is a stub: a hit returns the pair that was added for the key.",
        "design_ref": "DESIGN.md A.2b, 4 U-index",
    },
    "C16": {
        "text": "Proof of the direct raises with their codes: VALUE_OVERFLOW for integers outside the terminal range and only those "
                "(U-term), FOREST_MISMATCH / INVALID_OPERATION / DOMAIN_MISMATCH guards of the index lookup (U-index), DIVIDE_BY_ZERO and "
                "INFINITY_DIV_INFINITY in the division kernels and on every shortcut path (U-arith), and the 8 + 7 compatibility helpers "
                "of binary_operation / unary_operation raise exactly on a mismatch with the documented code (U-opchk, U-opchku). Partial: "
                "which helper each operation constructor calls and the state after an error deep in a recursion are not covered.",
        "note": COMMON_NOTE,
        "design_ref": "DESIGN.md A.1, 4 U-term, U-index, U-arith",
    },
})
CLAIMED.update({
    "C12": {
        "text": "Proof of the storage-side mechanisms policy independence rests on: the packed-node codec records size, form, padding and owner "
                "so that the extent recycled on deletion is exactly the extent the memory manager granted (make/recycle lemma over the "
                "contracts of the real makeFullNode and unlinkDownAndRecycle), every child is released exactly once on deletion, the header "
                "word round-trips, and the free-list and array+grid managers honour the request/recycle contract the codec assumes. "
                "Partial: the 'any sequence of API calls' quantifier is a history property; the relational facts between packed and "
                "unpacked views (fillUnpacked/areDuplicates/hashNode) and the sparse storage form are not under contract.",
        "note": COMMON_NOTE,
        "design_ref": "DESIGN.md 4 U-codec, U-mm",
    },
    "C18": {
        "text": "Proof per call for two of the five styles: free lists (requestChunk, recycleChunk, reuse lemma, address translation) and "
                "array+grid (boundary-tag codec, resize keeps contents, allocateFromArray returns space above everything used and inside "
                "the arena, recycleChunk coalesces with tagged neighbours and never alters a slot outside the merged region). Disjointness "
                "of all live chunks over a history follows from these per-call contracts by an induction that is not machine-checked. "
                "The grid / list index of the array+grid manager (stopTrackingHole, startTrackingHole) and heap_manager::recycleChunk "
                "(coalescing; the current-hole pointer stays 0 or a hole inside the used arena) are under contract in the thorough tier "
                "(400-700 s each). requestChunk of the array+grid manager (quick tier) and of the original grid (thorough tier): the hole handed out is large enough for the request, "
                "the huge / large list is re-filed with the new maximum, a link is never read from a hole after it was re-filed - with the shape of the hole index assumed. "
                "The heap manager's requestChunk (thorough tier): the chunk comes from the current hole, the heap root or fresh space and the current-hole pointer stays valid. "
                "The malloc style is not covered.",
        "note": COMMON_NOTE + " In recycleChunk the hole index / heap maintenance is an assumed stub: it writes only pointer slots inside holes.",
        "design_ref": "DESIGN.md 4 U-mm",
    },
})
CLAIMED.update({
    "C05": {
        "text": "Proof, for all operand pairs of integer terminals, that each multi-terminal kernel (plus, minus, mult, div, mod, max, min) "
                "computes enc(dec(a) op dec(b)), raises DIVIDE_BY_ZERO exactly for a zero divisor and VALUE_OVERFLOW exactly when the "
                "result leaves the terminal range, and that every shortcut predicate (simplifiesToFirst/SecondArg, stopOnEqualArgs, "
                "commutes) is sound with respect to its kernel - the early exits the ops_* tests cannot span (this exposed the "
                "division shortcuts returning values at zero divisors, fixed). The same for the six comparisons (MT and EV+) and the EV+ "
                "mult/div/mod kernels with +infinity. Shortcut predicates are also checked with NON-TERMINAL operands, point-wise: whenever "
                "a predicate answers 'the result is the first (second) operand', the kernel applied to the operands' values at an arbitrary "
                "assignment gives that operand's value there (this exposed EV+ 0*infinity, fixed). Loop-free, full symbolic domain. "
                "The integer range scans MIN_RANGE / MAX_RANGE (recursive, under their own contract): every child of a node, also a transparent one, bounds the "
                "result (this exposed that the value 0 was never seen, fixed). Partial: the recursion that applies the kernels, EV* and real kernels and user maps are not covered.",
        "note": COMMON_NOTE + " Jobs with 64-bit multiply/divide/remainder equivalences run only in the thorough tier.",
        "design_ref": "DESIGN.md A.1, 4 U-arith",
    },
})
CLAIMED.update({
    "C11": {
        "text": "Thin: proofs of per-node steps only. Counting recursion (card_templ<intcard>::_compute, real body with the real helper "
                "class, recursive calls used through the contract being enforced): the empty set counts 0, below the last variable 1, a skipped "
                "level multiplies the count below it by the level size except a skipped primed level of an identity-reduced relation, a node's "
                "count is the sum over every listed child exactly once, a compute-table hit returns the cached count. Of the enumeration, the per-variable steps of the search for the first assignment: "
                "iterator_templ<EdgeOp_none>::first_pri (real body) on a primed variable that the mask fixes - a node at the level is followed along the fixed "
                "value (for an 'unchanged' position: the unprimed value), a skipped level of a fully-reduced forest matches every value, a skipped level "
                "otherwise (identity pattern) matches exactly x' == x whatever the mask says about x; and first_unpr on an unprimed variable the mask fixes - the value is reported once below the last variable, a node at the level is read at the fixed value, a skipped level keeps the node, a set continues with the next unprimed and a relation with the primed variable; and the scans of first_pri / first_unpr over a free variable - the cursor node is the stored node, a redundant node or (identity pattern) the single entry x' == x, entries are tried in ascending position, none skipped, the scan stops at the first with an assignment below and reports its index. The advance to the next assignment (iterator_templ::next), random_*, the "
                "edge-valued iterator instances, the composition of the steps (induction over the diagram), node/edge counts and the real / arbitrary-precision result types are NOT covered.",
        "note": COMMON_NOTE + " The skipped-level product (a 64-bit multiplication) is checked in the thorough tier only; the quick tier covers every other path. "
                "That the step contracts add up to 'the count of the function' is an induction over the diagram that is not machine-checked.",
        "design_ref": "DESIGN.md A.1, A.2b",
    },
})
NA_HEAP = ("the function-level statement is an induction over the decision-diagram heap (it needs a predicate 'node p denotes f'), which no CBMC "
           "function contract can carry; only the per-node step of such a recursion is within reach - as done for the C15 conversion, the C05 range "
           "scan and the C11 count - and for this property no step was put under contract, so nothing is claimed")
NOT_APPLICABLE = {
    "C04": "set algebra: " + NA_HEAP,
    "C08": "reachability fixed points: " + NA_HEAP,
    "C09": "image / vector-matrix products: " + NA_HEAP,
    "C10": "cross-forest copy: " + NA_HEAP + "; the scalar conversions are covered under C19",
    "C14": "exchange files: stream I/O (fprintf/fscanf/iostream) plus one recursion over the diagram; outside CBMC contracts",
    "C17": "lifecycles: a history property over global registries, destructor order and std::vector; no per-function contract carries it",
    "C20": "partitioned saturation: " + NA_HEAP,
}
