#!/bin/bash
# confirm_seed.sh <worktree> <demo-build-and-run command (run inside worktree/seed_out)>
# 1. with the change: demo must FAIL, existing suite must pass  2. without: demo must PASS.  Leaves the change applied.
wt=$1; shift
cd "$wt" || exit 2
log=/tmp/confirm_$(basename $wt).log
: > $log
echo "== diff" >> $log; git diff --stat -- src >> $log
make -j4 >/dev/null 2>&1
( cd seed_out && bash -c "$*" ) >> $log 2>&1; echo "WITH-CHANGE demo exit=$?" >> $log
make -k -j4 check > /tmp/confirm_$(basename $wt).check.log 2>&1
grep -E "^# (TOTAL|PASS|FAIL|ERROR)" /tmp/confirm_$(basename $wt).check.log | tr '\n' ' ' >> $log; echo >> $log
git stash -q
make -j4 >/dev/null 2>&1
( cd seed_out && bash -c "$*" ) >> $log 2>&1; echo "WITHOUT-CHANGE demo exit=$?" >> $log
git stash pop -q
make -j4 >/dev/null 2>&1
echo "== done" >> $log
