#!/bin/bash
# confirm_seed.sh <worktree> <patch.diff> <demo-build-and-run command (run inside worktree/seed_out)>
# 1. with the change: demo must FAIL, existing suite must pass  2. without: demo must PASS.  Leaves the change applied.
# (never uses git stash: refs/stash is shared by all worktrees of /repo)
wt=$1; patch=$2; shift 2
cd "$wt" || exit 2
log=/tmp/confirm_$(basename $wt).log
: > $log
git checkout -- src; git apply "$patch" || { echo "patch does not apply" >> $log; exit 2; }
echo "== diff" >> $log; git diff --stat -- src >> $log
make -j4 >/dev/null 2>&1
( cd seed_out && bash -c "$*" ) >> $log 2>&1; echo "WITH-CHANGE demo exit=$?" >> $log
make -k -j4 check > /tmp/confirm_$(basename $wt).check.log 2>&1
grep -E "^# (TOTAL|PASS|FAIL|ERROR)" /tmp/confirm_$(basename $wt).check.log | tr '\n' ' ' >> $log; echo >> $log
git checkout -- src
make -j4 >/dev/null 2>&1
( cd seed_out && bash -c "$*" ) >> $log 2>&1; echo "WITHOUT-CHANGE demo exit=$?" >> $log
git apply "$patch"
make -j4 >/dev/null 2>&1
echo "== done" >> $log
