#!/bin/sh
# development aid: run every claimed quick check sequentially, summarise
cd "$(dirname "$0")/.."
for p in $(python3 -c "import json; print(' '.join(c['property_id'] for c in json.load(open('MANIFEST.json'))['checks']))"); do
  python3 tools/check.py $p --tier ${1:-quick} > build/run_$p.log 2>&1
  echo "$p exit=$? $(tail -1 build/run_$p.log)"
done
