#!/usr/bin/env python3
"""
Mechanical extraction of real function bodies from /repo/src into C
translation units that CBMC's C front end accepts (DESIGN.md section 2.2).

Nothing here knows anything about what the functions *do*: the extractor
locates a definition by (class, name, overload selector), copies the body text
verbatim (comments blanked) and applies a fixed list of syntactic rules, each
with a fire counter.  Any rule that cannot be applied unambiguously raises
ExtractError, which the runner maps to exit status 2 (undecided), never to a
violation.

Rules (DESIGN 2.2):
  R1 throw error(error::X, __FILE__, __LINE__)  -> VERIF_THROW(ERR_X)
  R2 A::b                                        -> A__b   (leading MEDDLY:: dropped)
  R3 T(e), static_cast<T>(e)                     -> ((T)(e))
  R4 obj.m(a) / obj->m(a) on foreign methods     -> Class__m(&(obj), a) / Class__m(obj, a)
  R5 template parameter substitution             (per instantiation)
  R6 implicit this: member -> self->member, sibling call m(a) -> Class__m(self, a)
  R7 reference parameters: T &x -> T *x, x -> (*x)
  R8 nullptr -> NULL ; new T[n] -> VERIF_NEW_ARRAY(T, n) ; delete[] p -> VERIF_DELETE_ARRAY(p)
Loop contracts are injected as macro names LOOP_<cname>_<k> after the k-th
loop header.
"""
import hashlib
import re


class ExtractError(Exception):
    pass


# --------------------------------------------------------------------------
# comment / string blanking
# --------------------------------------------------------------------------

def strip_comments(text):
    """Return (nocomment, blank): comments replaced by spaces (newlines kept);
    in `blank` string and char literals are blanked as well."""
    out = list(text)
    blank = list(text)
    i, n = 0, len(text)
    while i < n:
        c = text[i]
        if c == '/' and i + 1 < n and text[i + 1] == '/':
            j = text.find('\n', i)
            if j < 0:
                j = n
            for k in range(i, j):
                out[k] = ' '
                blank[k] = ' '
            i = j
        elif c == '/' and i + 1 < n and text[i + 1] == '*':
            j = text.find('*/', i + 2)
            j = n if j < 0 else j + 2
            for k in range(i, j):
                if text[k] != '\n':
                    out[k] = ' '
                    blank[k] = ' '
            i = j
        elif c == '"' or c == "'":
            q = c
            j = i + 1
            while j < n and text[j] != q:
                if text[j] == '\\':
                    j += 1
                j += 1
            for k in range(i + 1, min(j, n)):
                if text[k] != '\n':
                    blank[k] = ' '
            i = j + 1
        else:
            i += 1
    return ''.join(out), ''.join(blank)


def match_close(blank, pos, open_c, close_c):
    """blank[pos] == open_c ; return index of matching close."""
    assert blank[pos] == open_c, (blank[pos:pos + 20], open_c)
    depth = 0
    i = pos
    n = len(blank)
    while i < n:
        c = blank[i]
        if c == open_c:
            depth += 1
        elif c == close_c:
            depth -= 1
            if depth == 0:
                return i
        i += 1
    raise ExtractError("unbalanced %s at %d" % (open_c, pos))


def line_of(text, pos):
    return text.count('\n', 0, pos) + 1


# --------------------------------------------------------------------------
# tokenizer
# --------------------------------------------------------------------------

TOKEN_RE = re.compile(r'''
    (?P<pp>^[ \t]*\#[^\n]*(?:\\\n[^\n]*)*)      |
    (?P<ws>\s+)                                 |
    (?P<id>[A-Za-z_][A-Za-z_0-9]*)              |
    (?P<num>(?:0[xX][0-9a-fA-F]+|\d+\.?\d*(?:[eE][-+]?\d+)?|\.\d+(?:[eE][-+]?\d+)?)[uUlLfF]*) |
    (?P<str>"(?:[^"\\\n]|\\.)*")                |
    (?P<chr>'(?:[^'\\\n]|\\.)*')                |
    (?P<op>->\*|->|::|<<=|>>=|<<|>>|<=|>=|==|!=|&&|\|\||\+\+|--|\+=|-=|\*=|/=|%=|&=|\|=|\^=|\.\.\.|[-+*/%<>=!&|^~?:;,.(){}\[\]])
''', re.X | re.M)


class Tok:
    __slots__ = ('kind', 'text')

    def __init__(self, kind, text):
        self.kind = kind
        self.text = text

    def __repr__(self):
        return 'Tok(%s,%r)' % (self.kind, self.text)


def tokenize(text):
    toks = []
    pos = 0
    n = len(text)
    while pos < n:
        m = TOKEN_RE.match(text, pos)
        if not m:
            raise ExtractError("cannot tokenize at: %r" % text[pos:pos + 40])
        kind = m.lastgroup
        toks.append(Tok(kind, m.group()))
        pos = m.end()
    return toks


def untokenize(toks):
    return ''.join(t.text for t in toks)


def sig(toks, i, step):
    """index of next significant (non-ws, non-pp) token from i in direction step, or None"""
    i += step
    while 0 <= i < len(toks):
        if toks[i].kind not in ('ws', 'pp'):
            return i
        i += step
    return None


def match_tok(toks, i, open_c, close_c):
    depth = 0
    while i < len(toks):
        t = toks[i].text
        if toks[i].kind == 'op':
            if t == open_c:
                depth += 1
            elif t == close_c:
                depth -= 1
                if depth == 0:
                    return i
        i += 1
    raise ExtractError("unbalanced token %s" % open_c)


def match_tok_back(toks, i, open_c, close_c):
    """toks[i] is close_c; find matching open going backward"""
    depth = 0
    while i >= 0:
        t = toks[i].text
        if toks[i].kind == 'op':
            if t == close_c:
                depth += 1
            elif t == open_c:
                depth -= 1
                if depth == 0:
                    return i
        i -= 1
    raise ExtractError("unbalanced token %s (backward)" % close_c)


def split_args(toks):
    """split a token list on top-level commas; returns list of token lists"""
    args = []
    cur = []
    depth = 0
    for t in toks:
        if t.kind == 'op':
            if t.text in '([{':
                depth += 1
            elif t.text in ')]}':
                depth -= 1
            elif t.text == ',' and depth == 0:
                args.append(cur)
                cur = []
                continue
        cur.append(t)
    if any(t.kind not in ('ws', 'pp') for t in cur) or args:
        args.append(cur)
    return args


# --------------------------------------------------------------------------
# type mapping
# --------------------------------------------------------------------------

SCALARS = {
    'void', 'bool', 'char', 'short', 'int', 'long', 'float', 'double',
    'unsigned', 'signed', 'size_t',
}
DROP_WORDS = {'const', 'inline', 'static', 'virtual', 'mutable', 'constexpr',
              'explicit', 'friend', 'MEDDLY', 'class', 'struct', 'typename',
              'volatile'}


class TypeMap:
    def __init__(self):
        self.typedefs = {}      # name -> C type text (emitted as typedef)
        self.classes = set()    # names usable as 'struct X'
        self.enums = set()      # enum-class names (typedef'd to int-compatible enum)
        self.subst = {}         # template params

    def known_typename(self, name):
        return (name in SCALARS or name in self.typedefs or name in self.enums
                or name in self.subst)

    def map(self, text):
        """text: C++ type text (no declarator name).  Returns (ctype, is_ref)."""
        toks = [t for t in tokenize(text) if t.kind not in ('ws', 'pp')]
        words = []
        ptr = 0
        ref = False
        i = 0
        while i < len(toks):
            t = toks[i]
            if t.kind == 'id':
                if t.text == 'std' and i + 2 < len(toks) and toks[i + 1].text == '::' and toks[i + 2].text == 'size_t':
                    i += 2
                    words.append('size_t')
                    i += 1
                    continue
                if t.text == 'std':
                    # std::vector<T>  -> T*
                    rest = ''.join(x.text for x in toks[i:])
                    m = re.match(r'std::vector<(.+)>(.*)$', rest)
                    if m:
                        inner, _ = self.map(m.group(1))
                        tail = m.group(2)
                        c = inner + '*' + tail.replace('&', '')
                        return c, ('&' in tail)
                    raise ExtractError("unmappable type %r" % text)
                if t.text in DROP_WORDS:
                    i += 1
                    continue
                w = self.subst.get(t.text, t.text)
                words.append(w)
            elif t.text == '::':
                pass
            elif t.text == '*':
                ptr += 1
            elif t.text == '&':
                ref = True
            elif t.text == '<':
                # template instantiation of a known class: drop arguments
                j = i
                depth = 0
                while j < len(toks):
                    if toks[j].text == '<':
                        depth += 1
                    elif toks[j].text == '>':
                        depth -= 1
                        if depth == 0:
                            break
                    j += 1
                i = j
            else:
                raise ExtractError("unmappable type %r (token %r)" % (text, t.text))
            i += 1
        if not words:
            raise ExtractError("empty type %r" % text)
        base = ' '.join(words)
        if all(w in SCALARS for w in base.split()):
            c = base.replace('bool', '_Bool')
        elif len(words) == 1 and (words[0] in self.typedefs or words[0] in self.enums):
            c = words[0]
        elif len(words) == 1 and words[0] in self.classes:
            c = 'struct ' + words[0]
        elif len(words) == 1 and words[0] in ('FILE',):
            c = 'void'
        else:
            raise ExtractError("unmappable type %r (base %r)" % (text, base))
        return c + '*' * ptr, ref


# --------------------------------------------------------------------------
# source file model
# --------------------------------------------------------------------------

class Source:
    cache = {}

    def __init__(self, repo, rel):
        self.rel = rel
        self.path = repo.rstrip('/') + '/' + rel
        with open(self.path, encoding='utf-8', errors='replace') as f:
            self.text = f.read()
        self.nocomment, self.blank = strip_comments(self.text)

    def defined_macros(self):
        return set(re.findall(r'^[ \t]*#[ \t]*define[ \t]+(\w+)', self.nocomment, re.M))

    @classmethod
    def get(cls, repo, rel):
        key = (repo, rel)
        if key not in cls.cache:
            cls.cache[key] = Source(repo, rel)
        return cls.cache[key]

    def class_body(self, cls):
        """(open_brace_pos, close_brace_pos) of class/struct definition"""
        pat = re.compile(r'\b(?:class|struct|union)\s+(?:MEDDLY\s*::\s*)?(?:\w+\s*::\s*)*' + re.escape(cls) + r'\b(?!\s*::)[^;{()]*\{')
        ms = list(pat.finditer(self.blank))
        if not ms:
            raise ExtractError("class %s not found in %s" % (cls, self.rel))
        if len(ms) > 1:
            raise ExtractError("class %s defined %d times in %s" % (cls, len(ms), self.rel))
        o = ms[0].end() - 1
        return o, match_close(self.blank, o, '{', '}')

    def enum_constants(self, name):
        pat = re.compile(r'\benum\s+(?:class\s+)?(?:MEDDLY\s*::\s*)?(?:\w+\s*::\s*)*' + re.escape(name) + r'\b[^;{]*\{')
        ms = list(pat.finditer(self.blank))
        if len(ms) != 1:
            raise ExtractError("enum %s: %d definitions in %s" % (name, len(ms), self.rel))
        o = ms[0].end() - 1
        c = match_close(self.blank, o, '{', '}')
        body = self.blank[o + 1:c]
        consts = []
        for part in body.split(','):
            part = part.strip()
            if not part:
                continue
            m = re.match(r'^(\w+)\s*(?:=\s*(.+))?$', part, re.S)
            if not m:
                raise ExtractError("enum %s: cannot parse %r" % (name, part))
            consts.append((m.group(1), m.group(2)))
        return consts

    def typedef(self, name):
        m = re.search(r'\btypedef\s+([^;]+?)\s+' + re.escape(name) + r'\s*;', self.blank)
        if not m:
            raise ExtractError("typedef %s not found in %s" % (name, self.rel))
        return m.group(1).strip()

    def static_consts(self, names):
        """static const T NAME = value;  -> [(ctype-text, name, value-text)]"""
        out = []
        for nm in names:
            m = re.search(r'\b(?:static\s+)?const\s+([\w\s:]+?)\s+' + re.escape(nm) + r'\s*=\s*([^;]+);', self.blank)
            if not m:
                raise ExtractError("static const %s not found in %s" % (nm, self.rel))
            out.append((m.group(1).strip(), nm, m.group(2).strip()))
        return out

    # -- function location -------------------------------------------------

    def find_function(self, cls, name, sel=None, where='auto', nth=None):
        """Locate a function definition.  Returns dict with positions.
        where: 'class' (inline in class body), 'out' (Class::name), 'free'."""
        blank = self.blank
        cands = []
        esc = re.escape(name)
        if cls and where in ('auto', 'class'):
            try:
                o, c = self.class_body(cls)
            except ExtractError:
                o = c = None
            if o is not None:
                # depth-1 occurrences only
                depth = 0
                i = o
                spans = []
                start = None
                while i <= c:
                    ch = blank[i]
                    if ch == '{':
                        depth += 1
                        if depth == 1:
                            start = i + 1
                        elif depth == 2:
                            spans.append((start, i))
                    elif ch == '}':
                        depth -= 1
                        if depth == 1:
                            start = i + 1
                        elif depth == 0:
                            spans.append((start, i))
                    i += 1
                for (a, b) in spans:
                    for m in re.finditer(r'(?<![\w:~])' + esc + r'\s*\(', blank[a:b]):
                        cands.append(('class', a + m.start(), a + m.end() - 1))
        if cls and where in ('auto', 'out'):
            for m in re.finditer(r'\b' + re.escape(cls) + r'\s*(?:<[^<>;(){}]*>)?\s*::\s*' + esc + r'\s*\(', blank):
                # name start
                ns = blank.rfind(name, m.start(), m.end())
                cands.append(('out', ns, m.end() - 1, m.start()))
        if not cls or where == 'free':
            for m in re.finditer(r'(?<![\w:~.>])' + esc + r'\s*\(', blank):
                cands.append(('free', m.start(), m.end() - 1))
        found = []
        for cand in cands:
            kind, npos, ppos = cand[0], cand[1], cand[2]
            try:
                pclose = match_close(blank, ppos, '(', ')')
            except ExtractError:
                continue
            j = pclose + 1
            is_const = False
            while True:
                m = re.compile(r'\s*(const|override|noexcept|final)\b').match(blank, j)
                if not m:
                    break
                if m.group(1) == 'const':
                    is_const = True
                j = m.end()
            m = re.compile(r'\s*').match(blank, j)
            j = m.end()
            if j >= len(blank) or blank[j] != '{':
                continue
            bclose = match_close(blank, j, '{', '}')
            params = self.nocomment[ppos + 1:pclose]
            # return type: go backwards from start of qualified name
            qstart = cand[3] if kind == 'out' else npos
            k = qstart
            # include leading MEDDLY:: qualifiers
            mm = re.compile(r'(?:\w+\s*::\s*)+$').search(blank, 0, k)
            if mm and kind == 'out':
                k = mm.start()
            p = k - 1
            while p >= 0 and blank[p] not in ';{}':
                # access specifier 'public:' ends a decl too
                if blank[p] == ':' and p > 0 and blank[p - 1] != ':' and (p + 1 >= len(blank) or blank[p + 1] != ':'):
                    break
                if blank[p] == '#':
                    # preprocessor line: stop after end of that line
                    e = blank.find('\n', p)
                    if e < k:
                        p = e
                        break
                p -= 1
            rtext = self.nocomment[p + 1:k]
            tm = re.search(r'\btemplate\s*<([^<>]*(?:<[^<>]*>[^<>]*)*)>\s*', rtext)
            tparams = None
            if tm:
                tparams = tm.group(1)
                rtext = rtext[:tm.start()] + rtext[tm.end():]
            rtext = rtext.strip()
            if kind == 'free' and (not rtext or re.search(r'[=(,]', rtext) or rtext.split()[-1] in ('return', 'else', 'new')):
                continue  # a call, not a definition
            if kind == 'class' and (re.search(r'[=(,]', rtext)):
                continue
            if sel is not None and not re.search(sel, ' '.join(params.split())):
                continue
            found.append(dict(kind=kind, name_pos=npos, params=params, ret=rtext,
                              body_open=j, body_close=bclose, is_const=is_const,
                              tparams=tparams,
                              line=line_of(self.text, npos),
                              end_line=line_of(self.text, bclose)))
        if nth is not None:
            if nth >= len(found):
                raise ExtractError("function %s::%s nth=%d: only %d candidates in %s" % (cls, name, nth, len(found), self.rel))
            return found[nth]
        if len(found) != 1:
            raise ExtractError("function %s::%s sel=%r: %d definitions found in %s (need exactly 1)"
                               % (cls, name, sel, len(found), self.rel))
        return found[0]

    # -- class members -----------------------------------------------------

    def class_members(self, cls, defined=None):
        """Return list of (kind, payload): ('field', type_text, name, array_suffix) or
        ('union', [fields...]).  Only data members at depth 1.  Conditional-compilation
        regions inside the class body are resolved like in function bodies (R8)."""
        o, c = self.class_body(cls)
        if defined is not None and re.search(r'^\s*#\s*(if|ifdef|ifndef)', self.blank[o:c], re.M):
            fires = {}
            resolved = resolve_conditionals(self.nocomment[o:c + 1], defined, 'class ' + cls, fires)
            # same line structure; rebuild a temporary Source-like view
            tmp = Source.__new__(Source)
            tmp.rel = self.rel
            tmp.text = resolved
            tmp.nocomment, tmp.blank = strip_comments(resolved)
            return tmp._members(1, len(resolved) - 1)
        return self._members(o + 1, c)

    def _members(self, a, b):
        blank = self.blank
        res = []
        i = a
        chunk_start = a
        while i < b:
            ch = blank[i]
            if ch == '{':
                e = match_close(blank, i, '{', '}')
                head = blank[chunk_start:i].strip()
                head = re.sub(r'^(?:public|private|protected)\s*:', '', head).strip()
                if re.match(r'^union$', head):
                    res.append(('union', self._members(i + 1, e)))
                    # skip trailing ';'
                    j = e + 1
                    while j < b and blank[j] in ' \t\n':
                        j += 1
                    if j < b and blank[j] == ';':
                        j += 1
                    i = j
                    chunk_start = i
                    continue
                # function body / nested class / enum / initializer: skip
                i = e + 1
                # a function definition needs no ';' ; nested types do
                j = i
                while j < b and blank[j] in ' \t\n':
                    j += 1
                if j < b and blank[j] == ';':
                    i = j + 1
                chunk_start = i
                continue
            if ch == ';':
                chunk = self.nocomment[chunk_start:i]
                chunk_b = blank[chunk_start:i]
                chunk_start = i + 1
                i += 1
                txt = chunk.strip()
                # strip access specifiers and preprocessor lines
                txt = re.sub(r'^\s*#[^\n]*$', '', txt, flags=re.M).strip()
                while True:
                    m = re.match(r'^(?:public|private|protected)\s*:(?!:)', txt)
                    if not m:
                        break
                    txt = txt[m.end():].strip()
                if not txt:
                    continue
                if '(' in chunk_b or re.match(r'^(friend|typedef|using|static|template|enum|class|struct)\b', txt):
                    continue
                m = re.match(r'^(.*?)([A-Za-z_]\w*)\s*((?:\[[^\]]*\])*)\s*(?:=.*)?$', txt, re.S)
                if not m:
                    continue
                ttext, name, arr = m.group(1).strip(), m.group(2), m.group(3)
                if ',' in ttext:
                    # "T *a, *b" style: split declarators
                    first = re.match(r'^([\w\s:<>]+?)([\s*&]*\w+\s*(?:\[[^\]]*\])*\s*(?:,|$).*)$', txt, re.S)
                    if not first:
                        continue
                    base = first.group(1).strip()
                    for d in (first.group(2)).split(','):
                        dm = re.match(r'^\s*([*&\s]*)(\w+)\s*((?:\[[^\]]*\])*)\s*$', d)
                        if dm:
                            res.append(('field', base + ' ' + dm.group(1).strip(), dm.group(2), dm.group(3)))
                    continue
                if not ttext:
                    continue
                res.append(('field', ttext, name, arr))
                continue
            i += 1
        return res


# --------------------------------------------------------------------------
# body transformation
# --------------------------------------------------------------------------

class Ctx:
    """Everything the body rewriter needs to know about one function."""

    def __init__(self):
        self.cls = None
        self.members = {}        # name -> is_ref(bool)
        self.methods = {}        # name -> {argc or '*': cname}
        self.static_methods = set()  # cnames that take no self
        self.foreign = {}        # method name -> {receiver-regex or '*': (Class, byref?)}
        self.subst = {}          # template param -> replacement text
        self.refparams = set()
        self.params = set()
        self.locals = set()      # names known to shadow members on purpose
        self.typenames = set()
        self.free_funcs = {}     # name -> cname (free function renames)
        self.has_self = True
        self.fires = {}
        self.keep_scope = set()  # A::b combos to leave (none)
        self.defined = set()     # macros defined for conditional compilation
        self.assign_ctor = {}    # class -> cname of the converting constructor used for 'obj = scalar' (R3d)
        self.conv_objects = {}   # identifier -> class, for objects whose class has conversion operators (R3c)
        self.ref_returning = set()  # cnames of functions returning a C++ reference (calls are wrapped in (*...))

    def fire(self, rule, n=1):
        self.fires[rule] = self.fires.get(rule, 0) + n


def resolve_conditionals(body, defined, cname, fires):
    """R8: evaluate #ifdef/#ifndef/#if 0/#if 1/#else/#endif inside a body the way the
    release build does.  `defined` = set of macros #defined (uncommented) in the source
    file or config; DEBUG_*/TRACE_*/DEVELOPMENT_CODE and others not in `defined` are
    undefined.  Unknown directive forms abort."""
    out = []
    stack = []   # (active_before, this_branch_active, seen_else)
    active = True
    for line in body.split('\n'):
        m = re.match(r'^\s*#\s*(ifdef|ifndef|if|else|endif|elif)\b\s*(.*?)\s*$', line)
        if not m:
            out.append(line if active else '')
            continue
        d, arg = m.group(1), m.group(2)
        fires['R8pp'] = fires.get('R8pp', 0) + 1
        if d in ('ifdef', 'ifndef'):
            if not re.match(r'^\w+$', arg):
                raise ExtractError("%s: unsupported #%s %s" % (cname, d, arg))
            val = (arg in defined)
            if d == 'ifndef':
                val = not val
            stack.append((active, val))
            active = active and val
        elif d == 'if':
            if arg == '0':
                val = False
            elif arg == '1':
                val = True
            else:
                mm = re.match(r'^defined\s*\(?\s*(\w+)\s*\)?$', arg)
                if not mm:
                    raise ExtractError("%s: unsupported #if %s" % (cname, arg))
                val = mm.group(1) in defined
            stack.append((active, val))
            active = active and val
        elif d == 'else':
            if not stack:
                raise ExtractError("%s: #else without #if" % cname)
            before, val = stack[-1]
            stack[-1] = (before, not val)
            active = before and (not val)
        elif d == 'endif':
            if not stack:
                raise ExtractError("%s: #endif without #if" % cname)
            before, _ = stack.pop()
            active = before
        else:
            raise ExtractError("%s: unsupported #%s" % (cname, d))
        out.append('')
    if stack:
        raise ExtractError("%s: unbalanced conditionals in body" % cname)
    return '\n'.join(out)


def rewrite_body(body, ctx, cname):
    body = resolve_conditionals(body, ctx.defined, cname, ctx.fires)
    toks = tokenize(body)

    # ---- R5 template parameter substitution
    if ctx.subst:
        for t in toks:
            if t.kind == 'id' and t.text in ctx.subst:
                t.text = ctx.subst[t.text]
                ctx.fire('R5')
        toks = tokenize(untokenize(toks))

    # ---- R10 function-local 'static const T x = e;' -> 'const T x = e;' (C requires constant
    # initialisers for statics; for const objects with side-effect-free initialisers the
    # meaning is the same)
    for i, t in enumerate(toks):
        if t.kind == 'id' and t.text == 'static':
            n = sig(toks, i, 1)
            if n is not None and toks[n].text == 'const':
                t.text = ''
                ctx.fire('R10')
            else:
                raise ExtractError("%s: function-local static that is not const" % cname)
    toks = tokenize(untokenize(toks))

    # ---- R1 throw
    i = 0
    out = []
    while i < len(toks):
        t = toks[i]
        if t.kind == 'id' and t.text == 'throw':
            # throw error ( error :: X , __FILE__ , __LINE__ ) ;
            j = sig(toks, i, 1)
            ok = False
            if j is not None and toks[j].text == 'error':
                k = sig(toks, j, 1)
                if k is not None and toks[k].text == '(':
                    e = match_tok(toks, k, '(', ')')
                    inner = [x for x in toks[k + 1:e] if x.kind not in ('ws', 'pp')]
                    txt = ''.join(x.text for x in inner)
                    m = re.match(r'^error::(\w+),(?:__FILE__,__LINE__|\w+,\w+)$', txt)
                    s = sig(toks, e, 1)
                    if m and s is not None and toks[s].text == ';':
                        out.append(Tok('id', 'VERIF_THROW(ERR_%s)' % m.group(1)))
                        ctx.fire('R1')
                        i = s  # keep the ';'
                        ok = True
            if not ok:
                raise ExtractError("%s: unsupported throw form" % cname)
            continue
        out.append(t)
        i += 1
    toks = out

    # ---- R8a new / delete
    out = []
    i = 0
    while i < len(toks):
        t = toks[i]
        if t.kind == 'id' and t.text == 'new':
            # new T [ n ]
            j = sig(toks, i, 1)
            tyw = []
            while j is not None and (toks[j].kind == 'id' or (toks[j].text == '*' and tyw)):
                tyw.append(toks[j].text)     # new T[n], new T*[n]
                j = sig(toks, j, 1)
            if j is not None and toks[j].text == '[' and tyw:
                e = match_tok(toks, j, '[', ']')
                out.append(Tok('id', 'VERIF_NEW_ARRAY(%s, %s)' % (' '.join(tyw), untokenize(toks[j + 1:e]))))
                ctx.fire('R8new')
                i = e + 1
                continue
            raise ExtractError("%s: unsupported new-expression" % cname)
        if t.kind == 'id' and t.text == 'delete':
            j = sig(toks, i, 1)
            if j is not None and toks[j].text == '[':
                k = sig(toks, j, 1)
                if toks[k].text == ']':
                    # delete[] expr ;
                    s = k + 1
                    e = s
                    while toks[e].text != ';':
                        e += 1
                    out.append(Tok('id', 'VERIF_DELETE_ARRAY(%s)' % untokenize(toks[s:e]).strip()))
                    ctx.fire('R8delete')
                    i = e
                    continue
            raise ExtractError("%s: unsupported delete-expression" % cname)
        if t.kind == 'id' and t.text == 'nullptr':
            t.text = 'NULL'
            ctx.fire('R8nullptr')
        out.append(t)
        i += 1
    toks = out

    # ---- R3a static_cast<T>(e) / reinterpret_cast / const_cast
    changed = True
    while changed:
        changed = False
        for i, t in enumerate(toks):
            if t.kind == 'id' and t.text in ('static_cast', 'reinterpret_cast', 'const_cast', 'smart_cast'):
                j = sig(toks, i, 1)
                if toks[j].text != '<':
                    raise ExtractError("%s: bad cast" % cname)
                # find matching '>'
                k = j
                depth = 0
                while True:
                    if toks[k].text == '<':
                        depth += 1
                    elif toks[k].text == '>':
                        depth -= 1
                        if depth == 0:
                            break
                    k += 1
                ttext = untokenize(toks[j + 1:k]).strip()
                p = sig(toks, k, 1)
                if toks[p].text != '(':
                    raise ExtractError("%s: bad cast (no paren)" % cname)
                e = match_tok(toks, p, '(', ')')
                ctype = ctx.tm.map(ttext)[0]
                new = [Tok('op', '('), Tok('op', '('), Tok('id', ctype), Tok('op', ')')] + toks[p:e + 1] + [Tok('op', ')')]
                toks = toks[:i] + new + toks[e + 1:]
                ctx.fire('R3')
                changed = True
                break

    # ---- R2 scope operator
    out = []
    i = 0
    while i < len(toks):
        t = toks[i]
        if t.kind == 'op' and t.text == '::':
            # find previous significant in out
            p = len(out) - 1
            while p >= 0 and out[p].kind in ('ws', 'pp'):
                p -= 1
            n = sig(toks, i, 1)
            if p >= 0 and out[p].kind == 'id' and n is not None and toks[n].kind == 'id':
                left = out[p].text
                del out[p + 1:]
                if left in ('MEDDLY',):
                    out[p] = Tok('id', toks[n].text)
                elif left == 'std' and toks[n].text == 'size_t':
                    out[p] = Tok('id', 'size_t')
                elif left == 'std':
                    raise ExtractError("%s: std::%s in body" % (cname, toks[n].text))
                else:
                    out[p] = Tok('id', left + '__' + toks[n].text)
                ctx.fire('R2')
                i = n + 1
                continue
            raise ExtractError("%s: unsupported '::' use" % cname)
        out.append(t)
        i += 1
    toks = out

    # ---- R3b functional casts T(e)
    typenames = set(ctx.typenames) | SCALARS
    i = 0
    while i < len(toks):
        t = toks[i]
        if t.kind == 'id' and t.text in typenames:
            n = sig(toks, i, 1)
            p = sig(toks, i, -1)
            prev = toks[p].text if p is not None else ''
            prev_is_typeword = p is not None and toks[p].kind == 'id' and (toks[p].text in typenames or toks[p].text in ('const', 'struct', 'union', 'enum'))
            if n is not None and toks[n].text == '(' and not prev_is_typeword and prev not in ('.', '->', 'sizeof'):
                # exclude C-style "(T)(x)" : prev == '(' and token after T is ')' -- not this branch since next is '('
                e = match_tok(toks, n, '(', ')')
                inner_sig = [x for x in toks[n + 1:e] if x.kind not in ('ws', 'pp')]
                if len(inner_sig) == 4 and [x.text for x in inner_sig[:2]] == ['(', '*'] and inner_sig[3].text == ')' and inner_sig[2].text in ctx.conv_objects:
                    inner_sig = [inner_sig[2]]       # a local reference already rewritten to (*name) (R7local)
                    deref_local = True
                else:
                    deref_local = False
                if len(inner_sig) == 1 and inner_sig[0].kind == 'id' and inner_sig[0].text in ctx.conv_objects:
                    # R3c: T(obj) on an object of a class with conversion operators -> Class__to_T(&obj)
                    cls_ = ctx.conv_objects[inner_sig[0].text]
                    ctype_ = ctx.tm.map(t.text)[0]
                    new = [Tok('id', '%s__to_%s' % (cls_, re.sub(r'\W+', '_', ctype_))), Tok('op', '('), Tok('op', '&'), Tok('op', '(')] + ([Tok('op', '*')] if deref_local else []) + [inner_sig[0], Tok('op', ')'), Tok('op', ')')]
                    toks = toks[:i] + new + toks[e + 1:]
                    ctx.fire('R3c')
                    i += len(new)
                    continue
                ctype = ctx.tm.map(t.text)[0]
                new = [Tok('op', '('), Tok('op', '('), Tok('id', ctype), Tok('op', ')')] + toks[n:e + 1] + [Tok('op', ')')]
                toks = toks[:i] + new + toks[e + 1:]
                ctx.fire('R3')
                i += 4
                continue
        i += 1

    # ---- R3d: 'obj = expr;' on an object of a class with converting constructors -> Class ctor call
    if ctx.conv_objects and ctx.assign_ctor:
        i = 0
        while i < len(toks):
            t = toks[i]
            if t.kind == 'id' and t.text in ctx.conv_objects:
                p = sig(toks, i, -1)
                n = sig(toks, i, 1)
                prevt = toks[p].text if p is not None else '{'
                if n is not None and toks[n].text == '=' and prevt in (';', '{', '}', ')', 'else'):
                    e = n + 1
                    depth = 0
                    while e < len(toks) and not (toks[e].text == ';' and depth == 0):
                        if toks[e].text in '([{':
                            depth += 1
                        elif toks[e].text in ')]}':
                            depth -= 1
                        e += 1
                    rhs = [x for x in toks[n + 1:e] if x.kind not in ('ws', 'pp')]
                    cls_ = ctx.conv_objects[t.text]
                    if len(rhs) == 1 and rhs[0].kind == 'id' and rhs[0].text in ctx.conv_objects:
                        i = e
                        continue       # object-to-object copy: plain struct assignment
                    rtxt = untokenize(toks[n + 1:e]).strip()
                    m_ = re.match(r'^' + re.escape(cls_) + r'\s*\((.*)\)$', rtxt, re.S)
                    if m_:
                        rtxt = m_.group(1)
                    ctor = ctx.assign_ctor.get(cls_)
                    if not ctor:
                        raise ExtractError("%s: assignment of a scalar to %s object %s needs assign_ctor" % (cname, cls_, t.text))
                    new = tokenize('%s(&(%s), %s)' % (ctor, t.text, rtxt))
                    toks = toks[:i] + new + toks[e:]
                    ctx.fire('R3d')
                    i += len(new)
                    continue
            i += 1

    # ---- R4 foreign method calls  recv.m(args) / recv->m(args)
    if ctx.foreign:
        changed = True
        guard = 0
        while changed:
            changed = False
            guard += 1
            if guard > 2000:
                raise ExtractError("%s: R4 did not converge" % cname)
            for i, t in enumerate(toks):
                if t.kind == 'id' and t.text in ctx.foreign:
                    p = sig(toks, i, -1)
                    n = sig(toks, i, 1)
                    if p is None or n is None or toks[n].text != '(' or toks[p].text not in ('.', '->'):
                        continue
                    arrow = toks[p].text == '->'
                    # receiver: maximal postfix expression going backward
                    r_end = p  # exclusive
                    r = sig(toks, p, -1)
                    r_start = None
                    while r is not None:
                        tt = toks[r]
                        if tt.kind == 'id' or tt.kind == 'num':
                            r_start = r
                            q = sig(toks, r, -1)
                            if q is not None and toks[q].text in ('.', '->'):
                                r = sig(toks, q, -1)
                                continue
                            break
                        if tt.text == ']':
                            r = match_tok_back(toks, r, '[', ']')
                            r_start = r
                            r = sig(toks, r, -1)
                            continue
                        if tt.text == ')':
                            o = match_tok_back(toks, r, '(', ')')
                            r_start = o
                            q = sig(toks, o, -1)
                            if q is not None and toks[q].kind == 'id' and toks[q].text not in ('if', 'while', 'for', 'return', 'switch'):
                                r = q
                                continue
                            break
                        break
                    if r_start is None:
                        raise ExtractError("%s: cannot find receiver of .%s()" % (cname, t.text))
                    recv = untokenize(toks[r_start:r_end]).strip()
                    table = ctx.foreign[t.text]
                    target = None
                    for pat, val in table.items():
                        if pat != '*' and re.search(pat, recv):
                            target = val
                            break
                    if target is None:
                        target = table.get('*')
                    if target is None:
                        raise ExtractError("%s: no foreign class for %s.%s()" % (cname, recv, t.text))
                    e = match_tok(toks, n, '(', ')')
                    args = untokenize(toks[n + 1:e])
                    has_args = args.strip() != ''
                    argc = len(split_args(toks[n + 1:e]))
                    fname = target if isinstance(target, str) and '__' in target else '%s__%s' % (target, t.text)
                    if isinstance(target, dict):
                        fname = None
                        for k_, v_ in target.items():
                            if isinstance(k_, str) and k_.startswith('args:') and re.search(k_[5:], ' '.join(args.split())):
                                fname = v_
                                break
                        if fname is None:
                            fname = target.get(argc) or target.get('*')
                        if fname is None:
                            raise ExtractError("%s: no overload of %s with %d args (%s)" % (cname, t.text, argc, args))
                    rtxt = recv if arrow else '&(%s)' % recv
                    new = [Tok('id', fname), Tok('op', '('), Tok('id', rtxt)]
                    if has_args:
                        new.append(Tok('op', ','))
                        new.append(Tok('ws', ' '))
                    new += toks[n + 1:e + 1]
                    if fname in ctx.ref_returning:
                        new = [Tok('op', '('), Tok('op', '*')] + new + [Tok('op', ')')]
                    toks = toks[:r_start] + new + toks[e + 1:]
                    toks = tokenize(untokenize(toks))
                    ctx.fire('R4')
                    changed = True
                    break

    # ---- R7local: local references  'T &x = e;'  ->  'T *x = &(e);'  and x -> (*x) afterwards
    local_refs = set()
    i = 0
    while i < len(toks):
        t = toks[i]
        if t.kind == 'op' and t.text == '&':
            p = sig(toks, i, -1)
            n = sig(toks, i, 1)
            if (p is not None and n is not None and toks[p].kind == 'id' and toks[n].kind == 'id'
                    and (toks[p].text in typenames or toks[p].text in ctx.tm.classes)):
                n2 = sig(toks, n, 1)
                if n2 is not None and toks[n2].text == '=':
                    # find end of initialiser
                    e = n2 + 1
                    depth = 0
                    while e < len(toks) and not (toks[e].text == ';' and depth == 0):
                        if toks[e].text in '([{':
                            depth += 1
                        elif toks[e].text in ')]}':
                            depth -= 1
                        e += 1
                    init = untokenize(toks[n2 + 1:e]).strip()
                    name = toks[n].text
                    t.text = '*'
                    toks[n].text = 'VERIF_LOCALREF_' + name
                    new_init = tokenize(' &(' + init + ')')
                    toks = toks[:n2 + 1] + new_init + toks[e:]
                    local_refs.add(name)
                    ctx.fire('R7local')
        i += 1

    # ---- R6/R7 members, sibling calls, reference params
    shadow = set(ctx.params) | set(ctx.locals)
    # detect undeclared shadowing: "<typename> [*&]* name" where name is a member
    for i, t in enumerate(toks):
        if t.kind == 'id' and t.text in ctx.members and t.text not in shadow:
            p = sig(toks, i, -1)
            while p is not None and toks[p].text in ('*', '&'):
                p = sig(toks, p, -1)
            if p is not None and toks[p].kind == 'id' and (toks[p].text in typenames or toks[p].text in ctx.tm.classes) :
                q = sig(toks, p, -1)
                if q is None or toks[q].text not in ('(',):  # not a cast "(T) member"
                    raise ExtractError("%s: local '%s' shadows a member; list it in locals" % (cname, t.text))
    out = []
    i = 0
    while i < len(toks):
        t = toks[i]
        if t.kind == 'id':
            p = len(out) - 1
            while p >= 0 and out[p].kind in ('ws', 'pp'):
                p -= 1
            prev = out[p].text if p >= 0 else ''
            n = sig(toks, i, 1)
            nxt = toks[n].text if n is not None else ''
            if prev not in ('.', '->'):
                if t.text in ctx.methods and nxt == '(' and t.text not in shadow:
                    e = match_tok(toks, n, '(', ')')
                    argc = len(split_args(toks[n + 1:e]))
                    table = ctx.methods[t.text]
                    fname = None
                    atxt_ = ' '.join(untokenize(toks[n + 1:e]).split())
                    for k_, v_ in table.items():
                        if isinstance(k_, str) and k_.startswith('args:') and re.search(k_[5:], atxt_):
                            fname = v_
                            break
                    if fname is None:
                        fname = table.get(argc) or table.get('*')
                    if fname is None:
                        raise ExtractError("%s: no overload of %s with %d args" % (cname, t.text, argc))
                    if fname in ctx.ref_returning:
                        # (*f(self, args)) : insert "(*" here and a ")" after the matching close paren
                        toks.insert(e + 1, Tok('op', ')'))
                        out.append(Tok('op', '('))
                        out.append(Tok('op', '*'))
                    out.append(Tok('id', fname))
                    out.append(Tok('op', '('))
                    if fname not in ctx.static_methods:
                        if not ctx.has_self:
                            raise ExtractError("%s: static function calls non-static %s" % (cname, t.text))
                        out.append(Tok('id', 'self'))
                        if argc:
                            out.append(Tok('op', ','))
                            out.append(Tok('ws', ' '))
                    ctx.fire('R6call')
                    i = n + 1
                    continue
                if t.text in ctx.free_funcs and nxt == '(' and t.text not in shadow:
                    out.append(Tok('id', ctx.free_funcs[t.text]))
                    ctx.fire('R6free')
                    i += 1
                    continue
                if t.text in ctx.members and t.text not in shadow:
                    if not ctx.has_self:
                        raise ExtractError("%s: static function uses member %s" % (cname, t.text))
                    if ctx.members[t.text]:
                        out.append(Tok('id', '(*self->%s)' % t.text))
                    else:
                        out.append(Tok('id', 'self->%s' % t.text))
                    ctx.fire('R6member')
                    i += 1
                    continue
                if t.text in ctx.refparams or t.text in local_refs:
                    out.append(Tok('id', '(*%s)' % t.text))
                    ctx.fire('R7')
                    i += 1
                    continue
                if t.text.startswith('VERIF_LOCALREF_'):
                    out.append(Tok('id', t.text[len('VERIF_LOCALREF_'):]))
                    i += 1
                    continue
                if t.text == 'this':
                    out.append(Tok('id', 'self'))
                    i += 1
                    continue
        out.append(t)
        i += 1
    toks = out

    # ---- loops: inject LOOP_<cname>_<k> after k-th loop header
    toks = tokenize(untokenize(toks))
    out = []
    i = 0
    k = 0
    pending_do = []
    while i < len(toks):
        t = toks[i]
        if t.kind == 'id' and t.text in ('for', 'while'):
            n = sig(toks, i, 1)
            if n is None or toks[n].text != '(':
                raise ExtractError("%s: loop without '('" % cname)
            e = match_tok(toks, n, '(', ')')
            s = sig(toks, e, 1)
            is_do_tail = (t.text == 'while' and s is not None and toks[s].text == ';' and pending_do and pending_do[-1] == 'open')
            out += toks[i:e + 1]
            if is_do_tail:
                kk = pending_do.pop()
                # contract for do-while goes here
                k += 1
                out.append(Tok('ws', ' '))
                out.append(Tok('id', 'LOOP_%s_%d' % (cname, k)))
            else:
                k += 1
                out.append(Tok('ws', ' '))
                out.append(Tok('id', 'LOOP_%s_%d' % (cname, k)))
                out.append(Tok('ws', ' '))
            i = e + 1
            continue
        if t.kind == 'id' and t.text == 'do':
            raise ExtractError("%s: do-while loops are not supported" % cname)
        out.append(t)
        i += 1
    return untokenize(out), k


# --------------------------------------------------------------------------
# parameter parsing
# --------------------------------------------------------------------------

def parse_params(ptext, tm):
    """-> list of (ctype, name, is_ref)"""
    ptext = ptext.strip()
    if not ptext or ptext == 'void':
        return []
    toks = tokenize(ptext)
    res = []
    for arg in split_args(toks):
        # split on template-aware commas is not needed (no templates in params we support)
        atoks = [t for t in arg if t.kind not in ('ws', 'pp')]
        # strip default value
        for idx, t in enumerate(atoks):
            if t.text == '=':
                atoks = atoks[:idx]
                break
        arr = ''
        if atoks and atoks[-1].text == ']':
            o = len(atoks) - 1
            while atoks[o].text != '[':
                o -= 1
            arr = '*'
            atoks = atoks[:o]
        if not atoks or atoks[-1].kind != 'id':
            raise ExtractError("cannot parse parameter %r" % untokenize(arg))
        name = atoks[-1].text
        ttext = ' '.join(t.text for t in atoks[:-1])
        if not ttext:
            raise ExtractError("unnamed parameter %r" % untokenize(arg))
        ctype, ref = tm.map(ttext)
        is_const = 'const' in [t.text for t in atoks[:-1]]
        if ref and is_const and not ctype.startswith('struct ') and not ctype.endswith('*'):
            ref = False    # const scalar reference: pass by value (same meaning, callers may pass rvalues)
        res.append((ctype + arr, name, ref, is_const))
    return res


def sha(s):
    return hashlib.sha256(s.encode()).hexdigest()[:16]
