#!/usr/bin/env python3
"""Run proof jobs (extract -> goto-cc -> goto-instrument --dfcc -> cbmc), classify
obligations, replay counterexamples natively, write evidence.  DESIGN.md section 3."""
import concurrent.futures
import json
import os
import re
import resource
import shutil
import subprocess
import sys
import time

from .extract import ExtractError, Source
from .unit import load_unit, build_unit, VERIF

BUILD = os.path.join(VERIF, 'build')
INCLUDE = os.path.join(VERIF, 'include')
MEM_LIMIT = 12 * 1024 * 1024 * 1024

DEFAULT_FLAGS = ['--no-standard-checks', '--bounds-check', '--pointer-check',
                 '--div-by-zero-check',
                 '--malloc-may-fail', '--malloc-fail-null', '--unwinding-assertions']


def _limits():
    resource.setrlimit(resource.RLIMIT_AS, (MEM_LIMIT, MEM_LIMIT))


def run(cmd, timeout, cwd=None):
    t0 = time.time()
    try:
        p = subprocess.run(cmd, stdout=subprocess.PIPE, stderr=subprocess.PIPE,
                           timeout=timeout, cwd=cwd, preexec_fn=_limits)
        return p.returncode, p.stdout.decode(errors='replace'), p.stderr.decode(errors='replace'), time.time() - t0
    except subprocess.TimeoutExpired as e:
        return -9, (e.stdout or b'').decode(errors='replace'), 'TIMEOUT', time.time() - t0


class JobResult:
    def __init__(self, unit, job):
        self.unit = unit
        self.job = job
        self.status = 'undecided'    # discharged | failed | undecided
        self.reason = ''
        self.obligations = []        # dicts: id, class, desc, status, name, file, line
        self.failed = []
        self.canary_ok = False
        self.solver_s = 0.0
        self.wall_s = 0.0
        self.cmds = []
        self.backend = 'SAT'
        self.trace_inputs = {}       # obligation id -> {var: value}
        self.raw_fail_output = {}    # obligation id -> text
        self.bounded = job.get('kind') == 'bounded'


_line_cache = {}


def _src_line(path, line):
    if path not in _line_cache:
        try:
            with open(path, errors='replace') as f:
                _line_cache[path] = f.read().split('\n')
        except OSError:
            _line_cache[path] = []
    lines = _line_cache[path]
    if 1 <= line <= len(lines):
        return lines[line - 1]
    return ''


def name_obligation(ob, cwd):
    loc = ob.get('sourceLocation', {})
    f = loc.get('file', '')
    if f and not os.path.isabs(f):
        f = os.path.join(loc.get('workingDirectory', cwd), f)
    try:
        ln = int(loc.get('line', '0'))
    except ValueError:
        ln = 0
    text = _src_line(f, ln) if f else ''
    name = None
    m = re.search(r'\b(?:ENSURES|REQUIRES)\(\s*(\w+)', text)
    if m and loc.get('propertyClass', ob.get('propertyClass', '')) in ('postcondition', 'precondition'):
        name = m.group(1)
    d = ob.get('description', '')
    m2 = re.match(r'lemma (\w+)', d)
    if m2:
        name = m2.group(1)
    m3 = re.match(r'bounded: (.+)$', d)
    if m3:
        name = 'bounded_' + re.sub(r'\W+', '_', m3.group(1)).strip('_')
    return name, f, ln, text.strip()


def parse_cbmc_json(out):
    """returns (results list or None, messages, cprover_status)"""
    try:
        data = json.loads(out)
    except json.JSONDecodeError:
        # truncated output (timeout): try to salvage
        return None, [out[-2000:]], None
    results = None
    status = None
    msgs = []
    for item in data:
        if 'result' in item:
            results = item['result']
        if 'cProverStatus' in item:
            status = item['cProverStatus']
        if item.get('messageType') in ('ERROR', 'WARNING'):
            msgs.append(item.get('messageText', ''))
    return results, msgs, status


def extract_inputs(trace, entry):
    """witness values: assignments made inside the harness entry function (names
    w_* or any local of the harness), last value wins."""
    vals = {}
    for st in trace or []:
        if st.get('stepType') != 'assignment':
            continue
        loc = st.get('sourceLocation', {})
        if loc.get('function') != entry:
            continue
        lhs = st.get('lhs', '')
        v = st.get('value', {})
        if 'data' in v:
            vals[lhs] = v['data']
            if 'binary' in v:
                vals[lhs + '#bin'] = v['binary']
    return vals


def run_job(unit, job, cpath, outdir, tier, extra_defines=()):
    res = JobResult(unit['name'], job)
    t0 = time.time()
    entry = job['entry']
    jname = job['name']
    a_gb = os.path.join(outdir, jname + '.a.gb')
    b_gb = os.path.join(outdir, jname + '.b.gb')
    timeout = job.get('timeout', 900 if tier == 'quick' else 3600)
    if os.environ.get('VERIF_JOB_TIMEOUT'):
        timeout = int(os.environ['VERIF_JOB_TIMEOUT'])
    defines = list(unit.get('defines', [])) + list(job.get('defines', [])) + list(extra_defines)
    # witness clauses (replay support): WITNESS(fn, cond) in spec.h is a requires clause of
    # fn only in the job that enforces fn; elsewhere it expands to nothing.
    wit_h = os.path.join(outdir, jname + '.wit.h')
    names = set()
    udir = os.path.join(VERIF, 'units')
    for root_, _, files_ in os.walk(udir):
        for fn_ in files_:
            if fn_.endswith('.h'):
                names |= set(re.findall(r'\b\w*WITNESS\(\s*(\w+)', open(os.path.join(root_, fn_)).read()))
    names.discard('fn')
    with open(wit_h, 'w') as fo:
        for n_ in sorted(names):
            if n_ == job.get('enforce'):
                fo.write('#define WIT_%s(...) __CPROVER_requires(__VA_ARGS__)\n' % n_)
            else:
                fo.write('#define WIT_%s(...)\n' % n_)
    cc = ['goto-cc', '-I' + INCLUDE, '-I' + unit['dir'], '-include', wit_h] + ['-D' + d for d in defines] + ['--function', entry, cpath, '-o', a_gb]
    rc, out, err, _ = run(cc, 300)
    res.cmds.append(' '.join(cc))
    if rc != 0:
        res.reason = 'goto-cc failed: ' + (err.strip().split('\n')[-1] if err.strip() else out[-300:])
        res.detail = (out + err)[-4000:]
        res.wall_s = time.time() - t0
        return res
    if job.get('plain'):
        # bounded stand-in: plain cbmc on the harness, no contract instrumentation; loops are unwound
        shutil.copy(a_gb, b_gb)
        res.cmds.append('(no goto-instrument: plain bounded harness)')
    else:
        gi = ['goto-instrument', '--dfcc', entry]
        if job.get('enforce'):
            # recursive functions: recursive calls are assumed to satisfy the contract being enforced
            gi += ['--enforce-contract-rec' if job.get('recursive') else '--enforce-contract', job['enforce']]
        # a replace target the code under test does not call (any more) is not in the binary; goto-instrument aborts on it
        _rc, _st, _, _ = run(['goto-instrument', '--show-symbol-table', a_gb], 120)
        present = set(re.findall(r'^Symbol\.+: (\S+)$', _st, re.M))
        for r in job.get('replace', []):
            if r in present:
                gi += ['--replace-call-with-contract', r]
            else:
                res.cmds.append('(replace target %s is not called by the code under test: skipped)' % r)
        if job.get('loop_contracts', True):
            gi += ['--apply-loop-contracts']
        gi += [a_gb, b_gb]
        rc, out, err, _ = run(gi, 600)
        res.cmds.append(' '.join(gi))
        if rc != 0:
            res.reason = 'goto-instrument failed: ' + ((out + err).strip().split('\n')[-1])[:400]
            res.detail = (out + err)[-4000:]
            res.wall_s = time.time() - t0
            return res
    flags = list(job.get('flags', unit.get('flags', DEFAULT_FLAGS)))
    flags += job.get('extra_flags', [])
    if job.get('unwind') and not isinstance(job['unwind'], str):
        uw = job['unwind'][tier] if isinstance(job['unwind'], dict) else job['unwind']
        flags += ['--unwind', str(uw)]
    for us in job.get('unwindset', []):
        flags += ['--unwindset', us]
    if job.get('object_bits'):
        flags += ['--object-bits', str(job['object_bits'])]
    solver = job.get('solver', unit.get('solver', ['--sat-solver', 'cadical']))
    cb = ['cbmc', b_gb] + flags + solver + ['--json-ui']
    res.cmds.append(' '.join(cb))
    res.backend = 'cbmc ' + (' '.join(solver) if solver else '(default MiniSat2)')
    rc, out, err, dt = run(cb, timeout)
    res.solver_s = dt
    if rc == -9:
        res.reason = 'cbmc timeout after %ds' % timeout
        res.wall_s = time.time() - t0
        return res
    results, msgs, status = parse_cbmc_json(out)
    if rc not in (0, 10):
        # cbmc exits 0 (all proved) or 10 (some obligation failed); anything else is an abort (memory limit, internal error): undecided, never a verdict
        res.reason = 'cbmc aborted (rc=%d; memory limit or internal error): %s' % (rc, ' | '.join(m[:200] for m in (msgs or [])[-2:]))
        res.wall_s = time.time() - t0
        return res
    if results is None:
        res.reason = 'cbmc produced no result (rc=%d): %s' % (rc, ' | '.join(m[:300] for m in msgs[-3:]))
        res.wall_s = time.time() - t0
        return res
    ignoring = [m for m in msgs if 'ignoring' in m]
    canary_seen = False
    for ob in results:
        name, f, ln, text = name_obligation(ob, outdir)
        rec = {
            'id': ob.get('property'), 'class': ob.get('sourceLocation', {}).get('propertyClass', ob.get('propertyClass', '')),
            'desc': ob.get('description', ''), 'status': ob.get('status'),
            'name': name, 'file': f, 'line': ln,
        }
        if rec['desc'].startswith('canary'):
            canary_seen = True
            if ob.get('status') != 'FAILURE':
                res.reason = 'canary did not fail (%s): precondition unsatisfiable or harness end unreachable' % rec['id']
                res.canary_ok = False
                res.obligations.append(rec)
                res.status = 'undecided'
                res.wall_s = time.time() - t0
                # keep going to collect, but mark
                res._canary_bad = True
            continue
        res.obligations.append(rec)
        if ob.get('status') == 'FAILURE':
            res.failed.append(rec)
        elif ob.get('status') != 'SUCCESS':
            # UNKNOWN/ERROR: only decisive when nothing failed (after a failed invariant step the
            # remaining obligations of that path are reported UNKNOWN)
            res._nonsuccess = 'obligation %s has status %s' % (rec['id'], ob.get('status'))
    if getattr(res, '_canary_bad', False):
        return res
    if not canary_seen:
        res.reason = 'no canary obligation in job'
        res.wall_s = time.time() - t0
        return res
    res.canary_ok = True
    if ignoring:
        res.reason = 'solver ignored a construct: ' + ignoring[0][:200]
        res.wall_s = time.time() - t0
        return res
    # structural vacuity guards
    n_post = sum(1 for o in res.obligations if o['class'] == 'postcondition')
    want_post = job.get('min_postconditions')
    if job.get('enforce') and n_post == 0 and not job.get('plain'):
        res.reason = 'no postcondition obligations generated for %s' % job['enforce']
        res.wall_s = time.time() - t0
        return res
    want_loops = job.get('loops')
    if want_loops is not None:
        n_step = sum(1 for o in res.obligations if 'loop_invariant_step' in (o['id'] or '') or o['class'] == 'loop_invariant_step')
        if n_step < want_loops:
            res.reason = 'expected %d loop_invariant_step obligations, found %d (loop contract dropped?)' % (want_loops, n_step)
            res.wall_s = time.time() - t0
            return res
    if not res.failed and getattr(res, '_nonsuccess', None):
        res.reason = res._nonsuccess
    if res.reason:
        res.wall_s = time.time() - t0
        return res
    if not res.obligations:
        res.reason = 'zero obligations'
        res.wall_s = time.time() - t0
        return res
    if res.failed:
        res.status = 'failed'
        # second pass with traces for the failed obligations
        for rec in res.failed[:6]:
            cbt = ['cbmc', b_gb] + flags + solver + ['--property', rec['id'], '--trace', '--json-ui']
            rc2, out2, err2, _ = run(cbt, timeout)
            if rc2 == -9:
                continue
            try:
                data = json.loads(out2)
            except json.JSONDecodeError:
                continue
            for item in data:
                for r in item.get('result', []) if isinstance(item, dict) else []:
                    if r.get('property') == rec['id'] and r.get('status') == 'FAILURE':
                        res.trace_inputs[rec['id']] = extract_inputs(r.get('trace'), entry)
                        # compact textual trace tail for the replay file
                        steps = []
                        for st in (r.get('trace') or [])[-60:]:
                            if st.get('stepType') == 'assignment' and not st.get('hidden'):
                                steps.append('%s = %s  @%s:%s' % (st.get('lhs'), st.get('value', {}).get('data'),
                                                                  st.get('sourceLocation', {}).get('function'), st.get('sourceLocation', {}).get('line')))
                            elif st.get('stepType') == 'failure':
                                steps.append('FAILURE: %s' % st.get('reason'))
                        res.raw_fail_output[rec['id']] = steps
    else:
        res.status = 'discharged'
        first_s = time.time() - t0
        if tier == 'thorough' and not job.get('no_second_backend') and first_s > 300:
            res.second_backend = 'skipped (first back end needed %.0f s)' % first_s
        elif tier == 'thorough' and not job.get('no_second_backend'):
            # second back end: every discharged job is re-checked with the other SAT solver; disagreement = undecided
            alt = [] if solver else ['--sat-solver', 'cadical']
            if solver and solver[:2] == ['--sat-solver', 'cadical']:
                alt = ['--sat-solver', 'minisat2']
            if solver and solver[0] in ('--z3', '--cvc5'):
                alt = None
            if alt is not None:
                cb2 = ['cbmc', b_gb] + flags + alt + ['--json-ui']
                rc2, out2, err2, dt2 = run(cb2, min(timeout, max(120, int(4 * first_s))))     # the re-check may not dominate the run
                res.cmds.append(' '.join(cb2))
                if rc2 == -9:
                    res.second_backend = 'timeout (%s)' % ' '.join(alt)
                else:
                    r2, m2, st2 = parse_cbmc_json(out2)
                    bad2 = [o for o in (r2 or []) if o.get('status') != 'SUCCESS' and not o.get('description', '').startswith('canary')]
                    if r2 is None or bad2:
                        res.status = 'undecided'
                        res.reason = 'back ends disagree: %s reports %s' % (' '.join(alt), (bad2[0].get('property') if bad2 else 'no result'))
                    else:
                        res.second_backend = 'agrees (%s, %.1fs)' % (' '.join(alt), dt2)
                        res.backend += ' + ' + ' '.join(alt)
    res.wall_s = time.time() - t0
    return res


# --------------------------------------------------------------------------
# native replay
# --------------------------------------------------------------------------

def build_replay(unit, repo, outdir):
    """compile units/<u>/replay.cc against the current tree; returns path or None"""
    src = os.path.join(unit['dir'], 'replay.cc')
    if not os.path.exists(src):
        return None, 'no replay driver for unit'
    exe = os.path.join(outdir, 'replay')
    extra = [os.path.join(repo, s) for s in unit.get('replay_sources', [])]
    if unit.get('replay_full_library'):
        # drivers that go through the public API need the whole library, compiled from the tree under test
        objdir = os.path.join(outdir, 'libobj')
        os.makedirs(objdir, exist_ok=True)
        srcs = []
        try:
            listed_ = open(os.path.join(repo, 'src', 'Makefile.am')).read()       # the library's own source list
        except OSError:
            listed_ = None
        for root_, dirs_, files_ in os.walk(os.path.join(repo, 'src')):
            dirs_[:] = [d for d in dirs_ if not d.startswith('.')]
            for fn_ in files_:
                if fn_.endswith('.cc'):
                    rel_ = os.path.relpath(os.path.join(root_, fn_), os.path.join(repo, 'src'))
                    if listed_ is not None and rel_ not in listed_:
                        continue                                                   # stray programs (src/storage/realtest.cc has its own main)
                    srcs.append(os.path.join(root_, fn_))
        def cc_one(src_):
            obj_ = os.path.join(objdir, re.sub(r'\W+', '_', os.path.relpath(src_, repo)) + '.o')
            rc_, o_, e_, _ = run(['g++', '-std=c++11', '-O0', '-w', '-DHAVE_CONFIG_H', '-I' + repo, '-I' + os.path.join(repo, 'src'), '-c', src_, '-o', obj_], 900)
            return obj_ if rc_ == 0 else None, e_
        with concurrent.futures.ThreadPoolExecutor(max_workers=16) as ex_:
            res_ = list(ex_.map(cc_one, srcs))
        bad_ = [e_ for o_, e_ in res_ if o_ is None]
        if bad_:
            return None, 'library build for replay failed: ' + bad_[0][-400:]
        extra = [o_ for o_, _ in res_]
    cmd = ['g++', '-std=c++11', '-O0', '-g', '-fno-access-control', '-w', '-I' + repo, '-I' + os.path.join(repo, 'src'),
           '-I' + INCLUDE, src] + extra + unit.get('replay_link', []) + ['-o', exe]
    rc, out, err, _ = run(cmd, 600)
    if rc != 0:
        return None, 'replay build failed: ' + err[-600:]
    return exe, ''


def native_replay(exe, job, obligation, inputs, timeout=60):
    args = [exe, job['name'], obligation.get('name') or obligation['id']]
    for k, v in sorted(inputs.items()):
        if k.startswith('__') or '!' in k:
            continue
        if k.endswith('#bin'):
            args.append('%s.bin=%s' % (k[:-4], v))
            continue
        args.append('%s=%s' % (k, v))
    rc, out, err, _ = run(args, timeout)
    return rc, out, err, args


# --------------------------------------------------------------------------
# known findings
# --------------------------------------------------------------------------

def load_known_findings():
    path = os.path.join(VERIF, 'known_findings.txt')
    findings = []
    if os.path.exists(path):
        for line in open(path):
            line = line.strip()
            if line.startswith('finding:'):
                m = re.match(r'finding:\s+property=(\w+)\s+key=(\S+)\s+(.*)$', line)
                if m:
                    findings.append({'property': m.group(1), 'key': m.group(2), 'what': m.group(3)})
    return findings


def obligation_key(unit, job, rec):
    return '%s@%s/%s' % (rec.get('name') or rec['id'], unit, job)


# --------------------------------------------------------------------------
# property driver
# --------------------------------------------------------------------------

ONLY_JOBS = None


def jobs_for_property(prop, tier, all_units):
    sel = []
    for uname in all_units:
        unit = load_unit(uname)
        for job in unit.get('jobs', []):
            if prop not in job.get('props', []):
                continue
            if job.get('tier', 'quick') == 'thorough' and tier != 'thorough':
                continue
            if ONLY_JOBS and job['name'] not in ONLY_JOBS:
                continue
            sel.append((unit, job))
    return sel


def list_units():
    d = os.path.join(VERIF, 'units')
    return sorted(n for n in os.listdir(d) if os.path.exists(os.path.join(d, n, 'unit.py')))


def variant_key(v):
    if not v:
        return ''
    return '@' + '_'.join('%s-%s' % (k, re.sub(r'\W+', '', str(val))) for k, val in sorted(v.items()))


def check_property(prop, tier, repo, seed=0, only_units=None, verbose=True, write_evidence=True):
    t_start = time.time()
    units = only_units or list_units()
    sel = jobs_for_property(prop, tier, units)
    lines = []
    if not sel:
        print('UNDECIDED property=%s reason=no-jobs-registered' % prop)
        return 2
    # build units (per variant)
    built = {}
    undecided = []
    for unit, job in sel:
        key = unit['name'] + variant_key(job.get('variant'))
        if key in built:
            continue
        outdir = os.path.join(BUILD, prop, key)
        shutil.rmtree(outdir, ignore_errors=True)
        os.makedirs(outdir, exist_ok=True)
        try:
            Source.cache.clear()
            cpath, extraction = build_unit(repo, unit, outdir, job.get('variant'))
            built[key] = (cpath, extraction, outdir, None)
        except ExtractError as e:
            built[key] = (None, None, outdir, 'extraction failed: %s' % e)
        except Exception as e:  # parse bugs must never look like a violation
            built[key] = (None, None, outdir, 'extraction crashed: %r' % e)
    results = []
    with concurrent.futures.ThreadPoolExecutor(max_workers=int(os.environ.get('VERIF_JOBS', '12'))) as ex:
        futs = []
        for unit, job in sel:
            key = unit['name'] + variant_key(job.get('variant'))
            cpath, extraction, outdir, err = built[key]
            if err:
                r = JobResult(unit['name'], job)
                r.reason = err
                results.append(r)
                continue
            futs.append(ex.submit(run_job, unit, job, cpath, outdir, tier))
        for f in futs:
            results.append(f.result())

    known = [k for k in load_known_findings() if k['property'] == prop]
    violations = []
    known_hits = []
    replay_dir = os.path.join(BUILD, 'replays')
    os.makedirs(replay_dir, exist_ok=True)
    for fn in os.listdir(replay_dir):
        if fn.startswith(prop + '_'):
            os.remove(os.path.join(replay_dir, fn))
    replay_exes = {}
    n_obl = 0
    n_dis = 0
    bounded_info = []
    per_job = []
    samples = []
    for r in results:
        unit = load_unit(r.unit)
        key = r.unit + variant_key(r.job.get('variant'))
        jrec = {'unit': r.unit, 'job': r.job['name'], 'variant': r.job.get('variant'), 'enforce': r.job.get('enforce'),
                'replaced_contracts': r.job.get('replace', []),
                'status': r.status, 'reason': r.reason, 'obligations': len(r.obligations),
                'failed': [o.get('name') or o['id'] for o in r.failed],
                'backend': r.backend, 'solver_s': round(r.solver_s, 2), 'wall_s': round(r.wall_s, 2),
                'kind': r.job.get('kind', 'proof'), 'canary_failed_as_required': r.canary_ok}
        if r.bounded:
            jrec['bound'] = r.job.get('unwind')
        per_job.append(jrec)
        if r.status == 'undecided':
            undecided.append(r)
            continue
        if r.bounded:
            bounded_info.append({'job': r.job['name'], 'unit': r.unit, 'bound': r.job.get('unwind'),
                                 'obligations_checked_up_to_bound': len(r.obligations),
                                 'result': r.status, 'label': 'bounded (not counted as proved)'})
        else:
            # obligations that fail as a listed known finding are reported separately (coverage.known_findings_hit), not counted as obligations of the proof
            kf_keys = set(k['key'] for k in known)
            kf_failed = [o for o in r.failed if obligation_key(r.unit, r.job['name'], o) in kf_keys]
            n_obl += len(r.obligations) - len(kf_failed)
            n_dis += sum(1 for o in r.obligations if o['status'] == 'SUCCESS')
        if len(samples) < 12:
            for o in r.obligations:
                if o.get('name'):
                    samples.append({'unit': r.unit, 'job': r.job['name'], 'obligation': o['id'], 'name': o['name'],
                                    'status': o['status'], 'where': '%s:%s' % (os.path.relpath(o['file'], VERIF) if o['file'] else '', o['line'])})
                    break
        for rec in r.failed:
            okey = obligation_key(r.unit, r.job['name'], rec)
            kf = [k for k in known if k['key'] == okey]
            # replay
            inputs = r.trace_inputs.get(rec['id'], {})
            reproduced = False
            native_out = ''
            replay_args = None
            if r.job.get('replay', True) and inputs is not None:
                if key not in replay_exes:
                    replay_exes[key] = build_replay(unit, repo, built[key][2])
                exe, why = replay_exes[key]
                if exe:
                    rc, out, err, args = native_replay(exe, r.job, rec, inputs)
                    native_out = (out + err)[-3000:]
                    replay_args = args
                    reproduced = (rc == 1 and 'REPRODUCED' in out)
                else:
                    native_out = why
            path = os.path.join(replay_dir, '%s_%s_%s_%s.json' % (prop, r.unit, r.job['name'], re.sub(r'\W+', '_', rec.get('name') or rec['id'])))
            with open(path, 'w') as fo:
                json.dump({'property': prop, 'unit': r.unit, 'job': r.job['name'], 'obligation': rec,
                           'obligation_key': okey, 'inputs': inputs, 'native_replay_cmd': replay_args,
                           'native_replay_reproduced': reproduced, 'native_output': native_out,
                           'verifier_trace_tail': r.raw_fail_output.get(rec['id'], []),
                           'cmds': r.cmds}, fo, indent=1)
            if kf:
                known_hits.append((kf[0], okey, path))
            else:
                violations.append((okey, path, reproduced))

    # a known finding whose obligation now passes is simply not printed
    for kf, okey, path in known_hits:
        print('KNOWN-FINDING: property=%s %s key=%s' % (prop, kf['what'], okey))
    for okey, path, reproduced in violations:
        print('VIOLATION property=%s replay=%s%s' % (prop, path, '' if reproduced else ' no-failing-input-found'))
        print('  failed-obligation %s' % okey)
    for r in undecided:
        print('UNDECIDED property=%s unit=%s job=%s reason=%s' % (prop, r.unit, r.job['name'], r.reason))
    wall = time.time() - t_start
    if verbose:
        for j in per_job:
            print('  job %-40s %-11s obligations=%-4d %.1fs %s' % (j['unit'] + '/' + j['job'], j['status'], j['obligations'], j['wall_s'], j['reason'][:150]))
        print('property=%s tier=%s jobs=%d obligations=%d discharged=%d violations=%d known=%d undecided=%d wall=%.1fs'
              % (prop, tier, len(results), n_obl, n_dis, len(violations), len(known_hits), len(undecided), wall))

    if write_evidence:
        write_evidence_file(prop, tier, seed, results, per_job, built, n_obl, n_dis, bounded_info,
                            samples, violations, known_hits, undecided, wall, sel)
    if violations:
        return 1
    if undecided:
        return 2
    return 0


def write_evidence_file(prop, tier, seed, results, per_job, built, n_obl, n_dis, bounded_info,
                        samples, violations, known_hits, undecided, wall, sel):
    units_used = {}
    for unit, job in sel:
        units_used[unit['name']] = unit
    trusted = [
        'CBMC 6.11.0 (goto-cc C front end, goto-instrument --dfcc contract instrumentation, cbmc SAT back end) is sound',
        'tools/vlib/extract.py rules R1-R8 preserve meaning (syntactic, fire-counted; bodies are copied verbatim from the byte ranges listed under functions_under_contract)',
        'include/verif_common.h: SWAP/MAX/MIN/ABS macros equal the defines.h templates; MEDDLY_DCASSERT/MEDDLY_CHECK_RANGE/FAIL have release-build semantics',
        'gcc/clang two\'s-complement behaviour for shifts of negative values and narrowing conversions',
        'exception model (DESIGN 3.3): a throw records its code and returns; propagation through callers is cut by assume(verif_exc==0)',
    ]
    assumptions = []
    fuc = []
    unverified = []
    for uname, unit in units_used.items():
        for s in unit.get('stubs', []):
            trusted.append('assumed contract (%s): %s' % (uname, s))
        for a in unit.get('assumptions', []):
            assumptions.append('%s: %s' % (uname, a))
        for x in unit.get('unverified_surroundings', {}).get(prop, []):
            unverified.append('%s: %s' % (uname, x))
    seen_fn = set()
    for key, (cpath, extraction, outdir, err) in built.items():
        if not extraction:
            continue
        for f in extraction['functions']:
            k = (key, f['cname'])
            if k in seen_fn:
                continue
            seen_fn.add(k)
            fuc.append({'unit': key, 'function': f['cname'], 'source': '%s:%d-%d' % (f['file'], f['line'], f['end_line']),
                        'sha256_16': f['sha256_16'], 'loops': f['loops'], 'rule_fires': f['rule_fires']})
    enforced = sorted(set('%s/%s' % (j['unit'], j['enforce']) for j in per_job if j.get('enforce')))
    sample_cmd = ''
    for r in results:
        if r.cmds and len(r.cmds) >= 3:
            sample_cmd = ' && '.join(r.cmds[:3])
            break
    ev = {
        'property_id': prop,
        'tier': tier,
        'seed': int(seed),
        'level': 'proof',
        'coverage': {
            'obligations': n_obl,
            'discharged': n_dis,
            'checker_cmd': sample_cmd or 'n/a',
            'trusted_base': trusted,
            'samples': samples or [{'note': 'no named obligations in this run'}],
            'explanation': 'obligations = all CBMC properties (postconditions, assigns/frees frame checks, loop invariant base/step, decreases, pointer/bounds checks, callee preconditions) of the proof jobs; canaries and jobs labelled bounded are not counted',
            'contracts_enforced': enforced,
            'functions_extracted': fuc,
            'per_job': per_job,
            'bounded': bounded_info,
            'unverified_surroundings': unverified,
            'known_findings_hit': [{'key': okey, 'what': kf['what'], 'replay': path} for kf, okey, path in known_hits],
            'undecided_jobs': [{'unit': r.unit, 'job': r.job['name'], 'reason': r.reason} for r in undecided],
            'solver_time_s': round(sum(j['solver_s'] for j in per_job), 2),
        },
        'assumptions': assumptions,
        'wall_s': round(wall, 2),
        'violations': len(violations),
    }
    os.makedirs(os.path.join(VERIF, 'evidence'), exist_ok=True)
    with open(os.path.join(VERIF, 'evidence', prop + '.json'), 'w') as fo:
        json.dump(ev, fo, indent=1)
