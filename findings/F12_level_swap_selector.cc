// F12: policies::isLevelSwap() tests `VAR == swap`, so after setLevelSwap() neither isVarSwap() nor isLevelSwap() holds and
// mtmxd_forest::swapAdjacentVariables does nothing: reorderVariables on a relation forest silently leaves the order unchanged.
// Prints the order reached and checks the held edge against an oracle, for every target order of 3 variables.
#include "src/meddly.h"
#include <iostream>
#include <algorithm>
using namespace MEDDLY;
static const int NV = 3;
static const int sizes[NV] = { 2, 3, 2 };
static long oracle(const int* x, const int* y) { return 1 + x[1] + 2*x[2]*y[1] + 5*x[3] + 7*y[2] + ((x[2]==2 && y[3]==1) ? 40 : 0); }
static void var(forest* F, int v, bool pr, dd_edge &e) { rangeval t[3]; for (int i=0;i<3;i++) t[i]=rangeval(long(i)); F->createEdgeForVar(v, pr, t, e); }
static void build(forest* F, dd_edge &f)
{
    dd_edge x1(F),x2(F),x3(F),y1(F),y2(F),y3(F),c(F),t(F),u(F);
    var(F,1,false,x1); var(F,2,false,x2); var(F,3,false,x3); var(F,1,true,y1); var(F,2,true,y2); var(F,3,true,y3);
    F->createConstant(rangeval(1L), f); apply(PLUS, f, x1, f);
    apply(MULTIPLY, x2, y1, t); F->createConstant(rangeval(2L), c); apply(MULTIPLY, t, c, t); apply(PLUS, f, t, f);
    F->createConstant(rangeval(5L), c); apply(MULTIPLY, x3, c, t); apply(PLUS, f, t, f);
    F->createConstant(rangeval(7L), c); apply(MULTIPLY, y2, c, t); apply(PLUS, f, t, f);
    F->createConstant(rangeval(2L), c); apply(EQUAL, x2, c, t); F->createConstant(rangeval(1L), c); apply(EQUAL, y3, c, u);
    apply(MULTIPLY, t, u, t); F->createConstant(rangeval(40L), c); apply(MULTIPLY, t, c, t); apply(PLUS, f, t, f);
}
static int check(domain* D, int levelswap, const int* order)
{
    policies p; p.useDefaults(RELATION); if (levelswap) { p.setLevelSwap(); if (levelswap==1) p.setFullyReduced(); else p.setQuasiReduced(); } else p.setVarSwap();   // level swap is implemented for fully and quasi reduced relations only
    forest* F = forest::create(D, RELATION, range_type::INTEGER, edge_labeling::MULTI_TERMINAL, p);
    int bad = 0;
    {
        dd_edge f(F); build(F, f);
        F->reorderVariables(order);
        bool reached = true; for (int k=1;k<=NV;k++) if (F->getVarByLevel(k) != order[k]) reached = false;
        if (!reached) { std::cout << "  target order " << order[1]<<order[2]<<order[3] << " NOT reached\n"; bad++; }
        else {
            minterm m(D, RELATION); int x[NV+1], y[NV+1];
            for (x[1]=0;x[1]<2;x[1]++) for (x[2]=0;x[2]<3;x[2]++) for (x[3]=0;x[3]<2;x[3]++)
            for (y[1]=0;y[1]<2;y[1]++) for (y[2]=0;y[2]<3;y[2]++) for (y[3]=0;y[3]<2;y[3]++) {
                for (int k=1;k<=NV;k++) m.setVars(k, x[order[k]], y[order[k]]);
                long got; f.evaluate(m, got);
                if (got != oracle(x,y)) { if (bad<3) std::cout << "  order "<<order[1]<<order[2]<<order[3]<<": held edge gives "<<got<<", expected "<<oracle(x,y)<<"\n"; bad++; }
            }
            dd_edge g(F); build(F, g); if (g != f) { std::cout << "  rebuilt function differs from the held edge\n"; bad++; }
        }
    }
    forest::destroy(F);
    return bad;
}
int main()
{
    try { initialize(); domain* D = domain::createBottomUp(sizes, NV); int bad = 0;
        for (int ls=0; ls<3; ls++) { int perm[NV+1]={0,1,2,3};
            do { int b = check(D, ls, perm); std::cout << (ls==0?"variable swap":ls==1?"level swap (fully reduced)":"level swap (quasi reduced)") << ", target " << perm[1]<<perm[2]<<perm[3] << (b?" : WRONG":" : ok") << "\n"; bad += b; }
            while (std::next_permutation(perm+1, perm+NV+1)); }
        cleanup(); std::cout << (bad ? "FAIL\n" : "PASS\n"); return bad ? 1 : 0;
    } catch (MEDDLY::error e) { std::cout << "FAIL: meddly error " << e.getName() << " at " << e.getFile() << ":" << e.getLine() << "\n"; return 2; }
}
