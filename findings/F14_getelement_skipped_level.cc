// F14 candidate: a domain with a variable of size 1: the (fully reduced by default) index-set forest eliminates the single-child node as redundant,
// the index set skips that level, and dd_edge::getElement walks level by level and unpacks a terminal.
#include "src/meddly.h"
#include <iostream>
using namespace MEDDLY;
int main(){ try { initialize(); int bs[3]={1,3,2}; domain* D=domain::createBottomUp(bs,3);
  forest* mdd = forest::create(D, SET, range_type::BOOLEAN, edge_labeling::MULTI_TERMINAL);
  forest* ixf = forest::create(D, SET, range_type::INTEGER, edge_labeling::INDEX_SET);
  dd_edge S(mdd), IX(ixf); mdd->createConstant(true, S);
  apply(CONVERT_TO_INDEX_SET, S, IX);
  long card; apply(CARDINALITY, S, card); std::cout << "members: " << card << "\n";
  minterm m(D, SET); int bad = 0;
  for (long i=0;i<card;i++) { bool ok = IX.getElement(i, m); std::cout << "element " << i << (ok?": ":" NOT FOUND ") << m.from(1) << m.from(2) << m.from(3) << "\n"; if (!ok) bad++; }
  std::cout << (bad?"FAIL\n":"PASS\n"); return bad?1:0;
 } catch (MEDDLY::error e) { std::cout<<"error "<<e.getName()<<" "<<e.getFile()<<":"<<e.getLine()<<"\n"; return 2;} }
