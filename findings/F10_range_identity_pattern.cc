#include "src/meddly.h"
#include <iostream>
using namespace MEDDLY;
int main(){ try { initialize(); int bs[1]={2}; domain* D=domain::createBottomUp(bs,1);
  policies p; p.useDefaults(RELATION); p.setIdentityReduced();
  forest* F=forest::create(D,RELATION,range_type::INTEGER,edge_labeling::MULTI_TERMINAL,p);
  dd_edge B(F);
  { minterm m(F); m.setVars(1, DONT_CARE, DONT_CHANGE); m.setValue(rangeval(5L)); m.buildFunction(rangeval(0L), B); }
  minterm q(F); long lo=1000, hi=-1000;
  for (int x=0;x<2;x++) for (int xp=0;xp<2;xp++) { q.setVars(1,x,xp); rangeval v; B.evaluate(q,v); std::cout<<"B("<<x<<","<<xp<<")="<<long(v)<<"\n"; if (long(v)<lo) lo=long(v); if (long(v)>hi) hi=long(v); }
  long mn, mx; apply(MIN_RANGE,B,mn); apply(MAX_RANGE,B,mx);
  std::cout<<"root node "<<B.getNode()<<"  MIN_RANGE="<<mn<<" (true "<<lo<<")  MAX_RANGE="<<mx<<" (true "<<hi<<")\n";
  return (mn==lo && mx==hi) ? 0 : 1;
 } catch (MEDDLY::error e) { std::cout<<"error "<<e.getName()<<" "<<e.getFile()<<":"<<e.getLine()<<"\n"; return 2;} }
