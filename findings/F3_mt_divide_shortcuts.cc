#include "src/meddly.h"
#include <cstdio>
using namespace MEDDLY;
static long eval(const dd_edge& e, int x1, int x2) { minterm m(e.getForest()->getDomain(), SET); m.setVar(1, x1); m.setVar(2, x2); rangeval v; e.evaluate(m, v); return long(v); }
int main(){
  initialize();
  int bounds[]={2,2};
  domain* d = domain::createBottomUp(bounds,2);
  forest* f = forest::create(d, SET, range_type::INTEGER, edge_labeling::MULTI_TERMINAL);
  // x = value of variable 1 (0 or 1): has zeros
  dd_edge x(f), q(f), z(f), r(f);
  f->createEdgeForVar(1, false, x);
  int bad = 0;
  try { apply(DIVIDE, x, x, q); printf("DIVIDE(x,x) returned; at x1=0: %ld (0/0, expected DIVIDE_BY_ZERO)\n", eval(q,0,0)); bad++; }
  catch (error e) { printf("DIVIDE(x,x) raised %s\n", e.getName()); }
  f->createConstant(0L, z);
  try { apply(DIVIDE, z, x, r); printf("DIVIDE(0,x) returned; at x1=0: %ld (0/0, expected DIVIDE_BY_ZERO)\n", eval(r,0,0)); bad++; }
  catch (error e) { printf("DIVIDE(0,x) raised %s\n", e.getName()); }
  try { apply(MODULO, x, x, q); printf("MODULO(x,x) returned; at x1=0: %ld (0%%0, expected DIVIDE_BY_ZERO)\n", eval(q,0,0)); bad++; }
  catch (error e) { printf("MODULO(x,x) raised %s\n", e.getName()); }
  // control: a divisor with a zero that is not caught by a shortcut
  dd_edge one(f), y(f);
  f->createConstant(1L, one); f->createEdgeForVar(2, false, y);
  try { apply(DIVIDE, y, x, r); printf("DIVIDE(y,x) returned (unexpected)\n"); }
  catch (error e) { printf("control DIVIDE(y,x) raised %s as documented\n", e.getName()); }
  cleanup();
  return bad ? 1 : 0;
}
