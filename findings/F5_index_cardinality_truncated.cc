#include "src/meddly.h"
#include <iostream>
using namespace MEDDLY;
int main(){ try { initialize(); int bs[5]={256,256,256,256,256}; domain* D=domain::createBottomUp(bs,5);
  policies p; p.useDefaults(SET); p.setQuasiReduced(); forest* mdd=forest::create(D,SET,range_type::BOOLEAN,edge_labeling::MULTI_TERMINAL,p);
  forest* ix=forest::create(D,SET,range_type::INTEGER,edge_labeling::INDEX_SET);
  dd_edge all(mdd), e(ix); mdd->createConstant(true, all);
  apply(CONVERT_TO_INDEX_SET, all, e);
  double card; apply(CARDINALITY, all, card);
  long got = ix->getIndexSetCardinality(e.getNode());
  std::cout << "members: " << (long)card << "  getIndexSetCardinality: " << got << "\n";
  // 3 variables only: 2^24 members fits
  return (double)got == card ? 0 : 1;
 } catch (MEDDLY::error e) { std::cout<<"error "<<e.getName()<<" "<<e.getFile()<<":"<<e.getLine()<<"\n"; return 2;} }
