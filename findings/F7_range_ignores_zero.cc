#include "src/meddly.h"
#include <iostream>
using namespace MEDDLY;
static void build(forest* F, long v0, long v1, dd_edge &e) {   // f(x1,x2) = x1==0 ? v0 : v1
    minterm_coll mtl(4, F);
    for (int x1=0;x1<2;x1++) for (int x2=0;x2<2;x2++) { minterm &m = mtl.unused(); m.setVar(1,x1); m.setVar(2,x2); m.setValue(rangeval(x1==0?v0:v1)); mtl.pushUnused(); }
    mtl.buildFunctionMax(rangeval(-1000L), e);
}
int main(){ int bad=0; try { initialize(); int bs[2]={2,2}; domain* D=domain::createBottomUp(bs,2);
  forest* F=forest::create(D,SET,range_type::INTEGER,edge_labeling::MULTI_TERMINAL);
  long cases[][2]={{0,5},{5,0},{0,-3},{-3,0},{2,5},{-2,-7}};
  for (auto &c : cases) { dd_edge e(F); build(F,c[0],c[1],e); long mn,mx; apply(MIN_RANGE,e,mn); apply(MAX_RANGE,e,mx);
    long wmn = c[0]<c[1]?c[0]:c[1], wmx = c[0]>c[1]?c[0]:c[1];
    std::cout<<"values {"<<c[0]<<","<<c[1]<<"}: MIN_RANGE="<<mn<<" (want "<<wmn<<") MAX_RANGE="<<mx<<" (want "<<wmx<<")"<<((mn!=wmn||mx!=wmx)?"  WRONG":"")<<"\n"; if (mn!=wmn||mx!=wmx) bad++; }
 } catch (MEDDLY::error e) { std::cout<<"error "<<e.getName()<<" "<<e.getFile()<<":"<<e.getLine()<<"\n"; return 2;} return bad?1:0; }
