// F11: the reordering schedules lowest_inversion, highest_inversion, larc, lowest_cost, lowest_memory and random allocate
// `new int[size]` for var2level and then write var2level[level2var[i]] for i = 1..size, i.e. index `size`: one int past the block.
// Run under valgrind (or build with -fsanitize=address): "Invalid write of size 4 ... 0 bytes after a block of size 12 alloc'd" before the fix, silent after it.
#include "src/meddly.h"
#include <iostream>
using namespace MEDDLY;
int main(){ try { initialize(); int bs[3]={2,2,2}; domain* D=domain::createBottomUp(bs,3);
  policies p; p.useDefaults(SET); p.setLowestInversion();
  forest* F=forest::create(D,SET,range_type::BOOLEAN,edge_labeling::MULTI_TERMINAL,p);
  dd_edge e(F); minterm_coll mtl(2,F);
  { minterm &m=mtl.unused(); m.setVar(1,0); m.setVar(2,1); m.setVar(3,1); m.setValue(rangeval(true)); mtl.pushUnused(); }
  { minterm &m=mtl.unused(); m.setVar(1,1); m.setVar(2,0); m.setVar(3,1); m.setValue(rangeval(true)); mtl.pushUnused(); }
  mtl.buildFunctionMax(rangeval(false), e);
  int order[4]={0,3,2,1};            // level -> variable, the reverse order: var2level[3] = 1 is the out-of-bounds write
  F->reorderVariables(order);
  std::cout<<"reordered; level 1 holds variable "<<F->getVarByLevel(1)<<"\n";
 } catch (MEDDLY::error e) { std::cout<<"error "<<e.getName()<<" "<<e.getFile()<<":"<<e.getLine()<<"\n"; return 2;} return 0; }
