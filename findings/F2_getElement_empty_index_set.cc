#include "src/meddly.h"
#include <cstdio>
using namespace MEDDLY;
int main(){
  initialize();
  int bounds[]={2,2,2};
  domain* d = domain::createBottomUp(bounds,3);
  forest* mdd = forest::create(d, SET, range_type::BOOLEAN, edge_labeling::MULTI_TERMINAL);
  forest* ix = forest::create(d, SET, range_type::INTEGER, edge_labeling::INDEX_SET);
  dd_edge e(mdd), x(ix);
  mdd->createConstant(false, e);
  apply(CONVERT_TO_INDEX_SET, e, x);
  printf("index set of empty set: node=%d\n", x.getNode());
  minterm m(d, SET);
  fflush(stdout);
  bool r = x.getElement(0L, m);
  printf("getElement(0) on empty set -> %d\n", (int)r);
  cleanup();
  return 0;
}
