#include "src/meddly.h"
#include <cstdio>
using namespace MEDDLY;
int main(){
  initialize();
  int bounds[]={2,2};
  domain* d = domain::createBottomUp(bounds,2);
  forest* f = forest::create(d, SET, range_type::INTEGER, edge_labeling::EVPLUS);
  dd_edge x(f), q(f), z(f), r(f), inf(f);
  f->createEdgeForVar(1, false, x);
  int bad = 0;
  try { apply(DIVIDE, x, x, q); printf("EV+ DIVIDE(x,x) returned a value (x has a zero)\n"); bad++; } catch (error e) { printf("EV+ DIVIDE(x,x) raised %s\n", e.getName()); }
  try { apply(MODULO, x, x, q); printf("EV+ MODULO(x,x) returned a value (x has a zero)\n"); bad++; } catch (error e) { printf("EV+ MODULO(x,x) raised %s\n", e.getName()); }
  f->createConstant(0L, z);
  try { apply(DIVIDE, z, x, r); printf("EV+ DIVIDE(0,x) returned a value\n"); bad++; } catch (error e) { printf("EV+ DIVIDE(0,x) raised %s\n", e.getName()); }
  try { rangeval pinf(range_special::PLUS_INFINITY, range_type::INTEGER); f->createConstant(pinf, inf); apply(MINUS, inf, inf, r); printf("EV+ MINUS(inf,inf) returned a value\n"); bad++; } catch (error e) { printf("EV+ MINUS(inf,inf) raised %s\n", e.getName()); }
  cleanup();
  return bad ? 1 : 0;
}
