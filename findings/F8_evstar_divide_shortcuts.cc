#include "src/meddly.h"
#include <iostream>
using namespace MEDDLY;
static void build(forest* F, double (*f)(int,int), dd_edge &e) {
    minterm_coll mtl(4, F);
    for (int x1=0;x1<2;x1++) for (int x2=0;x2<2;x2++) { minterm &m = mtl.unused(); m.setVars(1,x1,x1); m.setVars(2,x2,x2); m.setValue(rangeval(f(x1,x2))); mtl.pushUnused(); }
    mtl.buildFunctionMax(rangeval(0.0), e);
}
static double zero(int,int){return 0.0;} static double a2(int x1,int){return x1==0?0.0:5.0;} static double b(int,int x2){return x2==1?0.0:2.0;}
static void show(const char* n, dd_edge &A, dd_edge &B, forest* F) {
  try { dd_edge C(F); apply(DIVIDE, A, B, C); minterm m(F);
    for (int x1=0;x1<2;x1++) for (int x2=0;x2<2;x2++) { m.setVars(1,x1,x1); m.setVars(2,x2,x2); rangeval av,bv,cv; A.evaluate(m,av); B.evaluate(m,bv); C.evaluate(m,cv);
      std::cout<<n<<" ("<<x1<<","<<x2<<"): "<<double(av)<<" / "<<double(bv)<<" = "<<double(cv)<<"\n"; }
  } catch (MEDDLY::error e) { std::cout<<n<<": error "<<e.getName()<<"\n"; } }
int main(){ try { initialize(); int bs[2]={2,2}; domain* D=domain::createBottomUp(bs,2);
  forest* F=forest::create(D,RELATION,range_type::REAL,edge_labeling::EVTIMES);
  dd_edge Z(F),A2(F),B(F); build(F,zero,Z); build(F,a2,A2); build(F,b,B);
  show("B/B",B,B,F); show("ZERO/B",Z,B,F); show("A2/B",A2,B,F);
 } catch (MEDDLY::error e) { std::cout<<"error "<<e.getName()<<" "<<e.getFile()<<":"<<e.getLine()<<"\n"; return 2;} return 0; }
