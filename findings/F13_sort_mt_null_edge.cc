// F13: unpacked_node::sort() exchanges _edge[zd] and _edge[zn] unconditionally; multi-terminal forests have no edge values
// (_edge == nullptr), so createReducedNode on a sparse scratch node whose entries are not in index order dereferences a null pointer.
// Before the fix: segmentation fault.  After: the node is sorted and equals the node built in order.
#include "src/meddly.h"
#include <iostream>
using namespace MEDDLY;
static node_handle build(forest* F, const unsigned* idx, const long* val, unsigned n)
{
    unpacked_node* U = unpacked_node::newWritable(F, 1, n, SPARSE_ONLY);
    for (unsigned z=0; z<n; z++) { edge_value v; node_handle t; F->getEdgeForValue(rangeval(val[z]), v, t); U->setSparse(z, idx[z], t); }
    edge_value ev; node_handle r; F->createReducedNode(U, ev, r); return r;
}
int main(){ try { initialize(); int bs[1]={4}; domain* D=domain::createBottomUp(bs,1);
  policies p; p.useDefaults(SET); p.setSparseStorage();
  forest* F=forest::create(D,SET,range_type::INTEGER,edge_labeling::MULTI_TERMINAL,p);
  const unsigned i1[3]={0,1,3}; const long v1[3]={5,6,7};
  const unsigned i2[3]={3,0,1}; const long v2[3]={7,5,6};      // the same function, entries out of order
  dd_edge a(F), b(F); edge_value none;
  a.set(none, build(F,i1,v1,3));
  b.set(none, build(F,i2,v2,3));
  std::cout << (a==b ? "PASS: the unsorted node is the same function\n" : "FAIL: different nodes\n"); return a==b ? 0 : 1;
 } catch (MEDDLY::error e) { std::cout<<"error "<<e.getName()<<" "<<e.getFile()<<":"<<e.getLine()<<"\n"; return 2;} }
