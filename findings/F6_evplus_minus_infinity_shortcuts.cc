#include "src/meddly.h"
#include <iostream>
using namespace MEDDLY;
static void build(forest* F, long (*f)(int,int), bool (*isinf)(int,int), dd_edge &e) {
    minterm_coll mtl(4, F);
    for (int x1=0;x1<2;x1++) for (int x2=0;x2<2;x2++) {
        minterm &m = mtl.unused(); m.from(1)=x1; m.from(2)=x2;
        if (isinf(x1,x2)) m.setValue(rangeval(range_special::PLUS_INFINITY, range_type::INTEGER)); else m.setValue(rangeval(f(x1,x2)));
        mtl.pushUnused();
    }
    mtl.buildFunctionMin(rangeval(range_special::PLUS_INFINITY, range_type::INTEGER), e);
}
static long zero(int,int){return 0;} static bool never(int,int){return false;}
static long a2(int x1,int){return x1==0?0:5;} static bool always(int,int){return true;}
static long b(int,int){return 3;} static bool binf(int,int x2){return x2==1;}
static binary_builtin0 OP = MINUS;
static void show(const char* n, dd_edge &A, dd_edge &B, forest* F) {
    dd_edge C(F); apply(OP, A, B, C);
    minterm m(F);
    for (int x1=0;x1<2;x1++) for (int x2=0;x2<2;x2++) { m.from(1)=x1; m.from(2)=x2; rangeval av,bv,cv; A.evaluate(m,av); B.evaluate(m,bv); C.evaluate(m,cv);
      std::cout<<n<<" ("<<x1<<","<<x2<<"): "; if(av.isPlusInfinity())std::cout<<"inf";else std::cout<<long(av); std::cout<<" * "; if(bv.isPlusInfinity())std::cout<<"inf";else std::cout<<long(bv); std::cout<<" = "; if(cv.isPlusInfinity())std::cout<<"inf";else std::cout<<long(cv); std::cout<<"\n"; }
}
static void showm_(const char* n, dd_edge &A, dd_edge &B, forest* F){ try { show(n,A,B,F);} catch (MEDDLY::error e) { std::cout<<n<<": error "<<e.getName()<<"\n"; } }
int main(){ try { initialize(); int bs[2]={2,2}; domain* D=domain::createBottomUp(bs,2); policies p; p.useDefaults(SET); p.setFullyReduced();
  forest* F=forest::create(D,SET,range_type::INTEGER,edge_labeling::EVPLUS,p);
  dd_edge A1(F),A2(F),B(F),I(F); build(F,zero,always,I); build(F,zero,never,A1); build(F,a2,never,A2); build(F,b,binf,B);
  showm_("B-B",B,B,F); showm_("INF-B",I,B,F); showm_("A2-B",A2,B,F);
 } catch (MEDDLY::error e) { std::cout<<"error "<<e.getName()<<" "<<e.getFile()<<":"<<e.getLine()<<"\n"; return 2;} return 0; }
