#include "src/meddly.h"
#include <iostream>
using namespace MEDDLY;
static std::string at(dd_edge &e, forest* F, int x, int xp) { minterm m(F); m.setVars(1, x, xp); rangeval v; e.evaluate(m, v); return v.isPlusInfinity() ? "inf" : std::to_string(long(v)); }
int main(){ try { initialize(); int bs[1]={2}; domain* D=domain::createBottomUp(bs,1);
  policies p; p.useDefaults(RELATION); p.setFullyReduced();
  forest* F1=forest::create(D,RELATION,range_type::INTEGER,edge_labeling::EVPLUS,p);
  p.setIdentityReduced();
  forest* F2=forest::create(D,RELATION,range_type::INTEGER,edge_labeling::EVPLUS,p);
  // A(x,x') = 1 + x + 2x' in the fully reduced forest
  dd_edge A(F1), B(F2), C(F1);
  { minterm_coll mtl(4, F1); for (int x=0;x<2;x++) for (int xp=0;xp<2;xp++) { minterm &m=mtl.unused(); m.setVars(1,x,xp); m.setValue(rangeval(1L+x+2*xp)); mtl.pushUnused(); }
    mtl.buildFunctionMin(rangeval(range_special::PLUS_INFINITY, range_type::INTEGER), A); }
  // B = identity pattern with value 0: 0 where x' == x, infinity elsewhere
  { minterm m(F2); m.setVars(1, DONT_CARE, DONT_CHANGE); m.setValue(rangeval(0L)); m.buildFunction(rangeval(range_special::PLUS_INFINITY, range_type::INTEGER), B); }
  for (int x=0;x<2;x++) for (int xp=0;xp<2;xp++) std::cout<<"A("<<x<<","<<xp<<")="<<at(A,F1,x,xp)<<"  B("<<x<<","<<xp<<")="<<at(B,F2,x,xp)<<"\n";
  std::cout<<"B root node "<<B.getNode()<<"\n";
  try { apply(MINUS, A, B, C); for (int x=0;x<2;x++) for (int xp=0;xp<2;xp++) std::cout<<"(A-B)("<<x<<","<<xp<<")="<<at(C,F1,x,xp)<<"\n"; std::cout<<"NO ERROR although B is infinite off the diagonal\n"; return 1; }
  catch (MEDDLY::error e) { std::cout<<"A-B: error "<<e.getName()<<"\n"; return 0; }
 } catch (MEDDLY::error e) { std::cout<<"error "<<e.getName()<<" "<<e.getFile()<<":"<<e.getLine()<<"\n"; return 2;} }
